#!/usr/bin/env python3
"""Management of seeded changes (/verif/seeded/<name>/{patch.diff, demo.py, meta.json}).

  seeded.py verify <dir>    in a scratch worktree of /repo HEAD: demo passes, patch applies, the pinned test-suite
                            still passes, demo fails with the patch; the worktree is removed afterwards
  seeded.py detect <dir> [--tier quick|thorough] [--check Cxx]
                            apply the patch in a scratch worktree, run the property's check against it; records the outcome
                            in <dir>/meta.json under "detection"
  seeded.py import <src dir> <Cxx-mutN>   copy a sub-agent's deliverable into seeded/ and verify it
  seeded.py all [--tier ..] detect every seeded change and print a table
Nothing here is part of a registered check; /repo is never modified (scratch worktrees, removed afterwards).
"""
import json
import os
import subprocess
import sys
import tempfile
import time

VERIF = os.path.dirname(os.path.dirname(os.path.abspath(__file__)))
REPO = '/repo'
PY = '/venv/bin/python'


def sh(cmd, cwd=None, timeout=3600, env=None):
    p = subprocess.run(cmd, cwd=cwd, shell=isinstance(cmd, str), capture_output=True, text=True, timeout=timeout, env=env)
    return p.returncode, p.stdout + p.stderr


def verify(d):
    meta = json.load(open(os.path.join(d, 'meta.json')))
    wt = tempfile.mkdtemp(prefix='seedwt_')
    os.rmdir(wt)
    res = {}
    try:
        rc, out = sh(['git', '-C', REPO, 'worktree', 'add', '--detach', '-q', wt, 'HEAD'])
        assert rc == 0, out
        env = dict(os.environ, PYTHONPATH=wt, PYTHONDONTWRITEBYTECODE='1')
        demo = os.path.join(os.path.abspath(d), 'demo.py')
        rc, out = sh([PY, demo], cwd=wt, env=env, timeout=1800)
        res['demo_clean_rc'] = rc
        rc, out = sh(['git', '-C', wt, 'apply', os.path.join(os.path.abspath(d), 'patch.diff')])
        res['apply_rc'] = rc
        if rc == 0:
            rc, out = sh([PY, '-m', 'pytest', '-q', '-p', 'no:cacheprovider', '-x'], cwd=wt, env=env, timeout=3600)
            res['tests_rc'] = rc
            res['tests_tail'] = out.strip().splitlines()[-1] if out.strip() else ''
            rc, out = sh([PY, demo], cwd=wt, env=env, timeout=1800)
            res['demo_patched_rc'] = rc
            res['demo_patched_tail'] = '\n'.join(out.strip().splitlines()[-3:])
    finally:
        sh(['git', '-C', REPO, 'worktree', 'remove', '--force', wt])
    res['ok'] = (res.get('demo_clean_rc') == 0 and res.get('apply_rc') == 0 and res.get('tests_rc') == 0
                 and res.get('demo_patched_rc', 0) != 0)
    meta['verified'] = res
    json.dump(meta, open(os.path.join(d, 'meta.json'), 'w'), indent=1)
    print(os.path.basename(d), 'VERIFIED' if res['ok'] else 'NOT-VERIFIED', res)
    return res['ok']


def detect(d, tier='quick', check=None):
    """The seeded change is applied in a scratch worktree of /repo HEAD (removed afterwards) and the check runs with
    TORCHTREE_REPO pointing at it: /repo itself is never touched, so detections can run side by side."""
    meta = json.load(open(os.path.join(d, 'meta.json')))
    pid = check or meta['property']
    wt = tempfile.mkdtemp(prefix='seedwt_')
    os.rmdir(wt)
    t0 = time.time()
    try:
        rc, out = sh(['git', '-C', REPO, 'worktree', 'add', '--detach', '-q', wt, 'HEAD'])
        assert rc == 0, out
        rc, out = sh(['git', '-C', wt, 'apply', os.path.join(os.path.abspath(d), 'patch.diff')])
        if rc != 0:
            print('patch does not apply', out[-300:])
            return None
        env = dict(os.environ, TORCHTREE_REPO=wt, VERIF_EVIDENCE_DIR=wt + '.ev')
        rc, out = sh([os.path.join(VERIF, 'check'), pid, '--tier', tier], cwd=VERIF, timeout=10800, env=env)
    finally:
        sh(['git', '-C', REPO, 'worktree', 'remove', '--force', wt])
        sh(['rm', '-rf', wt + '.ev'])
    viol = [l for l in out.splitlines() if l.startswith('VIOLATION')]
    what = [l.strip()[:300] for l in out.splitlines() if l.strip().startswith('what:')][:2]
    outcome = 'DETECTED' if rc == 1 and viol else ('INCONCLUSIVE' if rc == 2 else ('MISSED' if rc == 0 else f'rc={rc}'))
    meta = json.load(open(os.path.join(d, 'meta.json')))
    meta.setdefault('detection', {})[f'{pid}:{tier}'] = {'outcome': outcome, 'exit': rc, 'violations': len(viol), 'what': what,
                                                        'wall_s': round(time.time() - t0, 1)}
    json.dump(meta, open(os.path.join(d, 'meta.json'), 'w'), indent=1)
    print(f'{os.path.basename(d):28s} {pid} {tier:8s} {outcome:12s} {time.time() - t0:6.1f}s  {what[0][:160] if what else ""}')
    return outcome


def import_(src, name):
    """copy <src>/{patch.diff,demo.py,meta.json} (written by a blind sub-agent in its scratch worktree) to seeded/<name>/"""
    import shutil

    dst = os.path.join(VERIF, 'seeded', name)
    os.makedirs(dst, exist_ok=True)
    for f in ('patch.diff', 'demo.py', 'meta.json'):
        shutil.copy(os.path.join(src, f), os.path.join(dst, f))
    meta = json.load(open(os.path.join(dst, 'meta.json')))
    meta['property'] = name.split('-')[0]
    meta['round'] = int(os.environ.get('SEEDED_ROUND', '4'))
    meta.setdefault('needs', meta.get('trigger', ''))
    json.dump(meta, open(os.path.join(dst, 'meta.json'), 'w'), indent=1)
    return dst


if __name__ == '__main__':
    cmd = sys.argv[1]
    args = sys.argv[2:]
    tier = 'quick'
    check = None
    if '--tier' in args:
        tier = args[args.index('--tier') + 1]
    if '--check' in args:
        check = args[args.index('--check') + 1]
    pos = [a for k, a in enumerate(args) if not a.startswith('--') and (k == 0 or args[k - 1] not in ('--tier', '--check', '--jobs'))]
    if cmd == 'verify':
        sys.exit(0 if verify(pos[0]) else 1)
    elif cmd == 'detect':
        detect(pos[0], tier, check)
    elif cmd == 'import':
        d = import_(pos[0], pos[1])
        sys.exit(0 if verify(d) else 1)
    elif cmd == 'all':
        base = os.path.join(VERIF, 'seeded')
        jobs = int(args[args.index('--jobs') + 1]) if '--jobs' in args else 1
        dirs = [os.path.join(base, name) for name in sorted(os.listdir(base))
                if os.path.exists(os.path.join(base, name, 'patch.diff')) and (not pos or any(name.startswith(p) for p in pos))]
        if jobs <= 1:
            for dd in dirs:
                detect(dd, tier, check)
        else:
            from concurrent.futures import ThreadPoolExecutor
            with ThreadPoolExecutor(jobs) as ex:
                list(ex.map(lambda dd: detect(dd, tier, check), dirs))
