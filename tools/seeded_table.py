#!/usr/bin/env python3
"""Prints the markdown table of seeded changes and which check catches them (from seeded/*/meta.json)."""
import json, os
base = os.path.join(os.path.dirname(os.path.dirname(os.path.abspath(__file__))), 'seeded')
print('| seeded change | what was changed | what it needs to manifest | caught by |')
print('|---|---|---|---|')
for name in sorted(os.listdir(base)):
    p = os.path.join(base, name, 'meta.json')
    if not os.path.exists(p):
        continue
    m = json.load(open(p))
    det = m.get('detection', {})
    caught = [k.replace(':', ' ') for k, v in det.items() if v['outcome'] == 'DETECTED']
    missed = [k.replace(':', ' ') for k, v in det.items() if v['outcome'] != 'DETECTED']
    cell = ', '.join(caught) if caught else '**not caught**'
    if missed:
        cell += ' (not by: ' + ', '.join(f"{k} [{det[k.replace(' ', ':')]['outcome'].lower()}]" for k in missed) + ')'
    s = m.get('summary', '').replace('|', '/').replace('\n', ' ')
    n = (m.get('needs') or m.get('trigger') or '').replace('|', '/').replace('\n', ' ')
    print(f"| {name} | {s[:160]} | {n[:140]} | {cell} |")
