"""Common check infrastructure: verdict policy, known findings, evidence, task pool.

Exit codes: 0 = property held on everything explored (KNOWN-FINDING lines allowed)
            1 = VIOLATION (replayed on the real code, not listed in known_findings.json)
            2 = inconclusive / harness error (never a verdict)
"""
from __future__ import annotations

import hashlib
import inspect
import json
import os
import sys
import time
import traceback
from concurrent.futures import ProcessPoolExecutor, as_completed

VERIF = os.path.dirname(os.path.dirname(os.path.abspath(__file__)))
REPO = os.environ.get('TORCHTREE_REPO', '/repo')

REAL_NOTE = ('identities are decided over the reals (float64 constants enter as exact rationals); '
             'nothing is claimed about rounding, cancellation, overflow or underflow')


def load_known():
    p = os.path.join(VERIF, 'known_findings.json')
    if not os.path.exists(p):
        return {'findings': [], 'fixed': []}
    with open(p) as f:
        return json.load(f)


class TaskResult:
    """What one (possibly forked) unit of work reports back.  Plain data only."""

    def __init__(self, name=''):
        self.name = name
        self.functions = {}  # qualname -> source sha1
        self.regions = 0
        self.closures = 0  # coverage certificates (closure query unsat)
        self.queries = 0
        self.solver_s = 0.0
        self.by_solver = {}
        self.sat = self.unsat = self.unknown = 0
        self.obligations = set()  # sha1 of normalised nontrivial obligation text
        self.evaluations = 0
        self.witness_runs = 0  # symbolic executions whose values were cross-checked against torch
        self.ops_checked = 0
        self.samples = []
        self.violations = []  # dicts: signature, what, replay
        self.inconclusive = []  # strings
        self.notes = []
        self.stubs = set()
        self.assumptions = set()
        self.bounds = {}

    def fn(self, *funcs):
        for f in funcs:
            try:
                src = inspect.getsource(f)
                qn = f'{f.__module__}.{f.__qualname__}'
            except Exception:
                src = repr(f)
                qn = getattr(f, '__qualname__', repr(f))
            self.functions[qn] = hashlib.sha1(src.encode()).hexdigest()[:12]

    def obligation(self, text, nontrivial=True):
        self.evaluations += 1
        if nontrivial:
            self.obligations.add(hashlib.sha1(text.encode()).hexdigest()[:16])

    def absorb_solver_stats(self, stats):
        self.queries += stats['queries']
        self.solver_s += stats['solver_s']
        for k, v in stats['by_solver'].items():
            self.by_solver[k] = self.by_solver.get(k, 0) + v
        self.sat += stats['sat']
        self.unsat += stats['unsat']
        self.unknown += stats['unknown']

    def sample(self, obj, limit=3):
        if len(self.samples) < limit:
            self.samples.append(obj)

    def violation(self, signature, what, replay):
        self.violations.append({'signature': signature, 'what': what, 'replay': replay})

    def inconc(self, msg):
        self.inconclusive.append(msg)

    def merge(self, o: 'TaskResult'):
        self.functions.update(o.functions)
        self.regions += o.regions
        self.closures += o.closures
        self.queries += o.queries
        self.solver_s += o.solver_s
        for k, v in o.by_solver.items():
            self.by_solver[k] = self.by_solver.get(k, 0) + v
        self.sat += o.sat
        self.unsat += o.unsat
        self.unknown += o.unknown
        self.obligations |= o.obligations
        self.evaluations += o.evaluations
        self.witness_runs += o.witness_runs
        self.ops_checked += o.ops_checked
        for s in o.samples:
            if len(self.samples) < 12:
                self.samples.append(s)
        self.violations.extend(o.violations)
        self.inconclusive.extend(o.inconclusive)
        self.notes.extend(o.notes)
        self.stubs |= o.stubs
        self.assumptions |= o.assumptions
        for k, v in o.bounds.items():
            self.bounds.setdefault(k, v)


def _run_task(fn, task):
    # executed in a worker process
    from symtorch import smt

    for k in smt.STATS:
        smt.STATS[k] = {} if isinstance(smt.STATS[k], dict) else type(smt.STATS[k])()
    tr = TaskResult(str(task)[:120])
    try:
        fn(task, tr)
    except BaseException as e:  # noqa
        if isinstance(e, (KeyboardInterrupt, SystemExit)):
            raise
        tr.inconc(f'task {str(task)[:100]} raised {type(e).__name__}: {e}\n' + traceback.format_exc()[-1500:])
    tr.absorb_solver_stats(smt.STATS)
    return tr


def pmap(fn, tasks, total: TaskResult, workers=None):
    """Run fn(task, TaskResult) for each task in worker processes and merge."""
    tasks = list(tasks)
    workers = workers or min(16, os.cpu_count() or 4, max(1, len(tasks)))
    if workers <= 1 or len(tasks) <= 1 or os.environ.get('VERIF_SERIAL'):
        for t in tasks:
            total.merge(_run_task(fn, t))
        return
    import multiprocessing as mp

    ctx = mp.get_context('fork')
    with ProcessPoolExecutor(max_workers=workers, mp_context=ctx) as ex:
        futs = [ex.submit(_run_task, fn, t) for t in tasks]
        for f in as_completed(futs):
            total.merge(f.result())


class Check:
    def __init__(self, pid, level='model_checking'):
        self.pid = pid
        self.level = level
        self.tier = os.environ.get('VERIF_TIER', 'quick')
        self.seed = int(os.environ.get('VERIF_SEED', '0') or 0)
        self.total = TaskResult(pid)
        self.t0 = time.time()
        self.explanation = ''
        self.rule = ('one case = one solver obligation (implementation expression vs oracle expression on one '
                     'path region / configuration); distinct = different normalised SMT text; non-trivial = '
                     'mentions at least one symbolic input and is not closed by constant folding')

    def finish(self):
        tr = self.total
        known = load_known()
        kf = [k for k in known.get('findings', []) if k['property'] == self.pid]
        new_violations = []
        seen_known = set()
        for v in tr.violations:
            match = None
            for k in kf:
                if k['signature'] == v['signature']:
                    match = k
                    break
            if match:
                if match['signature'] not in seen_known:
                    seen_known.add(match['signature'])
                    print(f"KNOWN-FINDING: property={self.pid} {match['what']}")
            else:
                new_violations.append(v)
        os.makedirs(os.path.join(VERIF, 'replays'), exist_ok=True)
        printed = set()
        for i, v in enumerate(new_violations):
            if v['signature'] in printed:
                continue
            printed.add(v['signature'])
            sig = hashlib.sha1(v['signature'].encode()).hexdigest()[:10]
            path = os.path.join(VERIF, 'replays', f'{self.pid}_{sig}.json')
            with open(path, 'w') as f:
                json.dump({'property': self.pid, 'signature': v['signature'], 'what': v['what'],
                           'replay': v['replay']}, f, indent=1, default=str)
            print(f'VIOLATION property={self.pid} replay={path}')
            print(f"  what: {v['what']}")
        for m in tr.inconclusive[:20]:
            print(f'INCONCLUSIVE: {m}')
        wall = time.time() - self.t0
        nd = len(tr.obligations)
        cov = {
            'states': max(tr.regions, 0),
            'transitions': tr.queries,
            'traces_validated_against_impl': tr.witness_runs,
            'samples': tr.samples[:8] or ['(none)'],
            'evaluations': max(tr.evaluations, 0),
            'distinct_nontrivial': nd,
            'rule': self.rule,
            'explanation': self.explanation,
            'functions_encoded': tr.functions,
            'bounds': tr.bounds,
            'stubs': sorted(tr.stubs),
            'path_regions': tr.regions,
            'coverage_certificates_unsat': tr.closures,
            'solver_queries': tr.queries,
            'solver_results': {'sat': tr.sat, 'unsat': tr.unsat, 'unknown': tr.unknown},
            'solver_by_backend': tr.by_solver,
            'solver_s': round(tr.solver_s, 2),
            'torch_ops_cross_checked_elements': tr.ops_checked,
            'known_findings_matched': sorted(seen_known),
            'inconclusive': tr.inconclusive[:10],
            'notes': tr.notes[:20],
            'exhaustive': False,
        }
        ev = {
            'property_id': self.pid,
            'tier': self.tier if self.tier in ('quick', 'thorough') else 'quick',
            'seed': self.seed,
            'level': self.level,
            'coverage': cov,
            'assumptions': sorted(tr.assumptions | {REAL_NOTE}),
            'wall_s': round(wall, 2),
            'violations': len(printed),
        }
        # evidence describes /repo itself; a run against a scratch tree (TORCHTREE_REPO, seeded-change detection)
        # writes its record next to the replays (git-ignored) and never touches the committed evidence
        evdir = os.environ.get('VERIF_EVIDENCE_DIR') or os.path.join(
            VERIF, 'evidence' if os.path.realpath(REPO) == '/repo' else 'replays')
        os.makedirs(evdir, exist_ok=True)
        with open(os.path.join(evdir, f'{self.pid}.json'), 'w') as f:
            json.dump(ev, f, indent=1, default=str)
        status = 'VIOLATION' if printed else ('INCONCLUSIVE' if tr.inconclusive else 'HELD')
        print(f'[{self.pid}] {status} tier={self.tier} regions={tr.regions} queries={tr.queries} '
              f'(unsat={tr.unsat} sat={tr.sat} unknown={tr.unknown}) distinct_obligations={nd} '
              f'witness_runs={tr.witness_runs} solver_s={tr.solver_s:.1f} wall_s={wall:.1f}')
        if printed:
            return 1
        if tr.inconclusive:
            return 2
        return 0


def main_for(pid, body, level='model_checking'):
    try:
        import torch

        # torchtree's command line runs in float64 by default; replays on plain tensors do the same
        torch.set_default_dtype(torch.float64)
    except Exception:
        pass
    chk = Check(pid, level)
    try:
        body(chk)
    except BaseException as e:  # noqa
        if isinstance(e, (KeyboardInterrupt, SystemExit)):
            raise
        chk.total.inconc(f'check body raised {type(e).__name__}: {e}\n' + traceback.format_exc()[-2000:])
    rc = chk.finish()
    sys.stdout.flush()
    return rc
