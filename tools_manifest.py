#!/usr/bin/env python3
"""Regenerates MANIFEST.json from the table below (keeps it valid at all times)."""
import json, os
HERE = os.path.dirname(os.path.abspath(__file__))
props = [json.loads(l) for l in open(os.path.join(HERE, 'properties.jsonl'))]

MC = 'model_checking'
TECH_A = 'symbolic execution of torchtree tensor code (SymTensor) + SMT (z3/cvc5, QF_UFNRA)'
CLAIMED = {
 'C01': dict(level=MC, ref='DESIGN.md §4 C01',
   text='The real pruning kernels and TreeLikelihoodModel._call are executed symbolically for every enumerated topology / model shape; "log-likelihood == brute-force sum over all ancestral-state x rate-category assignments" becomes a polynomial identity that the SMT solver decides for ALL values of matrices, frequencies, proportions, weights, tip vectors, branch lengths, heights, clock and site rates. Bounded by topology size / states / categories, hence model checking of the enumerated configuration space, not a proof.',
   note='Reals not floats (the 1e-9 tolerance is outside the claim); K2 uses an uninterpreted row-stochastic P(t) in place of substitution_model.p_t (real p_t is C04, site rates C05); n<=4 quick / n<=5 thorough; S<=4; K<=2; one 4-column IUPAC alignment per n; datatype tables run concretely.',
   technique=TECH_A + '; polynomial identity per site pattern, lemma chaining for the log assembly'),
 'C04': dict(level=MC, ref='DESIGN.md §4 C04',
   text='The real rate-matrix builders (HKY, GTR, GeneralSymmetric with several mappings, GeneralNonSymmetric, MG94 per genetic code, Empirical) run on symbolic kappa / rates / alpha / beta / frequencies on the simplex: the solver proves q() equals an independently constructed documented matrix, rows sum to 0, off-diagonals >= 0, detailed balance, stationarity and unit normalisation. The eigen path of p_t runs with eigh as a contract stub (S = V diag(e) V^T, V orthonormal, V^-1 = V^T): entry-wise obligations with lemma selection and lemma chaining establish that the matrix handed to eigh is symmetric, P_ij(t) = sum_k A_ik exp(e_k t) B_kj, AB = I and A diag(e) B = Q/norm. Closed forms (JC69, GeneralJC69 k<=5): P(0)=I, stochastic rows, semigroup law and P\'(0)=Q with exp uninterpreted + ground axioms. Non-reversible models: the argument of matrix_exp is Q/norm * t per branch.',
   note='Reals not floats; eigh / matrix_exp by contract (LAPACK accuracy outside the claim); the step from (AB=I, AEB=Q) resp. (P(0)=I, semigroup, P\'(0)=Q) to P = exp(Qt) is a trusted classical lemma; state count <= 4 for the eigen obligations (MG94 61x61 only for its rate matrix); LG/WAG concrete tables not a solver result; frequencies constrained to the simplex.',
   technique=TECH_A + '; functional contract stubs for eigh/inverse/matrix_exp, entry-wise lemma selection and chaining'),
 'C05': dict(level=MC, ref='DESIGN.md §4 C05',
   text='Constant / Invariant / Weibull(K) / Weibull(K)+invariant site models are built from JSON, their parameters replaced by symbols (shapes [] and [2]), and the real rates()/probabilities() code is executed symbolically. For every enumerated (model, K, mu, batch) configuration the solver proves for ALL shape > 0, pinv in [0,1), mu > 0: probabilities sum to one and are non-negative, rates are non-negative, the invariant class has rate literally 0 and probability pinv, and the probability-weighted mean rate equals mu (or 1) - also after every parameter has been updated (no stale cache).',
   note='Reals not floats; pow(q_k, 1/shape) uninterpreted (positive); double constants that are the nearest float of a small rational (1/K, quantiles) are read as that rational; K in 1..4 quick, 1..6,8,16 thorough.',
   technique=TECH_A + '; rational identities in uninterpreted pow atoms, division encoded through one shared inverse per denominator'),
 'C06': dict(level=MC, ref='DESIGN.md §4 C06',
   text='The real ratio / increment node-height transforms and time-tree models are executed on symbolic sampling times, ratios, root height and increments (shapes [] and [2]) for every enumerated rooted topology; orderings of the sampling times are path regions enumerated until the solver certifies coverage. Tip placement, parent>=child on every edge, branch length = parent-child, agreement with an independent recursion of the documented parameterisation, inv(forward(x))=x, forward(inv(y))=y and "device/dtype move keeps the parameterisation" are proved for all real parameter values per region.',
   note='Reals not floats; n<=4 quick (n<=5 thorough, sampled topologies at 5); sampling times injected after construction (date parsing runs concretely); cuda() exercised through cpu()/to(dtype); smooth-max (k>0) variant outside the claim.',
   technique=TECH_A + ' with solver-certified path-region coverage'),
 'C07': dict(level=MC, ref='DESIGN.md §4 C07',
   text='The forward map of every shipped bijective transform (ratio / increment node-height transforms on every enumerated topology with symbolic sampling times, CumSum, CumSumExp, SoftPlus, CumSumSoftPlus, Log, LogDifferenceRate, TrilExpDiagonal, and torch Exp/Sigmoid/Affine/StickBreaking) is traced on symbolic inputs and differentiated symbolically by the engine, independently of the hand-written log_abs_det_jacobian. The solver decides exp(reported) == |det J| (factor by factor with a sound assembly step, or monolithically), inv(f(x)) == x, and that TransformedParameter() / ReparameterizedTimeTreeModel() return that value for the current parameter before and after an update, for all points of the domain. Bounded in dimension / topology size.',
   note='Reals not floats; exp/log uninterpreted with ground axiom instances (softplus = log(1+exp)); dimension <= 3 for vector transforms, n <= 3 quick / 4 thorough for tree transforms; torch Sigmoid/StickBreaking: Jacobian clause only, numerical clamps treated as identity; TrilExpDiagonal inverse only (its Jacobian raises NotImplementedError); non-bijective ConvexCombination/Linear/RescaledRate outside the claim.',
   technique=TECH_A + '; Jacobian by symbolic differentiation of the traced forward map, exp-lifted determinant identity'),
 'C08': dict(level=MC, ref='DESIGN.md §4 C08',
   text='Bounded symbolic execution of the real coalescent log_prob code (SymTensor engine): every interleaving of sampling, coalescent and grid events is a path region; regions are enumerated with blocking clauses until the SMT solver certifies that they cover the whole input domain, and on every region "implementation == independent Kingman event-list oracle" is proved for all real heights / population sizes / growth rates / grid points. Bounded (n<=3 quick, n<=4 thorough), so model checking of the path-region space rather than a proof.',
   note='Reals not floats; log/exp uninterpreted with ground axiom instances; torch.distributions validation off (domain constraints instead); n and grid size bounded as stated in the evidence; soft (temperature) skygrid outside the claim.',
   technique='symbolic execution of torchtree tensor code (SymTensor) + SMT (z3/cvc5, QF_UFNRA) with solver-certified path-region coverage'),
}
CLAIMED['C10'] = dict(level=MC, ref='DESIGN.md §4 C10',
   text='Two-run relational symbolic execution: every listed callable model (coalescents, GMRF, CTMC scale, compound gamma-Dirichlet tree prior, Distribution wrapper, JointDistributionModel, tree likelihood with unrooted / strict / per-branch clock x constant / invariant / Weibull x JC69 / real HKY with a functional eigh stub) is built from JSON and evaluated with a subset of its parameters batched [2] (distinct symbols per sample) and, on freshly built copies, with each slice alone; equality per sample index is decided for all parameter values (identical expressions close syntactically, differences go to the solver and are replayed on plain tensors). A batched evaluation that raises is accepted; a solver vacuity guard shows the two samples can differ. Subsets: all / each-one-batched / each-one-unbatched (quick), every subset (thorough).',
   note='Sample shape [2] only ([S,K] outside); n = 3 taxa; site models and node-height transforms are covered batched in C05/C06, BDSK in C09; reals not floats.',
   technique=TECH_A + '; relational (batched vs per-slice) encoding with distinct symbols per sample')
CLAIMED['C11'] = dict(level=MC, ref='DESIGN.md §4 C11',
   text='Two composite model graphs built from JSON (tree likelihood with ratio-parameterised time tree, strict clock, HKY, Weibull+invariant site model, constant coalescent on an Exp-transformed parameter, a view parameter, a prior and a variational Distribution, joint; and a GMRF / skygrid / MG94 graph on a concatenated + transformed field) are driven through enumerated histories of update operations (direct assignment, assignment through view / concatenation / transformed parameter, in-place write + change notification, rsample of a Distribution, operator step + reject). Every assignment writes fresh symbols; after each operation every model value and derived tensor must be the same expression as that of a freshly built copy holding the same symbols. Identical hash-consed expressions close a goal syntactically; any difference is a solver query whose model is replayed on the real models (real HKY) before being reported; a solver vacuity guard per step shows the update can change an observed value. An exception during any update is a violation.',
   note='Histories of length <= 2 quick / 3 thorough (sampled triples); substitution_model.p_t is an uninterpreted function of (branch argument, kappa, frequencies); optimiser steps are modelled as in-place write + fire_parameter_changed (Optimizer._run itself is not executed); 3 taxa.',
   technique=TECH_A + '; enumerated update histories with fresh symbols per assignment, relational comparison with a fresh rebuild')
CLAIMED['C12'] = dict(level=MC, ref='DESIGN.md §4 C12',
   text='Every listed density (constant / exponential / skyride / skygrid / piecewise-linear coalescents, GMRF plain and time-aware, CTMC scale, compound gamma-Dirichlet prior, Distribution wrapper, joint, tree likelihood with JC69 x {unrooted, strict, per-branch clock} x {constant, invariant, Weibull}, and the same densities reached through the ratio / root-height and Exp transforms incl. the node-height log-Jacobian and the rescaled likelihood path) is executed symbolically; the gradient autograd delivers is obtained by reverse differentiation of the recorded DAG that stops exactly where autograd stops (detach, no_grad, .item()/torch.tensor rebuilds) and is compared by the solver with the true derivative (stops ignored) for all parameter values on every path region; each influencing parameter must admit a point with non-zero gradient (existential solver query). The engine\'s autograd model is cross-checked against real torch.autograd at every witness; replays use finite differences on the real model.',
   note='Reals not floats; torch\'s own derivative formulas trusted; ties between event times outside; derivative through eigendecompositions not modelled (likelihood gradients with JC69 only); BDSK gradients outside; the rescaled likelihood path has no coverage certificate (explored regions only); 3 taxa.',
   technique=TECH_A + '; autograd modelled by symbolic reverse differentiation with stop nodes, compared with the stop-free derivative')
CLAIMED['C16'] = dict(level=MC, ref='DESIGN.md §4 C16',
   text='The real LeapfrogIntegrator.__call__, Hamiltonian.kinetic_energy and HMCOperator._step/step/reject are executed with the target an UNINTERPRETED differentiable function: model() returns U(q), backward() is answered by symbolic reverse differentiation so the gradient and Hessian are uninterpreted function symbols. For symbolic positions, momenta, step size and SPD inverse mass matrix (diagonal and dense) the solver proves: flip-and-return gives (q,-p); det d(q\',p\')/d(q,p) = 1; the energy error and its first derivative in the step size vanish at 0 (so the error is O(eps^2)); the operator returns K(p_start)-K(p_end), proposes the trajectory end point, retries after a numerical failure and reject() restores the identical state. Bounded in dimension and number of steps (the loop body is the same for every step).',
   note='Reals not floats ("up to round-off" is outside the claim); dimension <= 2, steps <= 2 quick / 3 thorough, one or two parameters per operator; Hessian symmetry of the target assumed (ground instances); momentum draw is an arbitrary symbolic vector; isnan guards false on real inputs; replays use torch.autograd on a quartic target.',
   technique=TECH_A + '; uninterpreted differentiable target, autograd modelled by symbolic reverse differentiation, Jacobian determinant by Leibniz expansion')
CLAIMED['C20'] = dict(level=MC, ref='DESIGN.md §4 C20',
   text='GMRF._call is compared, as a symbolic expression, with the Gaussian quadratic form built from the matrix GMRF.precision_matrix() publishes (plain, weighted, time-aware with symbolic heights whose orderings are path regions, shapes [] and [2]); GMRFGammaIntegrated and ConstantCoalescentIntegrated (with SYMBOLIC shape / rate hyper-parameters, obtained by substituting a symbolic math module) are compared with the closed forms of the Gamma / inverse-gamma integrals; sufficient_statistics() of both piecewise-constant coalescents must reproduce log_prob on every event-ordering region (coverage certified by the solver). Known findings (weighted / time-aware precision matrix) are reported as KNOWN-FINDING.',
   note='Reals not floats; the Gamma integral identity is a trusted lemma (lgamma/log uninterpreted) - numerical quadrature only in replays (mpmath); field length <= 4 quick / 5 thorough, n = 3 taxa quick / 4 thorough, grid <= 1 quick / 2 thorough; GMRFCovariate outside the claim.',
   technique=TECH_A + ' with solver-certified path-region coverage; three separately written code paths compared as expressions')
CLAIMED['C17'] = dict(level='other', engine='crosshair', ref='DESIGN.md §4 C17',
   text='CrossHair (z3) symbolically executes the real state_dict/_state_dict/load_state_dict/_load_state_dict of MCMC, every MCMCOperator, HMCOperator, LeapfrogIntegrator, AdaptiveStepSize, DualAveragingStepSize, MassMatrixAdaptor, Optimizer (SGD+momentum, Adam, Adagrad, RMSprop with StepLR/LambdaLR/ExponentialLR/CosineAnnealingLR/MultiStepLR), plus TensorEncoder/TensorDecoder/ParameterEncoder/update_parameters, with SYMBOLIC counters, tuning values, flags, window contents and dtype/nn choices; the JSON text layer is a pure-Python model of the JSON data model validated against the real json module on every witness. Post-conditions: loading never raises and every state field equals its value before the round trip. Each case has a reachability twin; counterexamples are replayed through the real json module on the real classes.',
   note='torch tensors and torch.optim internals stay concrete (CrossHair realises at the C boundary; torch.optim.Optimizer.load_state_dict runs untraced); HMC/MCMC composite cases use a finite grid of symbolic floats, leaf cases the full float domain; "a resumed run visits the same trajectory" is whole-program behaviour outside the solver\'s reach and outside the claim (noted: _epoch is saved before being incremented); StanWindowedAdaptation cannot be instantiated; LBFGS internals outside.',
   technique='CrossHair symbolic execution (z3) of the real state_dict / load_state_dict pairs through a modelled JSON round trip; reachability twins; replay through the real json module')
CLAIMED['C18'] = dict(level='other', engine='crosshair', ref='DESIGN.md §4 C18',
   text='CrossHair (z3) symbolically executes the real save_parameters against a modelled file system with a SYMBOLIC pre-state (each of name/.old/.new absent, complete or truncated, constrained by a representation invariant that CrossHair itself shows inductive), a symbolic crash index and a symbolic number of lost buffered chunks; post-conditions: a complete checkpoint remains and name is never truncated. One inductive step from an arbitrary valid state covers any number of consecutive interrupted writes. Counterexamples are replayed on a real temporary directory (single step and whole crash chain from a clean directory) before being reported. Bounded by the chunk count of the modelled json.dump and the per-condition time budget, hence "other" (bounded symbolic execution), not proof.',
   note='File-system model (atomic rename, partial writes, buffered data lost on crash before close) validated against the real os/open on hundreds of concrete runs per check; json.dump modelled as K chunk writes; process crash, not power loss (no fsync modelling); first write into an empty directory outside the claim; safely=False / overwrite=True in-place modes are documented non-atomic and only checked for leaving siblings untouched.',
   technique='CrossHair symbolic execution (z3) of the real save_parameters over a modelled file system: symbolic pre-state, crash point and lost-buffer count; inductive invariant; concrete replay on a real directory')
CLAIMED['C13'] = dict(level='other', engine='crosshair', ref='DESIGN.md §4 C13',
   text='CrossHair (z3) symbolically executes the real process_object / process_objects / from_json_safe / remove_comments on specifications whose SHAPE is enumerated (34 shapes: inline, referenced, list, sibling, nested to depth 3, comment keys, ignored objects) and whose ids and reference strings are SYMBOLIC strings; for every feasible equality pattern among the strings the post-condition states what an independent reference semantics expects (same instance for all holders, update visible through every holder, JSONParseError for duplicate ids at any depth and for dangling / forward / self references, no effect of _-keys and ignored objects). Each obligation has a reachability twin; counterexamples are replayed on the real code (real dict registry and the torchtree main pipeline).',
   note='Ids are arbitrary unicode strings of length 1..2 (quick) / 1..3 (thorough) excluding the range-reference characters { } : (documented reference syntax; malformed ranges are recorded as notes, outside the id domain); tiny registered classes stand for the model classes, tensor payloads are concrete; under CrossHair the registry is an equivalent association list; json_factory equivalence is tensor-valued and outside this check.',
   technique='CrossHair symbolic execution (z3) of the real id-resolution code with symbolic id strings over enumerated specification shapes; reachability twins; concrete replay')
NA_TABLE = {}
NA_REASON = 'check not built yet in this round (planned in DESIGN.md §4); not claimed until its check exists'
checks = []
na = []
for p in props:
    pid = p['id']
    if pid in CLAIMED:
        c = CLAIMED[pid]
        checks.append({
          'property_id': pid,
          'quick_cmd': f'./check {pid} --tier quick',
          'thorough_cmd': f'./check {pid} --tier thorough',
          'evidence_file': f'/verif/evidence/{pid}.json',
          'replay_cmd_template': f'./check {pid} --replay {{path}}',
          'engine': c.get('engine', 'symtorch'),
          'level_claimed': {'category': c['level'], 'text': c['text'], 'design_ref': c['ref']},
          'level_note': c['note'],
          'technique': c['technique'],
        })
    else:
        na.append({'property_id': pid, 'reason': NA_TABLE.get(pid, NA_REASON)})
m = {
 'version': 1,
 'setup_cmd': './setup.sh',
 'hooks': {'guard': 'TORCHTREE_VERIF', 'enable': 'no source hooks: the engines intercept torch / run CrossHair on the unmodified sources; checks export TORCHTREE_VERIF=1 for uniformity',
           'baseline_off_cmd': 'cd /repo && /venv/bin/python -m pytest -ra -q -p no:cacheprovider --timeout=900 --continue-on-collection-errors',
           'source_commits': [], 'add_only': True},
 'engines': [
   {'name': 'symtorch', 'path': '/verif/symtorch', 'serves_properties': sorted(k for k,v in CLAIMED.items() if v.get('engine','symtorch')=='symtorch'),
    'kind_free_text': 'concolic symbolic execution of torch tensor programs (torch.Tensor subclass with expression-id shadow tensors) + SMT-LIB2 portfolio (z3 4.8.12, z3 5.1, cvc5 1.0.3)'},
   {'name': 'crosshair', 'path': '/verif/chk', 'serves_properties': sorted(k for k,v in CLAIMED.items() if v.get('engine')=='crosshair'),
    'kind_free_text': 'CrossHair 0.0.110 symbolic execution of the pure-Python protocol code with z3'},
 ],
 'checks': checks,
 'not_applicable': na,
 'notes': 'Technique family: solver-based checking of the real code. See DESIGN.md.',
}
json.dump(m, open(os.path.join(HERE, 'MANIFEST.json'), 'w'), indent=1)
print('claimed', [c['property_id'] for c in checks], 'n/a', len(na))
