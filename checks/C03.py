"""C03 Likelihood accuracy does not degrade with tree size (no silent underflow).

(a) algebra: the rescaled / safe / tip-state-rescaled kernels equal the plain kernel for all positive
    inputs (which entry is the per-node maximum is a path region; identity exp-lifted);
(b) history: the "plain result is infinite" test is replaced by an underflow oracle returning an arbitrary
    boolean; over every history of evaluations and parameter updates each returned value equals the
    reference, and the rescale flag never goes back to False;
(c) floating point: the DAG of the smallest plain-kernel instance is lowered to QF_FP (Float64 vs Float128):
    do normal inputs exist for which the plain path returns a finite value that is wrong by more than 2^-20?
    A sat answer is replayed through the public API on a JC69 caterpillar (size searched concretely).
"""
from __future__ import annotations

import os
import itertools
import math
import sys
import time

import torch

import C07
import common as cm
from symtorch import SymFloat, SymTensor, cur, from_ids, new_vars, tracing, HANDLERS
from symtorch.axioms import ground_axioms
from symtorch.explore import Explorer, Goal, triage
from symtorch.tensor import mkfloat
from vlib.core import main_for, pmap

PID = 'C03'
TOPO = ((0, 1), 2)
POST = [(3, 0, 1), (4, 3, 2)]


def sid(x):
    return int(x._ids.reshape(-1)[0])


# ------------------------------------------------------------------ (a) algebra
def algebra_inputs(S, K, N, tip_states):
    W = {}
    for nm, shape in (('P', (4, K, S, S)), ('pi', (1, S)), ('prop', (K, 1, 1))):
        for k, name in enumerate(cm.names_shaped(nm, shape)):
            W[name] = 0.15 + 0.7 * ((0.37 + 0.618 * (k + len(W))) % 1.0)
    if not tip_states:
        for i in range(3):
            for k, name in enumerate(cm.names_shaped(f'tip{i}', (S, N))):
                W[name] = 0.2 + 0.6 * ((0.11 + 0.618 * (k + 3 * i)) % 1.0)
    W['thr'] = 0.3
    return W


def algebra_body(kernel, S, K, N):
    from torchtree.evolution import tree_likelihood as tl

    tip_states = 'tip_states' in kernel
    plain = tl.calculate_treelikelihood_tip_states_discrete if tip_states else tl.calculate_treelikelihood_discrete

    def body(t, V, W):
        d = t.dag
        mats = cm.var_tensor_shaped(V, 'P', (4, K, S, S))
        freqs = cm.var_tensor_shaped(V, 'pi', (1, S))
        props = cm.var_tensor_shaped(V, 'prop', (K, 1, 1))
        weights = torch.ones(N, dtype=torch.float64)

        def tips():
            if tip_states:
                st = [[(i + 2 * s + 1) % (S + 1) for s in range(N)] for i in range(3)]
                return [torch.tensor(r) for r in st] + [None, None]
            return [cm.var_tensor_shaped(V, f'tip{i}', (S, N)) for i in range(3)] + [None, None]

        p1 = tips()
        ref = plain(p1, weights, POST, mats, freqs, props)
        if kernel == 'calculate_treelikelihood_discrete_safe':
            try:
                got = tl.calculate_treelikelihood_discrete_safe(p1, weights, POST, mats, freqs, props, mkfloat(V['thr']))
            except ValueError as e:
                if 'non-empty' in str(e):
                    # precondition of the safe kernel: it is only entered after an underflow, i.e. with at least one node
                    # below the threshold; regions without such a node are outside its contract
                    return []
                raise
        else:
            got = getattr(tl, kernel)(tips(), weights, POST, mats, freqs, props)
        lhs = C07.exp_of(d, sid(got))
        rhs = C07.exp_of(d, sid(ref))
        goal = d.eq(lhs, rhs)
        return [Goal(f'{kernel}: exp(rescaled log-likelihood) == exp(plain log-likelihood)', goal,
                     signature=f'{kernel}:differs-from-plain')]

    return body, [getattr(tl, kernel), plain]


def algebra_replay(kernel, S, K, N, vals):
    from torchtree.evolution import tree_likelihood as tl

    tip_states = 'tip_states' in kernel

    def get(prefix, shape):
        t = torch.empty(shape, dtype=torch.float64)
        for k, name in enumerate(cm.names_shaped(prefix, shape)):
            t.reshape(-1)[k] = abs(vals.get(name, 0.3)) + 1e-6
        return t

    mats, freqs, props = get('P', (4, K, S, S)), get('pi', (1, S)), get('prop', (K, 1, 1))
    if tip_states:
        mats[:3] = mats[:3] / mats[:3].sum(-1, keepdim=True)
    w = torch.ones(N, dtype=torch.float64)

    def tips():
        if tip_states:
            return [torch.tensor([(i + 2 * s + 1) % (S + 1) for s in range(N)]) for i in range(3)] + [None, None]
        return [get(f'tip{i}', (S, N)) for i in range(3)] + [None, None]

    plain = tl.calculate_treelikelihood_tip_states_discrete if tip_states else tl.calculate_treelikelihood_discrete
    p1 = tips()
    ref = float(plain(p1, w, POST, mats, freqs, props))
    try:
        if kernel.endswith('_safe'):
            got = float(tl.calculate_treelikelihood_discrete_safe(p1, w, POST, mats, freqs, props, abs(vals.get('thr', 1e-3))))
        else:
            got = float(getattr(tl, kernel)(tips(), w, POST, mats, freqs, props))
    except Exception as e:
        return True, f'{kernel} raised {type(e).__name__}: {e}'
    if abs(got - ref) > 1e-9 * max(1.0, abs(ref)):
        return True, f'{kernel} = {got} but the plain kernel gives {ref}'
    return False, 'agree'


def algebra_task(task, tr):
    _, kernel, S, K, N = task
    label = f'algebra {kernel} S={S} K={K} N={N}'
    body, fns = algebra_body(kernel, S, K, N)
    tr.fn(*fns)
    tip_states = 'tip_states' in kernel
    W = algebra_inputs(S, K, N, tip_states)

    def domain(d, V):
        cs = [d.lt(0, i) for i in V.values()]
        if tip_states:
            for c in range(3):
                for k in range(K):
                    for i in range(S):
                        rs = 0
                        for j in range(S):
                            rs = d.add(rs, V[f'P[{c},{k},{i},{j}]'])
                        cs.append(d.eq(rs, 1))
        return cs

    if tip_states:
        # witness must satisfy the row-stochastic hypothesis on tip branches
        for c in range(3):
            for k in range(K):
                for i in range(S):
                    # dyadic rationals: the row sums to exactly 1 in every summation order (plain float division does
                    # not for S = 4, and the engine checks the witness against the domain exactly)
                    tot = sum(W[f'P[{c},{k},{i},{j}]'] for j in range(S))
                    acc = 0.0
                    for j in range(S - 1):
                        W[f'P[{c},{k},{i},{j}]'] = round(W[f'P[{c},{k},{i},{j}]'] / tot * 2 ** 20) / 2 ** 20
                        acc += W[f'P[{c},{k},{i},{j}]']
                    W[f'P[{c},{k},{i},{S - 1}]'] = 1.0 - acc
    ex = Explorer(W, domain, body, tr, max_regions=60, timeout=40.0 * TSCALE, closure_timeout=20.0, label=label,
                  check_defined=False, deadline=time.time() + 600 * TSCALE, require_closure=False)
    out = ex.run()
    tr.bounds['algebra'] = '3 taxa, S in {2,4}, K<=2, N<=2, weights 1; regions = which entry is the per-node maximum'
    for s in out.region_samples[:1]:
        s['case'] = label
        tr.sample(s)
    triage(out, lambda vals: algebra_replay(kernel, S, K, N, vals), tr, label, {'kernel': kernel})


# ------------------------------------------------------------------ (b) histories with an underflow oracle
SEQS = {'t0': 'ab', 't1': 'ba', 't2': 'aa'}


def model_json(tip_states):
    taxa = cm.taxa_json(3)
    tree = cm.unrooted_tree_json(TOPO, 3)
    tree['taxa'] = taxa
    return {'id': 'like', 'type': 'TreeLikelihoodModel', 'tree_model': tree,
            'site_model': {'id': 'site', 'type': 'ConstantSiteModel'},
            'substitution_model': {'id': 'subst', 'type': 'GeneralJC69', 'state_count': 2},
            'site_pattern': {'id': 'sp', 'type': 'SitePattern',
                             'alignment': cm.alignment_json(SEQS, taxa='taxa',
                                                            datatype={'id': 'dt', 'type': 'GeneralDataType', 'codes': ['a', 'b']})},
            'use_tip_states': tip_states}


def var_p_t(branch_lengths):
    """transition matrices as fresh positive variables, functional in the symbolic branch argument"""
    import hashlib

    d = cur().dag
    ids = branch_lengths._ids
    out = []
    for b in ids.reshape(-1).tolist():
        h = hashlib.sha1(d.to_str(b, 8).encode()).hexdigest()[:8]
        rows = []
        for i in range(2):
            rows.append([d.var(f'P{i}{j}<{h}>', 0.05 + 0.2 * (((i * 2 + j) * 0.618 + d.vals[b]) % 1.0)) for j in range(2)])
        out.append(rows)
    return from_ids(torch.tensor(out, dtype=torch.int64).reshape(tuple(ids.shape) + (2, 2)))


def history_task(task, tr):
    from torchtree.evolution import tree_likelihood as tl

    _, oracle_bits, tip_states, batched = task
    label = f'history underflow-oracle={oracle_bits} tip_states={tip_states} batched={batched}'
    tr.fn(tl.TreeLikelihoodModel.calculate_with_tip_partials, tl.TreeLikelihoodModel.calculate_with_tip_states,
          tl.calculate_treelikelihood_discrete_safe)
    tr.stubs.add('torch.isinf(log_p) is an underflow oracle returning an arbitrary (enumerated) boolean per evaluation')
    import torchtree.evolution.tree_likelihood  # noqa

    nsteps = len(oracle_bits)
    B = 2 if batched else 1
    W = {}
    for s in range(nsteps):
        for b in range(B):
            for i in range(3):
                W[f'b{s}_{b}[{i}]'] = 0.05 + 0.11 * i + 0.07 * s + 0.03 * b
    W['thr'] = 0.5

    def body(t, V, Wt):
        d = t.dag
        like, dic = cm.build(model_json(tip_states))
        like.threshold = mkfloat(V['thr'])
        like.subst_model.p_t = var_p_t
        calls = []
        saved = HANDLERS['isinf']

        def oracle(func, args, kwargs):
            k = len(calls)
            calls.append(k)
            x = args[0]
            bit = oracle_bits[min(k, nsteps - 1)]
            if isinstance(bit, tuple):  # one verdict per sample: only some samples underflow
                out = torch.tensor([bool(b_) for b_ in bit]).reshape(-1, *([1] * (x._v.dim() - 1)))
                return out.expand(tuple(x._v.shape)).clone()
            return torch.full(tuple(x._v.shape), bool(bit))

        goals = []
        flags = []
        HANDLERS['isinf'] = oracle
        try:
            for s in range(nsteps):
                rows = [[V[f'b{s}_{b}[{i}]'] for i in range(3)] for b in range(B)]
                dic['tree.blens'].tensor = from_ids(torch.tensor(rows if batched else rows[0], dtype=torch.int64))
                try:
                    val = like()
                except ValueError as e:
                    if 'non-empty' in str(e):
                        return []  # oracle said "underflow" although no node is below the threshold: outside the kernel's contract
                    raise
                flags.append(bool(like.rescale))
                # reference: the plain kernel on a fresh model with the same symbols
                ref_model, rdic = cm.build(model_json(tip_states))
                ref_model.subst_model.p_t = var_p_t
                rdic['tree.blens'].tensor = from_ids(torch.tensor(rows if batched else rows[0], dtype=torch.int64))
                HANDLERS['isinf'] = lambda f, a, k: torch.zeros(tuple(a[0]._v.shape), dtype=torch.bool)
                ref = ref_model()
                HANDLERS['isinf'] = oracle
                for b in range(B):
                    gv = (val[b] if batched else val)
                    rv = (ref[b] if batched else ref)
                    g = d.eq(C07.exp_of(d, sid(gv)), C07.exp_of(d, sid(rv)))
                    goals.append(Goal(f'evaluation {s + 1} sample {b}: returned likelihood == reference (plain formula)', g,
                                      hyps=ground_axioms(d, [g], rounds=3), signature='TreeLikelihoodModel:history:value-differs'))
        finally:
            HANDLERS['isinf'] = saved
        # rescale is sticky: once switched on it stays on; it is switched on exactly by the first "infinite" verdict
        expect = []
        on = False
        for bit in oracle_bits:
            on = on or (any(bit) if isinstance(bit, tuple) else bool(bit))
            expect.append(on)
        goals.append(Goal('rescale flag: switched on by the first underflow verdict and never switched off',
                          d.bconst(flags == expect), signature='TreeLikelihoodModel:history:rescale-flag'))
        return goals

    def domain(d, V):
        return [d.lt(0, i) for i in V.values()]

    tr.stubs.add('history part: transition matrices are fresh positive variables, functional in the branch argument')
    ex = Explorer(W, domain, body, tr, max_regions=40, timeout=30.0 * TSCALE, closure_timeout=20.0, label=label,
                  check_defined=False, deadline=time.time() + 900 * TSCALE, require_closure=False)
    out = ex.run()
    tr.bounds['history'] = 'histories of <= 2 (quick) / 3 (thorough) evaluations with a parameter update before each, every oracle verdict sequence, shapes [] and [2]; 3 taxa, 2 states, 2 site patterns'
    for s in out.region_samples[:1]:
        s['case'] = label
        tr.sample(s)

    def rp(vals):
        return history_replay(oracle_bits, tip_states, batched, vals)

    triage(out, rp, tr, label, {'oracle': list(oracle_bits)})


def history_replay(oracle_bits, tip_states, batched, vals):
    like, dic = cm.build(model_json(tip_states))
    like.threshold = abs(vals.get('thr', 0.5))
    B = 2 if batched else 1
    real_isinf = torch.isinf
    k = [0]

    def fake(x):
        i = k[0]
        k[0] += 1
        bit = oracle_bits[min(i, len(oracle_bits) - 1)]
        if isinstance(bit, tuple):
            return torch.tensor([bool(b_) for b_ in bit]).reshape(-1, *([1] * (x.dim() - 1))).expand(tuple(x.shape)).clone()
        return torch.full(tuple(x.shape), bool(bit))

    on = False

    try:
        for s in range(len(oracle_bits)):
            rows = [[abs(vals.get(f'b{s}_{b}[{i}]', 0.1)) + 1e-4 for i in range(3)] for b in range(B)]
            dic['tree.blens'].tensor = torch.tensor(rows if batched else rows[0], dtype=torch.float64)
            torch.isinf = fake
            try:
                val = like()
            finally:
                torch.isinf = real_isinf
            ref_model, rdic = cm.build(model_json(tip_states))
            rdic['tree.blens'].tensor = torch.tensor(rows if batched else rows[0], dtype=torch.float64)
            ref = ref_model()
            if val.shape != ref.shape or not torch.allclose(val, ref, rtol=1e-9, atol=1e-12):
                return True, f'evaluation {s + 1}: returned {val.tolist()} but the reference is {ref.tolist()}'
            bit = oracle_bits[s]
            on = on or (any(bit) if isinstance(bit, tuple) else bool(bit))
            if bool(like.rescale) != on:
                return True, (f'evaluation {s + 1}: underflow verdicts so far {list(oracle_bits[:s + 1])} but the rescale flag is '
                              f'{like.rescale} (an underflow in any sample must switch rescaling on, and it must stay on)')
    except Exception as e:
        return True, f'raised {type(e).__name__}: {e}'
    return False, 'agree'


# ------------------------------------------------------------------ (c) floating point
def fp_task(task, tr):
    from symtorch import fp, smt
    from torchtree.evolution import tree_likelihood as tl

    _, symbolic_pi, timeout = task
    label = f'floating point: plain kernel, 2 tips, 1 state, pi symbolic={symbolic_pi}'
    tr.fn(tl.calculate_treelikelihood_discrete)
    with tracing() as t:
        d = t.dag
        mats = new_vars('P', torch.full((3, 1, 1, 1), 0.5, dtype=torch.float64))
        freqs = new_vars('pi', torch.ones(1, 1, dtype=torch.float64)) if symbolic_pi else torch.ones(1, 1, dtype=torch.float64)
        props = torch.ones(1, 1, 1, dtype=torch.float64)
        partials = [torch.ones(1, 1, dtype=torch.float64), torch.ones(1, 1, dtype=torch.float64), None]
        val = tl.calculate_treelikelihood_discrete(partials, torch.ones(1, dtype=torch.float64), [(2, 0, 1)], mats, freqs, props)
        vid = sid(val)
        if d.ops[vid] != 'uf' or d.args[vid][0] != 'log':
            tr.inconc(f'{label}: kernel value is not log(site likelihood)')
            return
        L = d.args[vid][1]
        text, names = fp.inaccuracy_query(d, L, rel_bits=20)
        tr.obligation(text)
        tr.regions += 1
        tr.witness_runs += 1
        tr.sample({'case': label, 'site_likelihood': d.to_str(L, 5), 'query': 'exists normal inputs in (0,1]: fl64(L) != 0 and |fl64(L) - L| > 2^-20 L'})
    t0 = time.time()
    r = smt.solve_text(text, timeout=timeout, solvers=('z3', 'z3new'), parallel=True)
    tr.notes.append(f'{label}: QF_FP query {r.status} in {time.time() - t0:.0f}s ({r.solver})')
    if r.status == 'unknown':
        tr.notes.append(f'{label}: QF_FP query undecided within {timeout}s - clause (c) not decided in this run')
        return
    if r.status == 'unsat':
        return
    # sat: witness at kernel level
    import re

    vals = {}
    for m in re.finditer(r'\((\S+) (\(fp [^)]*\))\)', r.raw if len(r.raw) > 400 else ''):
        pass
    # confirm through the public API on a JC69 caterpillar (size searched concretely; confirmation, not the deciding step)
    ok, detail, n = api_confirmation()
    if ok:
        tr.violation('TreeLikelihoodModel:plain-path:subnormal-band-inaccurate',
                     f'the plain (non-rescaled) path returns a finite but inaccurate log-likelihood when a site likelihood falls in the '
                     f'subnormal band; QF_FP witness exists at kernel level; public API: {detail}', {'taxa': n, 'detail': detail})
    else:
        tr.inconc(f'{label}: QF_FP sat but not reproduced through the public API ({detail})')


def api_confirmation(sizes=(524, 527, 530, 533, 536)):
    import threading

    sys.setrecursionlimit(1000000)
    res = {}

    def work():
        import torchtree.evolution.tree_likelihood  # noqa

        def model(n, bl):
            names = [f't{i}' for i in range(n)]
            nw = '(' + names[0] + ',' + names[1] + ')'
            for k in range(2, n):
                nw = '(' + nw + ',' + names[k] + ')'
            tree = {'id': 'tree', 'type': 'UnRootedTreeModel', 'newick': nw + ';',
                    'branch_lengths': {'id': 'tree.blens', 'type': 'Parameter', 'tensor': [bl] * (2 * n - 3)}, 'taxa': cm.taxa_json(n)}
            like = {'id': 'like', 'type': 'TreeLikelihoodModel', 'tree_model': tree, 'site_model': {'id': 's', 'type': 'ConstantSiteModel'},
                    'substitution_model': {'id': 'm', 'type': 'JC69'},
                    'site_pattern': {'id': 'sp', 'type': 'SitePattern',
                                     'alignment': cm.alignment_json({f't{i}': 'A' for i in range(n)}, taxa='taxa')}}
            l, dic = cm.build(like)
            dic['tree.blens'].tensor = dic['tree.blens'].tensor.to(torch.float64)
            return l

        best = (0.0, None)
        for n in sizes:
            l = model(n, 2.0)
            v = float(l())
            switched = l.rescale
            l2 = model(n, 2.0)
            l2.rescale = True
            ref = float(l2())  # rescaled evaluation = extended-range reference (validated against the plain path where both are exact)
            err = abs(v - ref) / abs(ref)
            if not switched and math.isfinite(v) and err > best[0]:
                best = (err, (n, v, ref))
        res['best'] = best

    old = threading.stack_size(512 * 1024 * 1024)
    th = threading.Thread(target=work)
    th.start()
    th.join()
    threading.stack_size(old)
    err, info = res.get('best', (0.0, None))
    if info and err > 1e-8:
        n, v, ref = info
        return True, (f'JC69 caterpillar with {n} taxa (constant site, branch length 2): plain path returns {v!r} without switching to '
                      f'rescaling, reference {ref!r}, relative error {err:.2e} > 1e-8'), n
    return False, f'largest relative error found {err:.2e}', None


def fpscalers_task(task, tr):
    """floating point, rescaled path: with the per-node scalers as free normal floats in (0,1], no argument of a log
    that depends on the scalers alone may underflow (the accumulated scalers must enter as a sum of logs, never as the
    log of a product)"""
    from symtorch import fp, smt
    from symtorch.tensor import wrap
    from torchtree.evolution import tree_likelihood as tl

    _, kernel = task
    label = f'floating point: {kernel}, scalers as free normal floats'
    tr.fn(getattr(tl, kernel))
    S, K, N = 2, 1, 1
    tip_states = 'tip_states' in kernel
    saved = HANDLERS['max']
    with tracing() as t:
        d = t.dag
        count = [0]

        def stub_max(func, args, kwargs):
            x = args[0]
            if len(args) > 1 or kwargs:
                res = saved(func, args, kwargs)
                vals_, idx = res
                k = count[0]
                count[0] += 1
                fresh = new_vars(f'scaler{k}', vals_._v.clone())
                return torch.return_types.max((fresh, idx))
            return saved(func, args, kwargs)

        HANDLERS['max'] = stub_max
        try:
            mats = new_vars('P', torch.full((4, K, S, S), 0.4, dtype=torch.float64))
            freqs = new_vars('pi', torch.full((1, S), 0.5, dtype=torch.float64))
            props = torch.ones(K, 1, 1, dtype=torch.float64)
            if tip_states:
                tips = [torch.tensor([i % S]) for i in range(3)] + [None, None]
            else:
                tips = [new_vars(f'tip{i}', torch.full((S, N), 0.6, dtype=torch.float64)) for i in range(3)] + [None, None]
            t.check_values = False  # the stubbed maxima are free symbols
            val = getattr(tl, kernel)(tips, torch.ones(N, dtype=torch.float64), POST, mats, freqs, props)
        finally:
            HANDLERS['max'] = saved
        vid = sid(val)
        scal = {n for n in d.topo([vid]) if d.ops[n] == 'var' and d.args[n][0].startswith('scaler')}
        logs = [n for n in d.topo([vid]) if d.ops[n] == 'uf' and d.args[n][0] == 'log']
        only = [n for n in logs if set(i for i in d.topo([d.args[n][1]]) if d.ops[i] == 'var') <= scal
                and any(d.ops[i] == 'var' for i in d.topo([d.args[n][1]]))]
        tr.regions += 1
        tr.witness_runs += 1
        if not only:
            tr.inconc(f'{label}: no log of the scalers found in the rescaled value')
            return
        for n in only:
            arg = d.args[n][1]
            try:
                lines, root, names = fp.lower(d, arg, 'F64')
            except Exception as e:
                tr.inconc(f'{label}: cannot lower {d.to_str(arg, 4)} to floating point: {e}')
                return
            text = ['(set-logic QF_FP)']
            seen = set()
            for _, v in names:
                if v not in seen:
                    seen.add(v)
                    text.append(f'(declare-const {v} (_ FloatingPoint 11 53))')
                    text.append(f'(assert (and (fp.isNormal {v}) (fp.isPositive {v}) (fp.leq {v} ((_ to_fp 11 53) RNE 1.0))))')
            text += lines
            text.append(f'(assert (or (fp.isZero {root}) (fp.isSubnormal {root})))')
            text.append('(check-sat)')
            q = '\n'.join(text) + '\n'
            tr.obligation(q)
            r = smt.solve_text(q, timeout=120, solvers=('z3', 'z3new'), parallel=True)
            tr.sample({'case': label, 'log_argument': d.to_str(arg, 4), 'query': 'normal scalers in (0,1] => argument neither zero nor subnormal',
                       'result': r.status})
            if r.status == 'sat':
                ok, detail = rescaled_api_confirmation(tip_states)
                if ok:
                    tr.violation(f'{kernel}:scalers-accumulated-as-a-product',
                                 f'{label}: the argument {d.to_str(arg, 4)} of a log underflows for normal scalers; public API: {detail}',
                                 {'kernel': kernel})
                else:
                    tr.inconc(f'{label}: QF_FP sat for {d.to_str(arg, 4)} but not reproduced through the public API ({detail})')
            elif r.status != 'unsat':
                tr.inconc(f'{label}: QF_FP query undecided')


def rescaled_api_confirmation(tip_states, n=700):
    """a tree large enough that the product of all scalers underflows: the rescaled path evaluated twice (second time
    after a parameter update) must stay finite and agree with a log-space reference"""
    import threading

    sys.setrecursionlimit(1000000)
    res = {}

    def work():
        import torchtree.evolution.tree_likelihood  # noqa

        names = [f't{i}' for i in range(n)]
        nw = '(' + names[0] + ',' + names[1] + ')'
        for k in range(2, n):
            nw = '(' + nw + ',' + names[k] + ')'
        tree = {'id': 'tree', 'type': 'UnRootedTreeModel', 'newick': nw + ';',
                'branch_lengths': {'id': 'tree.blens', 'type': 'Parameter', 'tensor': [2.0] * (2 * n - 3)}, 'taxa': cm.taxa_json(n)}
        like = {'id': 'like', 'type': 'TreeLikelihoodModel', 'tree_model': tree, 'site_model': {'id': 's', 'type': 'ConstantSiteModel'},
                'substitution_model': {'id': 'm', 'type': 'JC69'}, 'use_tip_states': tip_states,
                'site_pattern': {'id': 'sp', 'type': 'SitePattern', 'alignment': cm.alignment_json({f't{i}': 'A' for i in range(n)}, taxa='taxa')}}
        l, dic = cm.build(like)
        dic['tree.blens'].tensor = dic['tree.blens'].tensor.to(torch.float64)
        v1 = float(l())
        dic['tree.blens'].tensor = dic['tree.blens'].tensor * 1.0001
        v2 = float(l())
        # reference: per-taxon increment is constant far from the ends, so v/n is stable: compare with a smaller tree scaled
        res['v'] = (v1, v2, l.rescale)

    old = threading.stack_size(512 * 1024 * 1024)
    th = threading.Thread(target=work)
    th.start()
    th.join()
    threading.stack_size(old)
    v1, v2, resc = res.get('v', (0.0, 0.0, False))
    if not (math.isfinite(v1) and math.isfinite(v2)) or abs(v2 - v1) > 1e-2 * abs(v1):
        return True, f'JC69 caterpillar with {n} taxa: first evaluation {v1}, evaluation after a 0.01% branch-length change {v2} (rescale={resc})'
    return False, f'evaluations {v1}, {v2} finite and consistent'


def run_task(task, tr):
    {'algebra': algebra_task, 'history': history_task, 'fp': fp_task, 'fpscalers': fpscalers_task}[task[0]](task, tr)


# the thorough tier keeps ~35 tasks x 3 solver processes busy on 16 cores: wall-clock solver budgets are scaled so
# that contention does not turn decidable goals into 'unknown'
TSCALE = 4.0 if os.environ.get('VERIF_TIER') == 'thorough' else 1.0


def tasks_for(tier):
    ts = []
    ks = ['calculate_treelikelihood_discrete_rescaled', 'calculate_treelikelihood_discrete_safe',
          'calculate_treelikelihood_tip_states_discrete_rescaled']
    for k in ks:
        ts.append(('algebra', k, 2, 1, 1))
    if tier == 'thorough':
        for k in ks:
            ts.append(('algebra', k, 2, 2, 2))
            ts.append(('algebra', k, 4, 1, 1))
    L = 2 if tier == 'quick' else 3
    for bits in itertools.product((0, 1), repeat=L):
        ts.append(('history', bits, False, False))
        if tier == 'thorough' or bits in ((0, 1), (1, 1)):
            ts.append(('history', bits, True, False))
        if tier == 'thorough' or bits in ((1, 0), (1, 1)):
            ts.append(('history', bits, False, True))
    # batched histories in which only ONE of the two samples underflows
    ts.append(('history', ((True, False), (False, False)), False, True))
    ts.append(('history', ((False, True), (True, True)), True, True))
    ts.append(('fp', False, 300))
    ts.append(('fpscalers', 'calculate_treelikelihood_discrete_rescaled'))
    ts.append(('fpscalers', 'calculate_treelikelihood_tip_states_discrete_rescaled'))
    if tier == 'thorough':
        ts.append(('fp', True, 1200))
    return ts


def body(chk):
    chk.explanation = ('(a)+(b): symbolic execution of the real rescaling kernels and of the switch logic with the infinity test '
                       'replaced by an enumerated underflow oracle; per-node maxima and threshold comparisons are path regions; '
                       'exp-lifted identities decided over the reals. (c): the plain kernel\'s DAG lowered to QF_FP (Float64 vs '
                       'Float128) asks for normal inputs giving a finite but inaccurate value; sat answers are confirmed through the '
                       'public API')
    chk.total.assumptions |= {'(a),(b) over the reals: they show the rescaled formulas are algebraically the plain formula; the accuracy to '
                              '1e-8 for large trees is a floating-point statement addressed only by (c)',
                              'the rescaled path is used as extended-range reference in the API confirmation of (c)',
                              '(a),(b): no coverage certificate is required for the per-node-maximum regions (explored regions only when the closure query is undecided)'}
    pmap(run_task, tasks_for(chk.tier), chk.total)


if __name__ == '__main__':
    if '--replay' in sys.argv:
        ok, detail, n = api_confirmation()
        print(('REPRODUCED ' if ok else 'NOT REPRODUCED ') + detail)
        sys.exit(1 if ok else 0)
    sys.exit(main_for(PID, body))
