"""C03 Likelihood accuracy does not degrade with tree size (no silent underflow).

(a) algebra: the rescaled / safe / tip-state-rescaled kernels equal the plain kernel for all positive
    inputs (which entry is the per-node maximum is a path region; identity exp-lifted);
(b) history: the "plain result is infinite" test is replaced by an underflow oracle returning an arbitrary
    boolean; over every history of evaluations and parameter updates each returned value equals the
    reference, and the rescale flag never goes back to False;
(c) floating point: the DAG of the smallest plain-kernel instance is lowered to QF_FP (Float64 vs Float128):
    do normal inputs exist for which the plain path returns a finite value that is wrong by more than 2^-20?
    A sat answer is replayed through the public API on a JC69 caterpillar (size searched concretely).
(d) floating point, switching evaluation: TreeLikelihoodModel.calculate_with_tip_partials is executed symbolically with the
    model's OWN threshold on trees of <= 4 leaves whose leaves stand for sub-trees of any size (free doubles satisfying the
    invariant of the recursion: every site has an entry >= threshold).  Per path region (which nodes the safe kernel
    recomputes; coverage certified) the solver decides, in a sound log2-magnitude abstraction of Float64 (QF_LRA), that no
    per-site scaler and no log argument can fall below 2^-969 (un-rescaled partials kept by the threshold test cannot
    underflow when they are multiplied), that a -inf plain result always makes the kernel rescale some node, and that every
    node satisfies the invariant again (induction over the tree).  The same for evaluations after the switch.
    Counterexamples are replayed on the real code with plain tensors against an exact rational reference, then confirmed
    through the public API on a balanced JC69 tree with 1024 taxa.
"""
from __future__ import annotations

import os
import itertools
import math
import sys
import time

import torch

import C07
import common as cm
from symtorch import SymFloat, SymTensor, cur, from_ids, new_vars, tracing, HANDLERS
from symtorch.axioms import ground_axioms
from symtorch.explore import Explorer, Goal, triage
from symtorch.tensor import mkfloat
from vlib.core import main_for, pmap

PID = 'C03'
TOPO = ((0, 1), 2)
POST = [(3, 0, 1), (4, 3, 2)]


def sid(x):
    return int(x._ids.reshape(-1)[0])


# ------------------------------------------------------------------ (a) algebra
def algebra_inputs(S, K, N, tip_states):
    W = {}
    for nm, shape in (('P', (4, K, S, S)), ('pi', (1, S)), ('prop', (K, 1, 1))):
        for k, name in enumerate(cm.names_shaped(nm, shape)):
            W[name] = 0.15 + 0.7 * ((0.37 + 0.618 * (k + len(W))) % 1.0)
    if not tip_states:
        for i in range(3):
            for k, name in enumerate(cm.names_shaped(f'tip{i}', (S, N))):
                W[name] = 0.2 + 0.6 * ((0.11 + 0.618 * (k + 3 * i)) % 1.0)
    W['thr'] = 0.3
    return W


def algebra_body(kernel, S, K, N):
    from torchtree.evolution import tree_likelihood as tl

    tip_states = 'tip_states' in kernel
    plain = tl.calculate_treelikelihood_tip_states_discrete if tip_states else tl.calculate_treelikelihood_discrete

    def body(t, V, W):
        d = t.dag
        mats = cm.var_tensor_shaped(V, 'P', (4, K, S, S))
        freqs = cm.var_tensor_shaped(V, 'pi', (1, S))
        props = cm.var_tensor_shaped(V, 'prop', (K, 1, 1))
        weights = torch.ones(N, dtype=torch.float64)

        def tips():
            if tip_states:
                st = [[(i + 2 * s + 1) % (S + 1) for s in range(N)] for i in range(3)]
                return [torch.tensor(r) for r in st] + [None, None]
            return [cm.var_tensor_shaped(V, f'tip{i}', (S, N)) for i in range(3)] + [None, None]

        p1 = tips()
        ref = plain(p1, weights, POST, mats, freqs, props)
        if kernel == 'calculate_treelikelihood_discrete_safe':
            try:
                got = tl.calculate_treelikelihood_discrete_safe(p1, weights, POST, mats, freqs, props, mkfloat(V['thr']))
            except ValueError as e:
                if 'non-empty' in str(e):
                    # precondition of the safe kernel: it is only entered after an underflow, i.e. with at least one node
                    # below the threshold; regions without such a node are outside its contract
                    return []
                raise
        else:
            got = getattr(tl, kernel)(tips(), weights, POST, mats, freqs, props)
        lhs = C07.exp_of(d, sid(got))
        rhs = C07.exp_of(d, sid(ref))
        goal = d.eq(lhs, rhs)
        return [Goal(f'{kernel}: exp(rescaled log-likelihood) == exp(plain log-likelihood)', goal,
                     signature=f'{kernel}:differs-from-plain')]

    return body, [getattr(tl, kernel), plain]


def algebra_replay(kernel, S, K, N, vals):
    from torchtree.evolution import tree_likelihood as tl

    tip_states = 'tip_states' in kernel

    def get(prefix, shape):
        t = torch.empty(shape, dtype=torch.float64)
        for k, name in enumerate(cm.names_shaped(prefix, shape)):
            t.reshape(-1)[k] = abs(vals.get(name, 0.3)) + 1e-6
        return t

    mats, freqs, props = get('P', (4, K, S, S)), get('pi', (1, S)), get('prop', (K, 1, 1))
    if tip_states:
        mats[:3] = mats[:3] / mats[:3].sum(-1, keepdim=True)
    w = torch.ones(N, dtype=torch.float64)

    def tips():
        if tip_states:
            return [torch.tensor([(i + 2 * s + 1) % (S + 1) for s in range(N)]) for i in range(3)] + [None, None]
        return [get(f'tip{i}', (S, N)) for i in range(3)] + [None, None]

    plain = tl.calculate_treelikelihood_tip_states_discrete if tip_states else tl.calculate_treelikelihood_discrete
    p1 = tips()
    ref = float(plain(p1, w, POST, mats, freqs, props))
    try:
        if kernel.endswith('_safe'):
            got = float(tl.calculate_treelikelihood_discrete_safe(p1, w, POST, mats, freqs, props, abs(vals.get('thr', 1e-3))))
        else:
            got = float(getattr(tl, kernel)(tips(), w, POST, mats, freqs, props))
    except Exception as e:
        return True, f'{kernel} raised {type(e).__name__}: {e}'
    if abs(got - ref) > 1e-9 * max(1.0, abs(ref)):
        return True, f'{kernel} = {got} but the plain kernel gives {ref}'
    return False, 'agree'


def algebra_task(task, tr):
    _, kernel, S, K, N = task
    label = f'algebra {kernel} S={S} K={K} N={N}'
    body, fns = algebra_body(kernel, S, K, N)
    tr.fn(*fns)
    tip_states = 'tip_states' in kernel
    W = algebra_inputs(S, K, N, tip_states)

    def domain(d, V):
        cs = [d.lt(0, i) for i in V.values()]
        if tip_states:
            for c in range(3):
                for k in range(K):
                    for i in range(S):
                        rs = 0
                        for j in range(S):
                            rs = d.add(rs, V[f'P[{c},{k},{i},{j}]'])
                        cs.append(d.eq(rs, 1))
        return cs

    if tip_states:
        # witness must satisfy the row-stochastic hypothesis on tip branches
        for c in range(3):
            for k in range(K):
                for i in range(S):
                    # dyadic rationals: the row sums to exactly 1 in every summation order (plain float division does
                    # not for S = 4, and the engine checks the witness against the domain exactly)
                    tot = sum(W[f'P[{c},{k},{i},{j}]'] for j in range(S))
                    acc = 0.0
                    for j in range(S - 1):
                        W[f'P[{c},{k},{i},{j}]'] = round(W[f'P[{c},{k},{i},{j}]'] / tot * 2 ** 20) / 2 ** 20
                        acc += W[f'P[{c},{k},{i},{j}]']
                    W[f'P[{c},{k},{i},{S - 1}]'] = 1.0 - acc
    ex = Explorer(W, domain, body, tr, max_regions=60, timeout=40.0 * TSCALE, closure_timeout=20.0, label=label,
                  check_defined=False, deadline=time.time() + 600 * TSCALE, require_closure=False)
    out = ex.run()
    tr.bounds['algebra'] = '3 taxa, S in {2,4}, K<=2, N<=2, weights 1; regions = which entry is the per-node maximum'
    for s in out.region_samples[:1]:
        s['case'] = label
        tr.sample(s)
    triage(out, lambda vals: algebra_replay(kernel, S, K, N, vals), tr, label, {'kernel': kernel})


# ------------------------------------------------------------------ (b) histories with an underflow oracle
SEQS = {'t0': 'ab', 't1': 'ba', 't2': 'aa'}


def model_json(tip_states):
    taxa = cm.taxa_json(3)
    tree = cm.unrooted_tree_json(TOPO, 3)
    tree['taxa'] = taxa
    return {'id': 'like', 'type': 'TreeLikelihoodModel', 'tree_model': tree,
            'site_model': {'id': 'site', 'type': 'ConstantSiteModel'},
            'substitution_model': {'id': 'subst', 'type': 'GeneralJC69', 'state_count': 2},
            'site_pattern': {'id': 'sp', 'type': 'SitePattern',
                             'alignment': cm.alignment_json(SEQS, taxa='taxa',
                                                            datatype={'id': 'dt', 'type': 'GeneralDataType', 'codes': ['a', 'b']})},
            'use_tip_states': tip_states}


def var_p_t(branch_lengths):
    """transition matrices as fresh positive variables, functional in the symbolic branch argument"""
    import hashlib

    d = cur().dag
    ids = branch_lengths._ids
    out = []
    for b in ids.reshape(-1).tolist():
        h = hashlib.sha1(d.to_str(b, 8).encode()).hexdigest()[:8]
        rows = []
        for i in range(2):
            rows.append([d.var(f'P{i}{j}<{h}>', 0.05 + 0.2 * (((i * 2 + j) * 0.618 + d.vals[b]) % 1.0)) for j in range(2)])
        out.append(rows)
    return from_ids(torch.tensor(out, dtype=torch.int64).reshape(tuple(ids.shape) + (2, 2)))


def history_task(task, tr):
    from torchtree.evolution import tree_likelihood as tl

    _, oracle_bits, tip_states, batched = task
    label = f'history underflow-oracle={oracle_bits} tip_states={tip_states} batched={batched}'
    tr.fn(tl.TreeLikelihoodModel.calculate_with_tip_partials, tl.TreeLikelihoodModel.calculate_with_tip_states,
          tl.calculate_treelikelihood_discrete_safe)
    tr.stubs.add('torch.isinf(log_p) is an underflow oracle returning an arbitrary (enumerated) boolean per evaluation')
    import torchtree.evolution.tree_likelihood  # noqa

    nsteps = len(oracle_bits)
    B = 2 if batched else 1
    W = {}
    for s in range(nsteps):
        for b in range(B):
            for i in range(3):
                W[f'b{s}_{b}[{i}]'] = 0.05 + 0.11 * i + 0.07 * s + 0.03 * b
    W['thr'] = 0.5

    def body(t, V, Wt):
        d = t.dag
        like, dic = cm.build(model_json(tip_states))
        like.threshold = mkfloat(V['thr'])
        like.subst_model.p_t = var_p_t
        calls = []
        saved = HANDLERS['isinf']

        def oracle(func, args, kwargs):
            k = len(calls)
            calls.append(k)
            x = args[0]
            bit = oracle_bits[min(k, nsteps - 1)]
            if isinstance(bit, tuple):  # one verdict per sample: only some samples underflow
                out = torch.tensor([bool(b_) for b_ in bit]).reshape(-1, *([1] * (x._v.dim() - 1)))
                return out.expand(tuple(x._v.shape)).clone()
            return torch.full(tuple(x._v.shape), bool(bit))

        goals = []
        flags = []
        HANDLERS['isinf'] = oracle
        try:
            for s in range(nsteps):
                rows = [[V[f'b{s}_{b}[{i}]'] for i in range(3)] for b in range(B)]
                dic['tree.blens'].tensor = from_ids(torch.tensor(rows if batched else rows[0], dtype=torch.int64))
                try:
                    val = like()
                except ValueError as e:
                    if 'non-empty' in str(e):
                        return []  # oracle said "underflow" although no node is below the threshold: outside the kernel's contract
                    raise
                flags.append(bool(like.rescale))
                # reference: the plain kernel on a fresh model with the same symbols
                ref_model, rdic = cm.build(model_json(tip_states))
                ref_model.subst_model.p_t = var_p_t
                rdic['tree.blens'].tensor = from_ids(torch.tensor(rows if batched else rows[0], dtype=torch.int64))
                HANDLERS['isinf'] = lambda f, a, k: torch.zeros(tuple(a[0]._v.shape), dtype=torch.bool)
                ref = ref_model()
                HANDLERS['isinf'] = oracle
                for b in range(B):
                    gv = (val[b] if batched else val)
                    rv = (ref[b] if batched else ref)
                    g = d.eq(C07.exp_of(d, sid(gv)), C07.exp_of(d, sid(rv)))
                    goals.append(Goal(f'evaluation {s + 1} sample {b}: returned likelihood == reference (plain formula)', g,
                                      hyps=ground_axioms(d, [g], rounds=3), signature='TreeLikelihoodModel:history:value-differs'))
        finally:
            HANDLERS['isinf'] = saved
        # rescale is sticky: once switched on it stays on; it is switched on exactly by the first "infinite" verdict
        expect = []
        on = False
        for bit in oracle_bits:
            on = on or (any(bit) if isinstance(bit, tuple) else bool(bit))
            expect.append(on)
        goals.append(Goal('rescale flag: switched on by the first underflow verdict and never switched off',
                          d.bconst(flags == expect), signature='TreeLikelihoodModel:history:rescale-flag'))
        return goals

    def domain(d, V):
        return [d.lt(0, i) for i in V.values()]

    tr.stubs.add('history part: transition matrices are fresh positive variables, functional in the branch argument')
    ex = Explorer(W, domain, body, tr, max_regions=40, timeout=30.0 * TSCALE, closure_timeout=20.0, label=label,
                  check_defined=False, deadline=time.time() + 900 * TSCALE, require_closure=False)
    out = ex.run()
    tr.bounds['history'] = 'histories of <= 2 (quick) / 3 (thorough) evaluations with a parameter update before each, every oracle verdict sequence, shapes [] and [2]; 3 taxa, 2 states, 2 site patterns'
    for s in out.region_samples[:1]:
        s['case'] = label
        tr.sample(s)

    def rp(vals):
        return history_replay(oracle_bits, tip_states, batched, vals)

    triage(out, rp, tr, label, {'oracle': list(oracle_bits)})


def history_replay(oracle_bits, tip_states, batched, vals):
    like, dic = cm.build(model_json(tip_states))
    like.threshold = abs(vals.get('thr', 0.5))
    B = 2 if batched else 1
    real_isinf = torch.isinf
    k = [0]

    def fake(x):
        i = k[0]
        k[0] += 1
        bit = oracle_bits[min(i, len(oracle_bits) - 1)]
        if isinstance(bit, tuple):
            return torch.tensor([bool(b_) for b_ in bit]).reshape(-1, *([1] * (x.dim() - 1))).expand(tuple(x.shape)).clone()
        return torch.full(tuple(x.shape), bool(bit))

    on = False

    try:
        for s in range(len(oracle_bits)):
            rows = [[abs(vals.get(f'b{s}_{b}[{i}]', 0.1)) + 1e-4 for i in range(3)] for b in range(B)]
            dic['tree.blens'].tensor = torch.tensor(rows if batched else rows[0], dtype=torch.float64)
            torch.isinf = fake
            try:
                val = like()
            finally:
                torch.isinf = real_isinf
            ref_model, rdic = cm.build(model_json(tip_states))
            rdic['tree.blens'].tensor = torch.tensor(rows if batched else rows[0], dtype=torch.float64)
            ref = ref_model()
            if val.shape != ref.shape or not torch.allclose(val, ref, rtol=1e-9, atol=1e-12):
                return True, f'evaluation {s + 1}: returned {val.tolist()} but the reference is {ref.tolist()}'
            bit = oracle_bits[s]
            on = on or (any(bit) if isinstance(bit, tuple) else bool(bit))
            if bool(like.rescale) != on:
                return True, (f'evaluation {s + 1}: underflow verdicts so far {list(oracle_bits[:s + 1])} but the rescale flag is '
                              f'{like.rescale} (an underflow in any sample must switch rescaling on, and it must stay on)')
    except Exception as e:
        return True, f'raised {type(e).__name__}: {e}'
    return False, 'agree'


# ------------------------------------------------------------------ (c) floating point
def fp_task(task, tr):
    from symtorch import fp, smt
    from torchtree.evolution import tree_likelihood as tl

    _, symbolic_pi, timeout = task
    label = f'floating point: plain kernel, 2 tips, 1 state, pi symbolic={symbolic_pi}'
    tr.fn(tl.calculate_treelikelihood_discrete)
    with tracing() as t:
        d = t.dag
        mats = new_vars('P', torch.full((3, 1, 1, 1), 0.5, dtype=torch.float64))
        freqs = new_vars('pi', torch.ones(1, 1, dtype=torch.float64)) if symbolic_pi else torch.ones(1, 1, dtype=torch.float64)
        props = torch.ones(1, 1, 1, dtype=torch.float64)
        partials = [torch.ones(1, 1, dtype=torch.float64), torch.ones(1, 1, dtype=torch.float64), None]
        val = tl.calculate_treelikelihood_discrete(partials, torch.ones(1, dtype=torch.float64), [(2, 0, 1)], mats, freqs, props)
        vid = sid(val)
        if d.ops[vid] != 'uf' or d.args[vid][0] != 'log':
            tr.inconc(f'{label}: kernel value is not log(site likelihood)')
            return
        L = d.args[vid][1]
        text, names = fp.inaccuracy_query(d, L, rel_bits=20)
        tr.obligation(text)
        tr.regions += 1
        tr.witness_runs += 1
        tr.sample({'case': label, 'site_likelihood': d.to_str(L, 5), 'query': 'exists normal inputs in (0,1]: fl64(L) != 0 and |fl64(L) - L| > 2^-20 L'})
    t0 = time.time()
    r = smt.solve_text(text, timeout=timeout, solvers=('z3', 'z3new'), parallel=True)
    tr.notes.append(f'{label}: QF_FP query {r.status} in {time.time() - t0:.0f}s ({r.solver})')
    if r.status == 'unknown':
        tr.notes.append(f'{label}: QF_FP query undecided within {timeout}s - clause (c) not decided in this run')
        return
    if r.status == 'unsat':
        return
    # sat: witness at kernel level
    import re

    vals = {}
    for m in re.finditer(r'\((\S+) (\(fp [^)]*\))\)', r.raw if len(r.raw) > 400 else ''):
        pass
    # confirm through the public API on a JC69 caterpillar (size searched concretely; confirmation, not the deciding step)
    ok, detail, n = api_confirmation()
    if ok:
        tr.violation('TreeLikelihoodModel:plain-path:subnormal-band-inaccurate',
                     f'the plain (non-rescaled) path returns a finite but inaccurate log-likelihood when a site likelihood falls in the '
                     f'subnormal band; QF_FP witness exists at kernel level; public API: {detail}', {'taxa': n, 'detail': detail})
    else:
        tr.inconc(f'{label}: QF_FP sat but not reproduced through the public API ({detail})')


def api_confirmation(sizes=(524, 527, 530, 533, 536)):
    import threading

    sys.setrecursionlimit(1000000)
    res = {}

    def work():
        import torchtree.evolution.tree_likelihood  # noqa

        def model(n, bl):
            names = [f't{i}' for i in range(n)]
            nw = '(' + names[0] + ',' + names[1] + ')'
            for k in range(2, n):
                nw = '(' + nw + ',' + names[k] + ')'
            tree = {'id': 'tree', 'type': 'UnRootedTreeModel', 'newick': nw + ';',
                    'branch_lengths': {'id': 'tree.blens', 'type': 'Parameter', 'tensor': [bl] * (2 * n - 3)}, 'taxa': cm.taxa_json(n)}
            like = {'id': 'like', 'type': 'TreeLikelihoodModel', 'tree_model': tree, 'site_model': {'id': 's', 'type': 'ConstantSiteModel'},
                    'substitution_model': {'id': 'm', 'type': 'JC69'},
                    'site_pattern': {'id': 'sp', 'type': 'SitePattern',
                                     'alignment': cm.alignment_json({f't{i}': 'A' for i in range(n)}, taxa='taxa')}}
            l, dic = cm.build(like)
            dic['tree.blens'].tensor = dic['tree.blens'].tensor.to(torch.float64)
            return l

        best = (0.0, None)
        for n in sizes:
            l = model(n, 2.0)
            v = float(l())
            switched = l.rescale
            l2 = model(n, 2.0)
            l2.rescale = True
            ref = float(l2())  # rescaled evaluation = extended-range reference (validated against the plain path where both are exact)
            err = abs(v - ref) / abs(ref)
            if not switched and math.isfinite(v) and err > best[0]:
                best = (err, (n, v, ref))
        res['best'] = best

    old = threading.stack_size(512 * 1024 * 1024)
    th = threading.Thread(target=work)
    th.start()
    th.join()
    threading.stack_size(old)
    err, info = res.get('best', (0.0, None))
    if info and err > 1e-8:
        n, v, ref = info
        return True, (f'JC69 caterpillar with {n} taxa (constant site, branch length 2): plain path returns {v!r} without switching to '
                      f'rescaling, reference {ref!r}, relative error {err:.2e} > 1e-8'), n
    return False, f'largest relative error found {err:.2e}', None


def fpscalers_task(task, tr):
    """floating point, rescaled path: with the per-node scalers as free normal floats in (0,1], no argument of a log
    that depends on the scalers alone may underflow (the accumulated scalers must enter as a sum of logs, never as the
    log of a product)"""
    from symtorch import fp, smt
    from symtorch.tensor import wrap
    from torchtree.evolution import tree_likelihood as tl

    _, kernel = task
    label = f'floating point: {kernel}, scalers as free normal floats'
    tr.fn(getattr(tl, kernel))
    S, K, N = 2, 1, 1
    tip_states = 'tip_states' in kernel
    saved = HANDLERS['max']
    with tracing() as t:
        d = t.dag
        count = [0]

        def stub_max(func, args, kwargs):
            x = args[0]
            if len(args) > 1 or kwargs:
                res = saved(func, args, kwargs)
                vals_, idx = res
                k = count[0]
                count[0] += 1
                fresh = new_vars(f'scaler{k}', vals_._v.clone())
                return torch.return_types.max((fresh, idx))
            return saved(func, args, kwargs)

        HANDLERS['max'] = stub_max
        try:
            mats = new_vars('P', torch.full((4, K, S, S), 0.4, dtype=torch.float64))
            freqs = new_vars('pi', torch.full((1, S), 0.5, dtype=torch.float64))
            props = torch.ones(K, 1, 1, dtype=torch.float64)
            if tip_states:
                tips = [torch.tensor([i % S]) for i in range(3)] + [None, None]
            else:
                tips = [new_vars(f'tip{i}', torch.full((S, N), 0.6, dtype=torch.float64)) for i in range(3)] + [None, None]
            t.check_values = False  # the stubbed maxima are free symbols
            val = getattr(tl, kernel)(tips, torch.ones(N, dtype=torch.float64), POST, mats, freqs, props)
        finally:
            HANDLERS['max'] = saved
        vid = sid(val)
        scal = {n for n in d.topo([vid]) if d.ops[n] == 'var' and d.args[n][0].startswith('scaler')}
        logs = [n for n in d.topo([vid]) if d.ops[n] == 'uf' and d.args[n][0] == 'log']
        only = [n for n in logs if set(i for i in d.topo([d.args[n][1]]) if d.ops[i] == 'var') <= scal
                and any(d.ops[i] == 'var' for i in d.topo([d.args[n][1]]))]
        tr.regions += 1
        tr.witness_runs += 1
        if not only:
            tr.inconc(f'{label}: no log of the scalers found in the rescaled value')
            return
        for n in only:
            arg = d.args[n][1]
            try:
                lines, root, names = fp.lower(d, arg, 'F64')
            except Exception as e:
                tr.inconc(f'{label}: cannot lower {d.to_str(arg, 4)} to floating point: {e}')
                return
            text = ['(set-logic QF_FP)']
            seen = set()
            for _, v in names:
                if v not in seen:
                    seen.add(v)
                    text.append(f'(declare-const {v} (_ FloatingPoint 11 53))')
                    text.append(f'(assert (and (fp.isNormal {v}) (fp.isPositive {v}) (fp.leq {v} ((_ to_fp 11 53) RNE 1.0))))')
            text += lines
            text.append(f'(assert (or (fp.isZero {root}) (fp.isSubnormal {root})))')
            text.append('(check-sat)')
            q = '\n'.join(text) + '\n'
            tr.obligation(q)
            r = smt.solve_text(q, timeout=120, solvers=('z3', 'z3new'), parallel=True)
            tr.sample({'case': label, 'log_argument': d.to_str(arg, 4), 'query': 'normal scalers in (0,1] => argument neither zero nor subnormal',
                       'result': r.status})
            if r.status == 'sat':
                ok, detail = rescaled_api_confirmation(tip_states)
                if ok:
                    tr.violation(f'{kernel}:scalers-accumulated-as-a-product',
                                 f'{label}: the argument {d.to_str(arg, 4)} of a log underflows for normal scalers; public API: {detail}',
                                 {'kernel': kernel})
                else:
                    tr.inconc(f'{label}: QF_FP sat for {d.to_str(arg, 4)} but not reproduced through the public API ({detail})')
            elif r.status != 'unsat':
                tr.inconc(f'{label}: QF_FP query undecided')


def rescaled_api_confirmation(tip_states, n=700):
    """a tree large enough that the product of all scalers underflows: the rescaled path evaluated twice (second time
    after a parameter update) must stay finite and agree with a log-space reference"""
    import threading

    sys.setrecursionlimit(1000000)
    res = {}

    def work():
        import torchtree.evolution.tree_likelihood  # noqa

        names = [f't{i}' for i in range(n)]
        nw = '(' + names[0] + ',' + names[1] + ')'
        for k in range(2, n):
            nw = '(' + nw + ',' + names[k] + ')'
        tree = {'id': 'tree', 'type': 'UnRootedTreeModel', 'newick': nw + ';',
                'branch_lengths': {'id': 'tree.blens', 'type': 'Parameter', 'tensor': [2.0] * (2 * n - 3)}, 'taxa': cm.taxa_json(n)}
        like = {'id': 'like', 'type': 'TreeLikelihoodModel', 'tree_model': tree, 'site_model': {'id': 's', 'type': 'ConstantSiteModel'},
                'substitution_model': {'id': 'm', 'type': 'JC69'}, 'use_tip_states': tip_states,
                'site_pattern': {'id': 'sp', 'type': 'SitePattern', 'alignment': cm.alignment_json({f't{i}': 'A' for i in range(n)}, taxa='taxa')}}
        l, dic = cm.build(like)
        dic['tree.blens'].tensor = dic['tree.blens'].tensor.to(torch.float64)
        v1 = float(l())
        dic['tree.blens'].tensor = dic['tree.blens'].tensor * 1.0001
        v2 = float(l())
        # reference: per-taxon increment is constant far from the ends, so v/n is stable: compare with a smaller tree scaled
        res['v'] = (v1, v2, l.rescale)

    old = threading.stack_size(512 * 1024 * 1024)
    th = threading.Thread(target=work)
    th.start()
    th.join()
    threading.stack_size(old)
    v1, v2, resc = res.get('v', (0.0, 0.0, False))
    if not (math.isfinite(v1) and math.isfinite(v2)) or abs(v2 - v1) > 1e-2 * abs(v1):
        return True, f'JC69 caterpillar with {n} taxa: first evaluation {v1}, evaluation after a 0.01% branch-length change {v2} (rescale={resc})'
    return False, f'evaluations {v1}, {v2} finite and consistent'


# ------------------------------------------------------------------ (d) floating point, switching evaluation
# The evaluation that switches rescaling on runs calculate_treelikelihood_discrete_safe with the MODEL'S OWN threshold:
# nodes whose plain partials are not below the threshold keep them un-rescaled.  A sub-tree of any size enters the
# recursion only through its partial vector, so the children of a bounded instance are free non-negative doubles
# constrained by the invariant the recursion itself establishes ("every site has an entry >= threshold": kept nodes by
# the kernel's test, rescaled nodes because their maximum is 1, tips because a tip column contains a 1).  One symbolic
# execution of the real switch code per path region (which nodes are recomputed); every denominator (= per-site scaler)
# and every log argument of the switching evaluation must be a normal double with 53 bits to spare, and every node must
# again satisfy the invariant (induction step).  Decided in the log2-magnitude abstraction of Float64 (symtorch/fp.py).
SW_MLO = 100  # transition probabilities in [2^-100, 1]
SW_PLO = 10  # equilibrium frequencies in [2^-10, 1]
SW_B = -969  # 2^-1022 * 2^53
SW_TOPOS = {'caterpillar3': (((0, 1), 2), 3), 'balanced4': (((0, 1), (2, 3)), 4), 'caterpillar4': ((((0, 1), 2), 3), 4)}


def sw_model_json(topo, n, S):
    codes = 'abcd'[:S]
    taxa = cm.taxa_json(n)
    tree = cm.unrooted_tree_json(topo, n)
    tree['taxa'] = taxa
    seqs = {f't{i}': codes[i % S] + codes[(i // 2) % S] for i in range(n)}
    return {'id': 'like', 'type': 'TreeLikelihoodModel', 'tree_model': tree,
            'site_model': {'id': 'site', 'type': 'ConstantSiteModel'},
            'substitution_model': {'id': 'subst', 'type': 'GeneralJC69', 'state_count': S},
            'site_pattern': {'id': 'sp', 'type': 'SitePattern',
                             'alignment': cm.alignment_json(seqs, taxa='taxa',
                                                            datatype={'id': 'dt', 'type': 'GeneralDataType', 'codes': list(codes)})}}


def sw_shapes(n, S, N):
    shapes = {'P': (2 * n - 1, 1, S, S), 'pi': (1, S)}
    for i in range(n):
        shapes[f'tip{i}'] = (S, N)
    return shapes


def sw_tensors(W, n, S, N):
    out = {}
    for prefix, shape in sw_shapes(n, S, N).items():
        out[prefix] = torch.tensor([W[x] for x in cm.names_shaped(prefix, shape)], dtype=torch.float64).reshape(shape)
    return out


def sw_default_witness(n, S, N, leaf_scale):
    """leaf_scale[i][site]: magnitude of the partial column of leaf i"""
    W = {}
    k = 0
    for name in cm.names_shaped('P', (2 * n - 1, 1, S, S)):
        W[name] = 0.25 + 0.25 * ((0.37 + 0.618 * k) % 1.0)
        k += 1
    for j, name in enumerate(cm.names_shaped('pi', (1, S))):
        W[name] = (1.0 + 0.5 * j) / (S + 0.25 * S * (S - 1))
    for i in range(n):
        for s_ in range(S):
            for site in range(N):
                W[f'tip{i}[{s_},{site}]'] = leaf_scale[i][site] * (1.0 if (s_ + i) % S == 0 else 0.5 ** (1 + (s_ + i) % S))
    return W


def ite_max_handler(saved, ismax=True):
    """torch.max / torch.min (x, dim, keepdim) as an if-then-else chain (exact, no path condition)"""

    def h(func, args, kwargs):
        x = args[0]
        dim = args[1] if len(args) > 1 else kwargs.get('dim')
        if not isinstance(dim, int) or not isinstance(x, SymTensor):
            return saved(func, args, kwargs)
        keepdim = kwargs.get('keepdim', args[2] if len(args) > 2 else False)
        d = cur().dag
        ids = x._ids.movedim(dim, -1)
        out = []
        for row in ids.reshape(-1, ids.shape[-1]).tolist():
            m = row[0]
            for o in row[1:]:
                m = d.ite(d.le(m, o), o, m) if ismax else d.ite(d.le(o, m), o, m)
            out.append(m)
        oid = torch.tensor(out, dtype=torch.int64).reshape(ids.shape[:-1])
        idx = (torch.argmax if ismax else torch.argmin)(x._v.movedim(dim, -1), -1)
        if keepdim:
            oid, idx = oid.unsqueeze(dim), idx.unsqueeze(dim)
        return (torch.return_types.max if ismax else torch.return_types.min)((from_ids(oid), idx))

    return h


class SwRun:
    pass


def sw_trace(topo, n, S, N, W, mode):
    """one symbolic execution of the REAL TreeLikelihoodModel.calculate_with_tip_partials on a fresh model of the tree
    under test: mode 'switch' = first evaluation whose plain result is reported infinite, 'later' = rescale already on"""
    from torchtree.evolution import tree_likelihood as tl

    r = SwRun()
    saved_max, saved_min, saved_inf = HANDLERS['max'], HANDLERS['min'], HANDLERS['isinf']
    real_safe = tl.calculate_treelikelihood_discrete_safe
    with tracing() as t:
        HANDLERS['max'] = ite_max_handler(saved_max)
        HANDLERS['min'] = ite_max_handler(saved_min, ismax=False)
        HANDLERS['isinf'] = lambda f, a, k: torch.ones(tuple(a[0]._v.shape), dtype=torch.bool)
        try:
            like, _ = cm.build(sw_model_json(topo, n, S))
            r.thr = like.threshold
            T = sw_tensors(W, n, S, N)
            mats, freqs = new_vars('P', T['P']), new_vars('pi', T['pi'])
            props = torch.ones(1, 1, 1, dtype=torch.float64)
            like.partials = [new_vars(f'tip{i}', T[f'tip{i}']) for i in range(n)] + [None] * (n - 1)
            like.weights = torch.ones(N, dtype=torch.float64)
            like.rescale = mode == 'later'
            r.leaf_ids = [p._ids.clone() for p in like.partials[:n]]
            marks = {'den': 0, 'dom': 0, 'plain': None}

            def rec(partials, *a, **k):
                marks['den'], marks['dom'] = len(t.denominators), len(t.domains)
                marks['plain'] = [p._ids.clone() for p in partials]
                return real_safe(partials, *a, **k)

            tl.calculate_treelikelihood_discrete_safe = rec
            r.raised = None
            try:
                r.val = like.calculate_with_tip_partials(mats, freqs, props)
            except ValueError as e:
                if 'non-empty' not in str(e):
                    raise
                r.raised = str(e)
            r.rescale_flag = bool(like.rescale)
        finally:
            tl.calculate_treelikelihood_discrete_safe = real_safe
            HANDLERS['max'], HANDLERS['min'], HANDLERS['isinf'] = saved_max, saved_min, saved_inf
    r.t, r.d = t, t.dag
    r.post = [tuple(x) for x in like.tree_model.postorder]
    r.pcs = list(t.pcs)
    r.entered_safe = marks['plain'] is not None
    r.dens = list(t.denominators[marks['den']:])
    r.logargs = [x for k_, x in t.domains[marks['dom']:] if k_ == 'pos']
    r.plain_logargs = [x for k_, x in t.domains[:marks['dom']] if k_ == 'pos'] if r.entered_safe else []
    r.final = [None if p is None else p._ids.clone() for p in like.partials]
    r.recomputed = []
    if r.entered_safe and not r.raised:
        r.recomputed = [nd for nd in range(n, 2 * n - 1) if not torch.equal(marks['plain'][nd], r.final[nd])]
    elif mode == 'later':
        r.recomputed = list(range(n, 2 * n - 1))
    return r


def sw_column_invariant(d, ids, bound):
    """for every site: some entry (over categories and states) >= bound"""
    x = ids.reshape(-1, ids.shape[-1])
    return [d.or_(*[d.le(bound, int(x[j, site])) for j in range(x.shape[0])]) for site in range(x.shape[1])]


def sw_in_domain(W, n, S, N, leaf_bound):
    """the concrete point satisfies the stated input domain (checked in Float64 before any replay is believed)"""
    T = sw_tensors(W, n, S, N)
    if not bool(((T['P'] >= 2.0 ** -SW_MLO) & (T['P'] <= 1.0)).all()) or not bool(((T['pi'] >= 2.0 ** -SW_PLO) & (T['pi'] <= 1.0)).all()):
        return False
    for i in range(n):
        x = T[f'tip{i}']
        if not bool(((x >= 0) & (x <= 1.0)).all()) or not bool((x.max(0)[0] >= leaf_bound).all()):
            return False
    return True


def sw_exact_reference(T, post, n):
    from fractions import Fraction

    S, N = T['tip0'].shape
    F = lambda x: Fraction(float(x))
    part = {i: [[F(T[f'tip{i}'][s_, site]) for site in range(N)] for s_ in range(S)] for i in range(n)}
    P = T['P']
    for node, left, right in post:
        cur_ = []
        for s_ in range(S):
            row = []
            for site in range(N):
                a = sum(F(P[left, 0, s_, j]) * part[left][j][site] for j in range(S))
                b = sum(F(P[right, 0, s_, j]) * part[right][j][site] for j in range(S))
                row.append(a * b)
            cur_.append(row)
        part[node] = cur_
    root = post[-1][0]
    tot = 0.0
    for site in range(N):
        L = sum(F(T['pi'][0, s_]) * part[root][s_][site] for s_ in range(S))
        if L <= 0:
            return None
        tot += math.log(L.numerator) - math.log(L.denominator)
    return tot


def sw_replay(topo, n, S, N, W, mode, allow_oracle=True):
    """the real code on plain float64 tensors against an exact rational reference.
    Returns (reproduced, detail, info)"""
    import torchtree.evolution.tree_likelihood  # noqa

    T = sw_tensors(W, n, S, N)
    props = torch.ones(1, 1, 1, dtype=torch.float64)
    info = {}

    def run(oracle):
        like, _ = cm.build(sw_model_json(topo, n, S))
        like.partials = [T[f'tip{i}'].clone() for i in range(n)] + [None] * (n - 1)
        like.weights = torch.ones(N, dtype=torch.float64)
        like.rescale = mode == 'later'
        real_isinf = torch.isinf
        if oracle:
            torch.isinf = lambda x: torch.ones(tuple(x.shape), dtype=torch.bool)
        try:
            val = like.calculate_with_tip_partials(T['P'], T['pi'], props)
        finally:
            torch.isinf = real_isinf
        return like, val

    post = None
    try:
        like, val = run(False)
        how = 'the plain result is -inf, the model switches to rescaling by itself'
        if mode == 'switch' and not like.rescale:
            if not allow_oracle:
                return False, 'the plain result is finite on this point: the model does not switch', info
            like, val = run(True)
            how = 'the switch is triggered by another site pattern (infinity test answered true)'
        post = [tuple(x) for x in like.tree_model.postorder]
    except Exception as e:
        info['raised'] = f'{type(e).__name__}: {e}'
        return True, f'raised {type(e).__name__}: {e}', info
    got = float(val.reshape(-1)[0])
    ref = sw_exact_reference(T, post, n)
    info.update({'value': got, 'exact_reference': ref, 'threshold': float(like.threshold), 'how': how})
    cols = []
    for nd in range(n, 2 * n - 1):
        p = like.partials[nd]
        cols.append(float(p.reshape(-1, p.shape[-1]).max(0)[0].min()))
    info['smallest_column_maximum_of_internal_nodes'] = min(cols)
    if ref is None:
        return False, 'exact likelihood is zero (outside the property)', info
    if not math.isfinite(got) or abs(got - ref) > 1e-8 * abs(ref):
        return True, (f'threshold {float(like.threshold)!r}: the switching evaluation returns {got!r}, exact rational reference {ref!r} '
                      f'({how})'), info
    return False, f'value {got!r} agrees with the exact reference {ref!r}', info


def sw_api_confirmation(depth=10, lengths=(0.2, 0.5, 0.35, 0.8)):
    """public API only: JC69, perfectly balanced tree with 2^depth taxa, two site patterns.  The evaluation that switches
    rescaling on is compared with the fully rescaled evaluation of a fresh model (extended-range reference)."""
    import torchtree.evolution.tree_likelihood  # noqa

    n = 2 ** depth

    def bal(lo, hi):
        if hi - lo == 1:
            return f't{lo}'
        mid = (lo + hi) // 2
        return '(' + bal(lo, mid) + ',' + bal(mid, hi) + ')'

    def model(bl):
        tree = {'id': 'tree', 'type': 'UnRootedTreeModel', 'newick': bal(0, n) + ';',
                'branch_lengths': {'id': 'tree.blens', 'type': 'Parameter', 'tensor': [bl] * (2 * n - 3)}, 'taxa': cm.taxa_json(n)}
        seqs = {f't{i}': 'ACGT'[(i * 7 + i // 3) % 4] + 'ACGT'[(i // 5) % 4] for i in range(n)}
        js = {'id': 'like', 'type': 'TreeLikelihoodModel', 'tree_model': tree, 'site_model': {'id': 's', 'type': 'ConstantSiteModel'},
              'substitution_model': {'id': 'm', 'type': 'JC69'},
              'site_pattern': {'id': 'sp', 'type': 'SitePattern', 'alignment': cm.alignment_json(seqs, taxa='taxa')}}
        l, dic = cm.build(js)
        dic['tree.blens'].tensor = dic['tree.blens'].tensor.to(torch.float64)
        return l

    worst = None
    for bl in lengths:
        try:
            l = model(bl)
            v = float(l())
            switched = bool(l.rescale)
            l2 = model(bl)
            l2.rescale = True
            ref = float(l2())
        except Exception as e:
            return True, f'balanced JC69 tree with {n} taxa, branch length {bl}: raised {type(e).__name__}: {e}'
        if not switched or not math.isfinite(ref):
            continue
        bad = (not math.isfinite(v)) or abs(v - ref) > 1e-8 * abs(ref)
        if bad:
            msg = (f'balanced JC69 tree with {n} taxa, all branch lengths {bl}: the evaluation that switches rescaling on returns {v!r}, '
                   f'the fully rescaled evaluation {ref!r}')
            if not math.isfinite(v):
                return True, msg
            worst = worst or msg
    if worst:
        return True, worst
    return False, f'balanced JC69 trees with {n} taxa, branch lengths {list(lengths)}: switching evaluation agrees with the rescaled one'


def fpswitch_task(task, tr):
    from symtorch import fp, smt
    from torchtree.evolution import tree_likelihood as tl

    _, topo_name, S, N, mode = task
    topo, n = SW_TOPOS[topo_name]
    label = f'floating point, {"switching" if mode == "switch" else "later (rescaled)"} evaluation: {topo_name} S={S} N={N}'
    tr.fn(tl.TreeLikelihoodModel.__init__, tl.TreeLikelihoodModel.calculate_with_tip_partials, tl.calculate_treelikelihood_discrete,
          tl.calculate_treelikelihood_discrete_safe, tl.calculate_treelikelihood_discrete_rescaled)
    tr.bounds['fp switch'] = (f'trees of <= 4 leaves (3 in the quick tier) whose leaves stand for arbitrary sub-trees (free non-negative doubles <= 1, '
                              f'zero and subnormal included, satisfying the recursion\'s invariant), S <= 4 states, K = 1 rate category, <= 2 site '
                              f'patterns, float64 only (the engine traces in float64: the float32 threshold is not examined); transition '
                              f'probabilities in [2^-{SW_MLO}, 1], frequencies in [2^-{SW_PLO}, 1]; with K >= 2 categories the per-site scaler is '
                              f'shared by the categories (a category 2^-1000 below the leading one is flushed by design): not examined; tip-state '
                              f'kernels take integer tip states, sub-trees cannot be abstracted there: not examined')
    tr.stubs |= {'(d) torch.max / torch.min over a dimension are expanded to exact if-then-else chains',
                 '(d) torch.isinf(log_p) answers true: the switch is triggered by this or by another site pattern',
                 '(d) matrix-vector products are expanded to sums of products; the relation used for a sum (max <= result <= #terms * max) '
                 'holds for every summation order and for fused multiply-add',
                 '(d) Float64 operations are replaced by the log2-magnitude relation of symtorch/fp.py (sound over-approximation of IEEE-754 '
                 'round-to-nearest on non-negative operands: unsat is sound, sat is replayed on the real code)'}
    tr.assumptions |= {'(d) a sub-tree influences its parent only through its partial vector; induction over the tree: leaves satisfy the invariant, '
                       'each bounded instance proves that every node of the instance satisfies it again',
                       '(d) standard model of floating-point arithmetic: when no scaler and no log argument falls below 2^-969 every entry within '
                       '2^-53 of the per-site maximum is computed without gradual-underflow loss',
                       f'(d) every transition probability is a double in [2^-{SW_MLO}, 1] (strictly positive), frequencies in [2^-{SW_PLO}, 1]'}
    solver_kw = dict(timeout=60.0 * TSCALE, solvers=('z3', 'cvc5', 'z3new'), parallel=False)

    # ---- witnesses: heuristics first, then models of the closure query
    with tracing():
        probe, _ = cm.build(sw_model_json(topo, n, S))
    thr0 = probe.threshold
    try:
        thr0 = float(thr0)
    except Exception:
        tr.inconc(f'{label}: the model threshold {thr0!r} is not a number')
        return
    if not (math.isfinite(thr0) and thr0 >= 0):
        tr.inconc(f'{label}: model threshold {thr0!r} outside [0, inf)')
        return
    if thr0 > 0.5:
        tr.inconc(f'{label}: model threshold {thr0!r} > 1/2: a rescaled node (maximum 1, proved >= 1/2) is not covered by the invariant')
        return
    leaf_bound = thr0 if mode == 'switch' else 0.5
    root_t = math.sqrt(thr0) if thr0 > 0 else 1e-150
    queue = []
    if mode == 'switch':
        for scales in ([8 * root_t] * 2 + [2.0 ** -10] * (n - 2), [root_t / 8] * n, [0.5] * n, [2.0 ** -10] * n):
            ls = [[max(min(sc, 1.0), leaf_bound, 5e-324), 0.5] for sc in scales]
            queue.append(sw_default_witness(n, S, N, [l[:N] for l in ls]))
    else:
        queue.append(sw_default_witness(n, S, N, [[1.0] * N for _ in range(n)]))
    base_W = queue[-1]

    def domain_and_blocks(run, extra_roots):
        """lower one run; returns (lines, ref, domain asserts, inputs)"""
        d = run.d
        inv = []
        for i in range(n):
            inv += sw_column_invariant(d, run.leaf_ids[i], d.const(leaf_bound))
        roots = list(run.pcs) + inv + list(extra_roots)
        lines, ref, inputs = fp.lower_mag(d, roots)
        dom = []
        for name, z, e in inputs:
            if name.startswith('P['):
                dom.append(f'(and (not {z}) (<= (- {SW_MLO}.0) {e}) (<= {e} 0.0))')
            elif name.startswith('pi['):
                dom.append(f'(and (not {z}) (<= (- {SW_PLO}.0) {e}) (<= {e} 0.0))')
            else:
                dom.append(f'(or {z} (and (<= (- 1074.0) {e}) (<= {e} 0.0)))')
        dom += [ref[c][1] for c in inv]
        return lines, ref, dom, inputs

    def leaf_inv_nodes(run):
        out = []
        for i in range(n):
            out += sw_column_invariant(run.d, run.leaf_ids[i], run.d.const(leaf_bound))
        return out

    def model_to_W(inputs, values, offset=0):
        Wn = dict(base_W)
        for k, (name, z, e) in enumerate(inputs):
            Wn[name] = fp.mag_value(bool(values[offset + 2 * k]), values[offset + 2 * k + 1])
        return Wn

    def getters(inputs):
        g = []
        for name, z, e in inputs:
            g.append((name, z, 'Bool'))
            g.append((name, e, 'Real'))
        return g

    regions = []  # (run, lines, ref, dom, inputs)
    seen_keys = set()
    all_inputs = {}
    closed = False
    for it in range(40):
        if queue:
            W = queue.pop(0)
        else:
            # closure query: a point of the domain outside every explored region
            blocks = [rg[1] for rg in regions]
            asserts = list(dict.fromkeys(a for rg in regions for a in rg[3]))
            for rg in regions:
                pcs = [rg[2][c][1] for c in rg[0].pcs]
                asserts.append('(not (and true ' + ' '.join(pcs) + '))')
            inputs = list(all_inputs.values())
            text, gv = fp.mag_script(blocks, asserts, getters(inputs))
            tr.obligation(text)
            res = smt.solve_text(text, get_values=gv, **solver_kw)
            if res.status == 'unsat':
                closed = True
                tr.closures += 1
                break
            if res.status != 'sat':
                tr.inconc(f'{label}: closure query undecided after {len(regions)} regions')
                return
            # witness search only: the same query with every comparison of the path conditions decided by a factor >= 2^margin,
            # so that the concrete point lies inside the region the model describes (simplex models sit on the boundaries)
            for margin in (24, 8, 2):
                robust = []
                for rg in regions:
                    robust += fp.mag_margins(rg[0].d, rg[0].pcs, rg[2], margin)
                text2, gv2 = fp.mag_script(blocks, asserts + list(dict.fromkeys(robust)), getters(inputs))
                res2 = smt.solve_text(text2, get_values=gv2, **solver_kw)
                if res2.status == 'sat':
                    res = res2
                    break
            W = model_to_W(inputs, res.values)
        try:
            run = sw_trace(topo, n, S, N, W, mode)
        except Exception as e:
            ok, detail, info = sw_replay(topo, n, S, N, W, mode) if sw_in_domain(W, n, S, N, leaf_bound) else (False, '', {})
            if ok:
                tr.violation('TreeLikelihoodModel:switch-evaluation:unscaled-product-underflows' if mode == 'switch'
                             else 'TreeLikelihoodModel:rescaled-evaluation:scaler-underflows',
                             f'{label}: {detail}', {'inputs': W, 'info': info, 'mode': mode, 'instance': [topo_name, S, N]})
                return
            tr.inconc(f'{label}: symbolic execution failed at a witness ({type(e).__name__}: {e})')
            return
        tr.witness_runs += 1
        key = (run.raised is not None, tuple(sorted(run.d.to_str(c, 60) for c in run.pcs)))
        if key in seen_keys:
            continue
        seen_keys.add(key)
        extra = list(run.dens) + list(run.logargs) + list(run.plain_logargs)
        for nd in run.recomputed:
            extra += [int(x) for x in run.final[nd].reshape(-1).tolist()]
        for nd in range(n, 2 * n - 1):
            if run.final[nd] is not None:
                extra += [int(x) for x in run.final[nd].reshape(-1).tolist()]
        lines, ref, dom, inputs = domain_and_blocks(run, extra)
        for inp in inputs:
            all_inputs[inp[0]] = inp
        regions.append((run, lines, ref, dom, inputs))
        tr.regions += 1
    if not closed:
        tr.inconc(f'{label}: region enumeration not closed after {len(regions)} regions')
        return

    # vacuity guard: the domain (with the leaf invariant at the model's threshold) is not empty
    rg0 = regions[0]
    text, _ = fp.mag_script([rg0[1]], rg0[3])
    r0 = smt.solve_text(text, **solver_kw)
    if r0.status != 'sat':
        tr.inconc(f'{label}: the input domain is empty or undecided ({r0.status}) for threshold {thr0!r}')
        return

    sig_under = ('TreeLikelihoodModel:switch-evaluation:unscaled-product-underflows' if mode == 'switch'
                 else 'TreeLikelihoodModel:rescaled-evaluation:scaler-underflows')
    reported = set()
    for run, lines, ref, dom, inputs in regions:
        d = run.d
        hyps = dom + [ref[c][1] for c in run.pcs]
        region_txt = ('kernel raised: no node below the threshold' if run.raised else
                      f'recomputed nodes {run.recomputed}') if mode == 'switch' else 'all nodes rescaled'
        goals = []  # (kind, text, negated goal smt, steering smt or None)
        inv_lines = []
        if run.raised:
            # the kernel is entered only after a site likelihood evaluated to +0: impossible when no node is below the threshold
            for L in run.plain_logargs:
                _, z, e, cz = ref[L]
                goals.append(('reach', f'no node below the threshold => plain site likelihood {d.to_str(L, 3)} is not +0', z, cz))
        else:
            for x in run.dens:
                _, z, e, cz = ref[x]
                goals.append(('den', f'scaler {d.to_str(x, 3)} >= 2^{SW_B}', f'(or {z} (< {e} {SW_B}.0))', cz))
            for x in run.logargs:
                _, z, e, cz = ref[x]
                goals.append(('log', f'log argument {d.to_str(x, 3)} >= 2^{SW_B}', f'(or {z} (< {e} {SW_B}.0))', cz))
            for nd in range(n, 2 * n - 1):
                bound = d.const(0.5) if nd in run.recomputed else d.const(leaf_bound)
                for site, c in enumerate(sw_column_invariant(d, run.final[nd], bound)):
                    l2, r2, _ = fp.lower_mag(d, [c])
                    inv_lines.append(l2)
                    goals.append(('inv', f'node {nd} ({"rescaled" if nd in run.recomputed else "kept"}) site {site}: some entry >= '
                                         f'{"1/2" if nd in run.recomputed else "threshold"}', f'(not {r2[c][1]})', None))
        den_failed = False
        for kind, gtxt, neg, steer in goals:
            if den_failed and kind in ('log', 'inv'):
                # these are stated under "all scalers are normal": a division by an underflowed scaler leaves them unconstrained
                tr.notes.append(f'{label} [{region_txt}]: {gtxt}: not examined, a scaler of this region can underflow')
                continue
            text, gv = fp.mag_script([lines] + inv_lines, hyps + [neg], getters(inputs))
            tr.obligation(text)
            res = smt.solve_text(text, get_values=gv, **solver_kw)
            if res.status == 'unsat':
                continue
            den_failed = den_failed or kind == 'den'
            if res.status != 'sat':
                tr.inconc(f'{label} [{region_txt}]: {gtxt}: undecided')
                continue
            # sat: replay on the real code with plain tensors.  Candidates for the replay: the steered model (the failing quantity is exactly zero with a margin), comparisons of
            # the hypotheses decided by a factor >= 4 (the concrete point then satisfies them in Float64), then the raw models
            cands = []
            robust = list(dict.fromkeys(fp.mag_margins(d, list(run.pcs) + leaf_inv_nodes(run), ref, 2)))
            for extra_c in ([[steer] + robust, [steer]] if steer else []) + [[neg] + robust]:
                text2, gv2 = fp.mag_script([lines] + inv_lines, hyps + extra_c, getters(inputs))
                res2 = smt.solve_text(text2, get_values=gv2, **solver_kw)
                if res2.status == 'sat':
                    cands.append(model_to_W(inputs, res2.values))
            cands.append(model_to_W(inputs, res.values))
            rep = None
            detail = 'no model of the abstraction is a point of the input domain in Float64'
            for Wc in cands:
                if not sw_in_domain(Wc, n, S, N, leaf_bound):
                    continue
                ok, detail, info = sw_replay(topo, n, S, N, Wc, mode, allow_oracle=kind != 'reach')
                if ok:
                    rep = (Wc, detail, info)
                    break
            if kind == 'inv':
                # the induction step fails: not a value error by itself
                if rep is None:
                    tr.inconc(f'{label} [{region_txt}]: induction step not closed: {gtxt} (solver counterexample; the value itself agrees '
                              f'with the exact reference on the replay)')
                    continue
            if rep is None:
                tr.inconc(f'{label} [{region_txt}]: {gtxt} fails in the abstraction, not reproduced on the real code ({detail})')
                continue
            sig = sig_under if kind in ('den', 'log', 'inv') else 'TreeLikelihoodModel:switch-evaluation:raises'
            if sig in reported:
                continue
            reported.add(sig)
            Wc, detail, info = rep
            api = ''
            if mode == 'switch':
                try:
                    okA, dA = sw_api_confirmation()
                    api = ('; public API: ' + dA) if okA else f'; public API confirmation not found ({dA})'
                except Exception as e:  # confirmation only
                    api = f'; public API confirmation raised {type(e).__name__}: {e}'
            what = (f'{label} [{region_txt}]: "{gtxt}" does not hold; replay of the real code on plain tensors (children = partial vectors of '
                    f'sub-trees): {detail}{api}')
            tr.violation(sig, what, {'inputs': {k: repr(v) for k, v in Wc.items()}, 'info': info, 'mode': mode,
                                     'instance': [topo_name, S, N], 'goal': gtxt})
    tr.sample({'case': label, 'threshold': thr0, 'regions': [('raised' if rg[0].raised else rg[0].recomputed) for rg in regions],
               'obligations': 'scalers and log arguments >= 2^-969; every node again has an entry >= threshold per site'})



# ------------------------------------------------------------------ (e) per-sample normalisation of the rescaled kernels
def normalised_replay(kernel, S, K, N):
    """Real kernel on plain tensors, batch of two samples whose site likelihoods differ by 600 orders of magnitude (the
    matrices of sample 1 are those of sample 0 times c = 1e-150: the site likelihood is homogeneous of degree 4 in them,
    so the exact log-likelihood of sample 1 is that of sample 0 plus 4*N*log c): with one scaler per SAMPLE and pattern
    every intermediate stays representable; a scaler shared between the samples lets sample 1 underflow."""
    from torchtree.evolution import tree_likelihood as tl

    g = torch.Generator().manual_seed(3)
    base = 0.2 + 0.6 * torch.rand((4, K, S, S), dtype=torch.float64, generator=g)
    tip_states = 'tip_states' in kernel
    if tip_states:
        base[:3] = base[:3] / base[:3].sum(-1, keepdim=True)
    c = 1e-150
    mats = torch.stack([base, base * c])
    freqs = torch.full((1, S), 1.0 / S, dtype=torch.float64)
    props = torch.full((K, 1, 1), 1.0 / K, dtype=torch.float64)
    w = torch.ones(N, dtype=torch.float64)

    def tips():
        if tip_states:
            return [torch.tensor([(i + 2 * s_) % S for s_ in range(N)]) for i in range(3)] + [None, None]
        return [0.2 + 0.6 * torch.rand((S, N), dtype=torch.float64, generator=torch.Generator().manual_seed(10 + i)) for i in range(3)] + [None, None]

    plain = tl.calculate_treelikelihood_tip_states_discrete if tip_states else tl.calculate_treelikelihood_discrete
    ref0 = float(plain(tips(), w, POST, base, freqs, props))
    want = [ref0, ref0 + 4 * N * math.log(c)]
    try:
        got = getattr(tl, kernel)(tips(), w, POST, mats, freqs, props).reshape(-1).tolist()
    except Exception as e:
        return True, f'{kernel} raised {type(e).__name__}: {e}'
    for b in range(2):
        if not math.isfinite(got[b]) or abs(got[b] - want[b]) > 1e-8 * abs(want[b]):
            return True, (f'{kernel} on a batch of two samples (matrices of sample 1 = matrices of sample 0 x 1e-150): sample {b} '
                          f'returns {got[b]} but the extended-range reference is {want[b]}')
    return False, 'both samples finite and within 1e-8 of the reference'


def normalised_task(task, tr):
    """Over the reals ANY positive scaler gives the right value, so parts (a), (b) cannot see which maximum a kernel divides
    by; the floating-point clause needs the structural fact that makes rescaling work: after the division the largest entry
    of every (sample, site pattern) block of every internal partial is exactly 1 - one scaler per sample and pattern."""
    from torchtree.evolution import tree_likelihood as tl

    _, kernel, S, K, N = task
    label = f'per-sample normalisation {kernel} S={S} K={K} N={N} batch=[2]'
    tr.fn(getattr(tl, kernel))
    tip_states = 'tip_states' in kernel
    tr.bounds['normalisation'] = '3 taxa, S=2, K<=2, N<=2, batch of 2 samples; path region of each witness (which entry is the maximum); two witnesses (either sample the larger one)'
    for flip in (False, True):
        with tracing() as t:
            d = t.dag
            V = {}
            W = {}
            for k, name in enumerate(cm.names_shaped('P', (2, 4, K, S, S))):
                big = (name.startswith('P[0') != flip)
                W[name] = (0.3 + 0.6 * ((0.37 + 0.618 * k) % 1.0)) * (1.0 if big else 0.125)
            if tip_states:
                for b in range(2):
                    for c_ in range(3):
                        for k in range(K):
                            for i in range(S):
                                names = [f'P[{b},{c_},{k},{i},{j}]' for j in range(S)]
                                acc = 0.0
                                tot = sum(W[n_] for n_ in names)
                                for n_ in names[:-1]:
                                    W[n_] = round(W[n_] / tot * 2 ** 20) / 2 ** 20
                                    acc += W[n_]
                                W[names[-1]] = 1.0 - acc
            for nm, shape in (('pi', (1, S)), ('prop', (K, 1, 1))):
                for k, name in enumerate(cm.names_shaped(nm, shape)):
                    W[name] = 0.2 + 0.6 * ((0.11 + 0.618 * k) % 1.0)
            if not tip_states:
                for i in range(3):
                    for k, name in enumerate(cm.names_shaped(f'tip{i}', (S, N))):
                        W[name] = 0.2 + 0.6 * ((0.23 + 0.618 * (k + 3 * i)) % 1.0)
            for name, val in W.items():
                V[name] = d.var(name, val)
            mats = cm.var_tensor_shaped(V, 'P', (2, 4, K, S, S))
            freqs = cm.var_tensor_shaped(V, 'pi', (1, S))
            props = cm.var_tensor_shaped(V, 'prop', (K, 1, 1))
            weights = torch.ones(N, dtype=torch.float64)
            if tip_states:
                partials = [torch.tensor([(i + 2 * s_) % S for s_ in range(N)]) for i in range(3)] + [None, None]
            else:
                partials = [cm.var_tensor_shaped(V, f'tip{i}', (S, N)) for i in range(3)] + [None, None]
            getattr(tl, kernel)(partials, weights, POST, mats, freqs, props)
            tr.witness_runs += 1
            tr.regions += 1
            tr.ops_checked += t.nchecked
            dom = [d.lt(0, i) for i in V.values()]
            from symtorch.explore import prove

            for node in (3, 4):
                P_ = partials[node]  # [2, K, S, N]
                ids = P_._ids
                for b in range(2):
                    for n_ in range(N):
                        block = ids[b, :, :, n_].reshape(-1).tolist()
                        vals = [d.vals[x] for x in block]
                        top = block[max(range(len(vals)), key=lambda q: vals[q])]
                        goal = d.and_(d.eq(top, 1), *[d.le(x, 1) for x in block])
                        gl = (f'node {node}, sample {b}, pattern {n_}: after the division the largest entry of the block is exactly 1 '
                              f'and no entry exceeds 1')
                        tr.obligation(f'{label}:{flip}:{gl}')
                        st, model, _ = prove(d, dom + list(t.pcs), goal, timeout=30.0, tr=tr, label=label + ': ' + gl, parallel=True)
                        if st == 'proved':
                            continue
                        if st == 'refuted' or abs(d.vals[top] - 1.0) > 1e-12:
                            bad, detail = normalised_replay(kernel, S, K, N)
                            if bad:
                                tr.violation(f'{kernel}:scaler-not-per-sample',
                                             f'{label}: {gl} fails (witness value of the largest entry {d.vals[top]}): the scaler is '
                                             f'not the maximum of that sample\'s own block; on plain tensors: {detail}',
                                             {'kernel': kernel, 'S': S, 'K': K, 'N': N, 'kind': 'normalised'})
                            else:
                                tr.inconc(f'{label}: {gl} fails in the encoding but the real kernel handles samples 600 orders of '
                                          f'magnitude apart ({detail})')
                            return
                        tr.inconc(f'{label}: {gl} undecided')
                        return

def run_task(task, tr):
    {'normalised': normalised_task, 'algebra': algebra_task, 'history': history_task, 'fp': fp_task, 'fpscalers': fpscalers_task, 'fpswitch': fpswitch_task}[task[0]](task, tr)


# the thorough tier keeps ~35 tasks x 3 solver processes busy on 16 cores: wall-clock solver budgets are scaled so
# that contention does not turn decidable goals into 'unknown'
TSCALE = 4.0 if os.environ.get('VERIF_TIER') == 'thorough' else 1.0


def tasks_for(tier):
    ts = []
    ks = ['calculate_treelikelihood_discrete_rescaled', 'calculate_treelikelihood_discrete_safe',
          'calculate_treelikelihood_tip_states_discrete_rescaled']
    for k in ks:
        ts.append(('algebra', k, 2, 1, 1))
    if tier == 'thorough':
        for k in ks:
            ts.append(('algebra', k, 2, 2, 2))
            ts.append(('algebra', k, 4, 1, 1))
    L = 2 if tier == 'quick' else 3
    for bits in itertools.product((0, 1), repeat=L):
        ts.append(('history', bits, False, False))
        if tier == 'thorough' or bits in ((0, 1), (1, 1)):
            ts.append(('history', bits, True, False))
        if tier == 'thorough' or bits in ((1, 0), (1, 1)):
            ts.append(('history', bits, False, True))
    # batched histories in which only ONE of the two samples underflows
    ts.append(('history', ((True, False), (False, False)), False, True))
    ts.append(('history', ((False, True), (True, True)), True, True))
    # (e) one scaler per sample and pattern (structural fact behind the floating-point clause for batched evaluation)
    ts.append(('normalised', 'calculate_treelikelihood_discrete_rescaled', 2, 1, 2))
    ts.append(('normalised', 'calculate_treelikelihood_tip_states_discrete_rescaled', 2, 1, 2))
    if tier == 'thorough':
        ts.append(('normalised', 'calculate_treelikelihood_discrete_rescaled', 2, 2, 2))
    ts.append(('fp', False, 300))
    ts.append(('fpscalers', 'calculate_treelikelihood_discrete_rescaled'))
    ts.append(('fpscalers', 'calculate_treelikelihood_tip_states_discrete_rescaled'))
    if tier == 'thorough':
        ts.append(('fp', True, 1200))
    # (d) floating point of the evaluation that switches rescaling on (model's own threshold) and of the evaluations after it
    ts.append(('fpswitch', 'caterpillar3', 2, 2, 'switch'))
    ts.append(('fpswitch', 'balanced4', 2, 2, 'switch'))
    ts.append(('fpswitch', 'caterpillar3', 2, 2, 'later'))
    if tier == 'thorough':
        ts.append(('fpswitch', 'balanced4', 4, 1, 'switch'))
        ts.append(('fpswitch', 'caterpillar3', 4, 2, 'switch'))
        ts.append(('fpswitch', 'caterpillar4', 2, 2, 'switch'))
        ts.append(('fpswitch', 'balanced4', 4, 1, 'later'))
        ts.append(('fpswitch', 'balanced4', 2, 2, 'later'))
    return ts


def body(chk):
    chk.explanation = ('(a)+(b): symbolic execution of the real rescaling kernels and of the switch logic with the infinity test '
                       'replaced by an enumerated underflow oracle; per-node maxima and threshold comparisons are path regions; '
                       'exp-lifted identities decided over the reals. (c): the plain kernel\'s DAG lowered to QF_FP (Float64 vs '
                       'Float128) asks for normal inputs giving a finite but inaccurate value; sat answers are confirmed through the '
                       'public API. (d): the real switch code with the model\'s own threshold on bounded trees whose leaves are partial '
                       'vectors of arbitrary sub-trees; Float64 lowered to a sound log2-magnitude relation (QF_LRA): no scaler / log '
                       'argument of the switching evaluation (or of later, rescaled evaluations) can underflow; path regions = which nodes '
                       'are recomputed, coverage certified by a closure query. (e): the rescaled kernels on a batch of two samples - after the division the '
                       'largest entry of every (sample, pattern) block of every internal partial is exactly 1 (one scaler per sample), decided '
                       'on the witness regions; a failing kernel is replayed with samples 600 orders of magnitude apart')
    chk.total.assumptions |= {'(a),(b) over the reals: they show the rescaled formulas are algebraically the plain formula; the accuracy to '
                              '1e-8 for large trees is a floating-point statement addressed only by (c)',
                              'the rescaled path is used as extended-range reference in the API confirmation of (c)',
                              '(a),(b): no coverage certificate is required for the per-node-maximum regions (explored regions only when the closure query is undecided)'}
    pmap(run_task, tasks_for(chk.tier), chk.total)


if __name__ == '__main__':
    if '--replay' in sys.argv:
        ok, detail, n = api_confirmation()
        print(('REPRODUCED ' if ok else 'NOT REPRODUCED ') + detail)
        sys.exit(1 if ok else 0)
    sys.exit(main_for(PID, body))
