"""Helpers shared by the engine-A checks: topology enumeration, JSON builders,
an independent Newick reader, symbolisation of parameters."""
from __future__ import annotations

import itertools

import torch


# ------------------------------------------------------------ topologies
def rooted_topologies(n):
    """All labelled rooted binary topologies on leaves 0..n-1 as nested tuples."""
    if n == 1:
        return [0]
    if n == 2:
        return [(0, 1)]

    def insert(tree, leaf):
        out = [(tree, leaf)]  # new root
        if isinstance(tree, tuple):
            l, r = tree
            for t in insert(l, leaf):
                out.append((t, r))
            for t in insert(r, leaf):
                out.append((l, t))
        return out

    res = []
    for t in rooted_topologies(n - 1):
        res.extend(insert(t, n - 1))
    return res


def to_newick(t, names=None, lengths=None):
    """nested tuple -> newick string.  names: list of leaf names."""

    def rec(x):
        if isinstance(x, tuple):
            return '(' + ','.join(rec(c) for c in x) + ')'
        return names[x] if names else f't{x}'

    return rec(t) + ';'


def leaves(t):
    if isinstance(t, tuple):
        return [x for c in t for x in leaves(c)]
    return [t]


def internal_nodes_postorder(t):
    """list of (node, children) in post-order, node being the nested tuple itself"""
    out = []

    def rec(x):
        if isinstance(x, tuple):
            for c in x:
                rec(c)
            out.append(x)

    rec(t)
    return out


def mirror(t):
    """swap the children of every node"""
    if isinstance(t, tuple):
        return (mirror(t[1]), mirror(t[0]))
    return t


def caterpillar(n):
    t = 0
    for i in range(1, n):
        t = (t, i)
    return t


def balanced(n):
    def rec(lo, hi):
        if hi - lo == 1:
            return lo
        mid = (lo + hi) // 2
        return (rec(lo, mid), rec(mid, hi))

    return rec(0, n)


def pick_topologies(n, tier, quick_max=None):
    ts = rooted_topologies(n)
    if tier == 'thorough' or quick_max is None or len(ts) <= quick_max:
        return ts
    # quick: a spread including caterpillar / balanced shapes and mirrored ones
    step = max(1, len(ts) // quick_max)
    sel = ts[::step][:quick_max]
    for extra in (caterpillar(n), balanced(n), mirror(caterpillar(n))):
        if extra not in sel:
            sel.append(extra)
    return sel


# ------------------------------------------------------------ JSON builders
def taxa_json(n, dates=None, id_='taxa'):
    return {
        'id': id_,
        'type': 'Taxa',
        'taxa': [
            {'id': f't{i}', 'type': 'Taxon', 'attributes': {'date': (dates[i] if dates else 0.0)}}
            for i in range(n)
        ],
    }


def unrooted_tree_json(topology, n, id_='tree', taxa='taxa'):
    return {
        'id': id_,
        'type': 'UnRootedTreeModel',
        'newick': to_newick(topology),
        'branch_lengths': {'id': f'{id_}.blens', 'type': 'Parameter', 'tensor': [0.1 + 0.01 * i for i in range(2 * n - 3)]},
        'taxa': taxa,
    }


def time_tree_json(topology, n, id_='tree', taxa='taxa'):
    return {
        'id': id_,
        'type': 'TimeTreeModel',
        'newick': to_newick(topology),
        'internal_heights': {'id': f'{id_}.heights', 'type': 'Parameter', 'tensor': [1.0 + i for i in range(n - 1)]},
        'taxa': taxa,
    }


def ratio_tree_json(topology, n, id_='tree', taxa='taxa'):
    return {
        'id': id_,
        'type': 'ReparameterizedTimeTreeModel',
        'newick': to_newick(topology),
        'ratios': {'id': f'{id_}.ratios', 'type': 'Parameter', 'tensor': [0.5] * (n - 2)},
        'root_height': {'id': f'{id_}.root_height', 'type': 'Parameter', 'tensor': [10.0]},
        'taxa': taxa,
    }


def shift_tree_json(topology, n, id_='tree', taxa='taxa'):
    return {
        'id': id_,
        'type': 'ReparameterizedTimeTreeModel',
        'newick': to_newick(topology),
        'shifts': {'id': f'{id_}.shifts', 'type': 'Parameter', 'tensor': [1.0] * (n - 1)},
        'taxa': taxa,
    }


def alignment_json(seqs, datatype='nucleotide', taxa='taxa', id_='aln'):
    """seqs: dict taxon -> string"""
    dt = datatype if isinstance(datatype, (str, dict)) else datatype
    return {
        'id': id_,
        'type': 'Alignment',
        'datatype': dt,
        'taxa': taxa,
        'sequences': [{'taxon': k, 'sequence': v} for k, v in seqs.items()],
    }


def build(obj_json, dic=None):
    from torchtree.core.utils import process_object

    dic = {} if dic is None else dic
    return process_object(obj_json, dic), dic


# ------------------------------------------------------------ symbolisation
def symbolize(param, prefix, values=None):
    """Replace the tensor of a Parameter by fresh symbolic variables (through the
    public setter, so listeners fire)."""
    from symtorch import new_vars

    v = param.tensor if values is None else values
    st = new_vars(prefix, torch.as_tensor(v, dtype=torch.float64).detach().clone())
    param.tensor = st
    return st


def var_tensor(V, names):
    from symtorch import from_ids

    return from_ids(torch.tensor([V[x] for x in names], dtype=torch.int64))


def var_tensor_shaped(V, prefix, shape):
    from symtorch import from_ids

    idx = list(itertools.product(*[range(s) for s in shape])) if shape else [()]
    names = [prefix + ('[' + ','.join(map(str, k)) + ']' if k else '') for k in idx]
    return from_ids(torch.tensor([V[x] for x in names], dtype=torch.int64).reshape(shape))


def names_shaped(prefix, shape):
    idx = list(itertools.product(*[range(s) for s in shape])) if shape else [()]
    return [prefix + ('[' + ','.join(map(str, k)) + ']' if k else '') for k in idx]


def ids_list(t):
    return t._ids.reshape(-1).tolist()


# ------------------------------------------------------------ solver helpers
def discharge(tr, d, hyps, goals, label, replay=None, timeout=30.0, varnodes=None, sig_prefix='', defined=True,
              threads=1, parallel=False):
    """Prove each (label, node[, extra hyps]) goal under hyps.  On `sat` replay(values)->(bool, detail)
    decides between violation and inconclusive.  Returns number proved."""
    from symtorch.explore import prove, _to_float
    from symtorch import cur
    from symtorch.axioms import ground_axioms

    proved = 0
    varnodes = varnodes or {}
    goals = list(goals)
    if defined:
        t = cur()
        obl = [d.not_(d.eq(b, 0)) for b in t.denominators]
        obl += [d.lt(0, x) if kind == 'pos' else d.le(0, x) for kind, x in t.domains]
        if obl:
            allok = d.and_(*obl)
            goals.append(('every denominator is non-zero and every log/sqrt argument is in its domain', allok,
                          ground_axioms(d, [allok]), sig_prefix + 'well-defined'))
    def run(g):
        glabel, node = g[0], g[1]
        extra = list(g[2]) if len(g) > 2 else []
        return prove(d, list(hyps) + extra, node, timeout=timeout, get_values=list(varnodes.values()), tr=tr,
                     label=glabel, parallel=parallel)

    if threads > 1 and len(goals) > 1:
        from concurrent.futures import ThreadPoolExecutor

        with ThreadPoolExecutor(max_workers=threads) as ex:
            results = list(ex.map(run, goals))
    else:
        results = [run(g) for g in goals]
    for g, (st, r, text) in zip(goals, results):
        glabel, node = g[0], g[1]
        sig = g[3] if len(g) > 3 else (sig_prefix + glabel)
        if st == 'proved':
            proved += 1
            continue
        if st == 'refuted':
            vals = {n: _to_float(r.values[i]) for n, i in varnodes.items() if i in r.values}
            if replay is not None:
                ok, detail = replay(vals)
                if ok:
                    tr.violation(sig, f'{label}: {glabel} fails at {vals}: {detail}', {'label': label, 'values': vals})
                    continue
                wit = {n: d.vals[i] for n, i in varnodes.items()}
                ok, detail = replay(wit)
                if ok:
                    tr.violation(sig, f'{label}: {glabel} fails at {wit}: {detail}', {'label': label, 'values': wit})
                    continue
                tr.inconc(f'{label}: counterexample for "{glabel}" did not reproduce on the real code ({detail})')
            else:
                tr.inconc(f'{label}: "{glabel}" refuted by the solver but no replay is available')
        else:
            if replay is not None:
                wit = {n: d.vals[i] for n, i in varnodes.items()}
                ok, detail = replay(wit)
                if ok:
                    tr.violation(sig, f'{label}: {glabel}: solver undecided, witness separates: {detail}',
                                 {'label': label, 'values': wit})
                    continue
            tr.inconc(f'{label}: "{glabel}" undecided by the solver portfolio ({r.raw[:100] if r else ""})')
    return proved


def abstracted(d, atoms, formulas):
    """Replace the given sub-terms by fresh variables in the formulas (generalisation: a proof of the
    abstracted statement is a proof of the original one by instantiation)."""
    from symtorch import cur

    t = cur()
    mapping = {}
    for a in atoms:
        if a not in mapping and d.ops[a] not in ('const',):
            mapping[a] = t.fresh('abs', d.vals[a])
    return d.substitute(list(formulas), mapping)
