"""C15 Every MCMC transition is a Metropolis-Hastings step on the stated target.

The REAL `MCMC.run` (1-2 iterations), the real Scaler / SlidingWindow / Dirichlet operators, the real
Logger / ContainerLogger and real torchtree targets (JSON-built priors, CatParameter, TransformedParameter,
or an uninterpreted target U) are executed symbolically.  All randomness is stubbed: the operator choice and
the coordinate choice are enumerated (one task per choice), the uniform draws u / xi and the Dirichlet draw
are fresh symbols.  The accept / reject decisions of the real code are path conditions; the explored paths
form a decision tree whose missing siblings are proved infeasible (coverage certificate).  On every path
the solver proves
  G1  density used for the proposal == target evaluated from scratch (fresh model) at the proposed state
  G2  accepted <=> u < min(1, exp(T(x') - T(x) + h)),  acceptance probability handed to tune() == that min
  G3  h == log q(x|x') - log q(x'|x) derived from the executed proposal code (Jacobian of the executed map
      w.r.t. the stubbed draw; independent Dirichlet density for the Dirichlet operator)
  G4  reject() restores every parameter to the identical expressions; accept keeps the proposal
  G5  every logged row (Logger file + ContainerLogger) holds target(logged parameters)
and, in separate tasks, G6: one tune() step moves the proposal spread in the direction of the acceptance
error (ScalerOperator, SlidingWindowOperator, DirichletOperator, GMRF block updating re-parameterisation,
HMCOperator, AdaptiveStepSize, DualAveragingStepSize).
G3 / G4 for GMRFPiecewiseCoalescentBlockUpdatingOperator (chk/c15_gmrf.py): the real step() - propose_precision,
Newton iteration, Cholesky / triangular solves - is executed symbolically; the Hastings term it returns is proved
equal to log q(reverse) - log q(forward), both densities derived from the executed proposal code (Jacobian of the
executed map w.r.t. the stubbed normal draw; the reverse kernel is the same real code run from the proposed state),
and the precision move is proved to have a symmetric density (two-branch mixture derived from propose_precision).

Operators on DERIVED parameters (derived_tasks): the operator's parameter is a ViewParameter (slice, step slice, negative-step
slice = index tensor, list of indices, boolean mask; an int-index view is read by the target) or a CatParameter, all built by the
real from_json; a TransformedParameter is read by the target while the operator works on the unconstrained parameter.  Their
.tensor getters return views, temporaries or cached tensors.  In 2-iteration runs EVERY parameter reachable from the target -
leaves and derived - is snapshotted (expression ids) before the step, after the step and after the decision: reject => identical
to before, accept => the proposal, and each derived parameter reads exactly what an independent python-list statement of its
indexing / concatenation / transform gives for the leaves; a stale state after a reject shows in the acceptance obligations of
iteration 2 (the carried log_joint enters them).  The loggers also log the derived parameters (G5 on those cells).

HMCOperator as an operator of MCMC.run (hmc_tasks; the leapfrog map itself is C16): uninterpreted differentiable target,
symbolic step size, dense / diagonal mass matrix, identity or symbolic SPD, handed over at construction, through
mass_matrix.tensor = M, or through load_state_dict.  torch.distributions.(Multivariate)Normal inside Hamiltonian.sample_momentum
is replaced by a model of its law (loc + L z, L L^T = covariance, z symbolic); cholesky / inverse / cholesky_inverse are
contract stubs.  G3 for HMC: the term returned by step() == K(p_start) - K(p_end) with K(p) = p^T Sigma^-1 p / 2 (closed-form
inverse) for the covariance Sigma the momentum WAS DRAWN FROM, p_start = the latest draw (a fresh one per attempt, also after a
numerically failed trajectory), Sigma == the mass matrix parameter; G1 / G2 / G4 / G5 as for every other operator.
"""
from __future__ import annotations

import itertools
import json
import math
import os
import re
import shutil
import sys
import tempfile

import torch

from symtorch import SymFloat, SymTensor, cur, from_ids, tracing
from symtorch.axioms import ground_axioms
from symtorch.explore import _to_float, prove
from symtorch.ext_c15 import Canon, SymMath15, strip_stop, subst
from symtorch.tensor import mkfloat
from vlib.core import main_for, pmap

from chk import c15_gmrf

PID = 'C15'
T_START = __import__('time').time()
TAU = 0.24  # target acceptance probability of the random-walk operators

# ------------------------------------------------------------------ targets
LEAVES = {
    'uf1': [('x', [0.7, 1.3], 'real')],
    'uf2': [('x', [0.7], 'real'), ('y', [-0.4], 'real')],
    'normal': [('x', [0.7, 1.3], 'real')],
    'gamma': [('r', [0.8], 'pos'), ('x', [0.5], 'real')],
    'cat': [('p', [0.7], 'real'), ('q', [1.1], 'real')],
    'exptr': [('z', [0.2, -0.3], 'real')],
    'dirichlet': [('x', [0.2, 0.3, 0.5], 'simplex')],
    'ufsimplex': [('x', [0.2, 0.3, 0.5], 'simplex')],
    # operators acting on DERIVED parameters (the operator's parameter is a ViewParameter / CatParameter built from the leaves)
    'catop': [('p', [0.7], 'real'), ('q', [1.1, -0.6], 'real')],
    'ufcatop': [('p', [0.7], 'real'), ('q', [1.1, -0.6], 'real')],
    # HMCOperator inside MCMC.run (uninterpreted differentiable target)
    'ufh': [('x', [0.3, 0.7], 'real')],
}
BASE_TARGETS = ('uf1', 'uf2', 'normal', 'gamma', 'cat', 'exptr', 'dirichlet', 'ufsimplex')  # operators on plain Parameters
# ViewParameter 'v' of the base parameter b (3 coordinates), indices as accepted by ViewParameter.from_json:
#   int (0-dim tensor), slices (views of the base storage), a NEGATIVE-step slice (from_json turns it into an index tensor:
#   the getter returns a temporary), a list of indices (LongTensor: temporary), a list of booleans (BoolTensor mask: temporary)
VIEW_INDICES = {'vint': 1, 'vslice': '1:3', 'vstep': '::2', 'vneg': '::-1', 'vlist': [2, 0], 'vmask': [True, False, True]}
for _k in VIEW_INDICES:
    LEAVES[_k] = LEAVES['uf' + _k] = [('b', [0.7, 1.3, -0.4], 'real')]


def view_kind(kind):
    k = kind[2:] if kind.startswith('uf') else kind
    return k if k in VIEW_INDICES else None


def py_index(lst, idx):
    """independent statement of the indexing semantics on a python list (int, 'a:b:c', list of ints, list of bools)"""
    if isinstance(idx, int) and not isinstance(idx, bool):
        return [lst[idx]]
    if isinstance(idx, str):
        return lst[slice(*[int(x) if x != '' else None for x in idx.split(':')])]
    if all(isinstance(i, bool) for i in idx):
        return [x for x, m in zip(lst, idx) if m]
    return [lst[i] for i in idx]


def derived_spec(kind):
    """derived parameters of a target: [(id, json or None when the target json defines it, fn(state, exp) -> flat list of
    the values the parameter must read for a given leaf state, logged by the loggers?)]"""
    vk = view_kind(kind)
    if vk:
        idx = VIEW_INDICES[vk]
        out = [('v', {'id': 'v', 'type': 'ViewParameter', 'parameter': 'b', 'indices': idx},
                lambda st, ex: py_index(st['b'], idx), vk != 'vint')]
        if vk == 'vint':
            # no shipped operator can act on a 0-dim parameter (they call len(parameter.tensor)): the operator acts on the
            # overlapping slice view w = b[0:2] and the int view v = b[1] is read by the target
            out.append(('w', {'id': 'w', 'type': 'ViewParameter', 'parameter': 'b', 'indices': '0:2'},
                        lambda st, ex: st['b'][0:2], True))
        return out
    if kind in ('catop', 'ufcatop'):
        return [('c', {'id': 'c', 'type': 'CatParameter', 'parameters': ['p', 'q'], 'dim': -1},
                 lambda st, ex: list(st['p']) + list(st['q']), True)]
    if kind == 'exptr':
        return [('pos', None, lambda st, ex: [ex(z) for z in st['z']], True)]
    return []


def derive(kind, state, sym):
    """what every derived parameter must read when the leaves hold `state` (node ids if sym, else floats)"""
    ex = cur().dag.exp if sym else math.exp
    return {did: list(fn(state, ex)) for did, _, fn, _ in derived_spec(kind)}


def cover(kind, pid):
    """leaf coordinates [(leaf, j)] behind the coordinates of the parameter `pid` (a leaf or a view / concatenation)"""
    labels = {n: [(n, j) for j in range(len(v))] for n, v, _ in LEAVES[kind]}
    if pid in labels:
        return labels[pid]
    for did, _, fn, _ in derived_spec(kind):
        if did == pid:
            return list(fn(labels, None))
    raise KeyError(pid)


def _param(name, v):
    return {'id': name, 'type': 'Parameter', 'tensor': list(v)}


def target_json(kind):
    """the leaf parameters are referenced by id: they are created first, holding the state at which the
    target is to be evaluated, so that every derived object (CatParameter, TransformedParameter, ...) is
    constructed from that state"""
    D = 'Distribution'
    if kind == 'normal':
        ds = [{'id': 'prior', 'type': D, 'distribution': 'torch.distributions.Normal', 'x': 'x',
               'parameters': {'loc': 0.25, 'scale': 1.5}}]
    elif kind == 'gamma':
        ds = [{'id': 'pr', 'type': D, 'distribution': 'torch.distributions.Gamma', 'x': 'r',
               'parameters': {'concentration': 2.0, 'rate': 1.5}},
              {'id': 'px', 'type': D, 'distribution': 'torch.distributions.Normal', 'x': 'x',
               'parameters': {'loc': 0.25, 'scale': 1.5}}]
    elif kind == 'cat':
        # (numeric distribution parameters are not accepted together with a list-valued x: Parameter objects)
        ds = [{'id': 'prior', 'type': D, 'distribution': 'torch.distributions.Normal',
               'x': ['p', 'q'],
               'parameters': {'loc': _param('loc', [0.25]), 'scale': _param('scale', [1.5])}}]
    elif kind == 'exptr':
        ds = [{'id': 'prior', 'type': D, 'distribution': 'torch.distributions.Exponential',
               'x': {'id': 'pos', 'type': 'TransformedParameter', 'transform': 'torch.distributions.ExpTransform',
                     'x': 'z'}, 'parameters': {'rate': 1.5}},
              'pos']
    elif kind == 'dirichlet':
        ds = [{'id': 'prior', 'type': D, 'distribution': 'torch.distributions.Dirichlet', 'x': 'x',
               'parameters': {'concentration': [2.0, 3.0, 1.5]}}]
    elif view_kind(kind):
        # a prior on the view AND a prior on the whole base parameter: both readers must see every proposal / restore
        ds = [{'id': 'pv', 'type': D, 'distribution': 'torch.distributions.Normal', 'x': 'v',
               'parameters': {'loc': 0.25, 'scale': 1.5}},
              {'id': 'pb', 'type': D, 'distribution': 'torch.distributions.Normal', 'x': 'b',
               'parameters': {'loc': -0.5, 'scale': 2.0}}]
    elif kind == 'catop':
        ds = [{'id': 'pc', 'type': D, 'distribution': 'torch.distributions.Normal', 'x': 'c',
               'parameters': {'loc': 0.25, 'scale': 1.5}},
              {'id': 'pq', 'type': D, 'distribution': 'torch.distributions.Normal', 'x': 'q',
               'parameters': {'loc': -0.5, 'scale': 2.0}}]
    else:
        raise KeyError(kind)
    return {'id': 'joint', 'type': 'JointDistributionModel', 'distributions': ds}


def concrete_U(vals):
    return -0.5 * sum(v * v for v in vals) - 0.25 * sum(v ** 4 for v in vals) + 0.3 * math.prod(vals)


def concrete_U_torch(q):
    """concrete_U written with torch operations (differentiable: the HMC replays need its gradient)"""
    return -0.5 * (q * q).sum() - 0.25 * (q ** 4).sum() + 0.3 * q.prod()


def uf_partial_witness(d):
    """witness functions of U and of its derivative symbols (symbolic reverse differentiation of an uninterpreted target)"""
    d.uf_eval.setdefault('U', lambda *v: -0.5 * sum(z * z for z in v) + 0.1 * sum(v))
    for k in range(4):
        d.uf_eval.setdefault(f'd{k}~U', (lambda k_: lambda *q: -q[k_] + 0.1)(k))
        for l in range(4):
            d.uf_eval.setdefault(f'd{l}~d{k}~U', (lambda k_, l_: lambda *q: (-1.0 if k_ == l_ else 0.0))(k, l))


def make_uf_target(params, sym, grad=False):
    from torchtree.core.model import CallableModel

    class Target(CallableModel):
        def __init__(self, ps):
            super().__init__('joint')
            for i, p in enumerate(ps):
                setattr(self, f'p{i}', p)
            self.ps = ps
            self.nan_at = None
            self.nan_hook = None
            self.calls = 0

        def _call(self, *a, **k):
            self.calls += 1
            if (self.nan_at is not None and self.calls == self.nan_at) or (self.nan_hook is not None and self.nan_hook()):
                return torch.tensor(float('nan'), dtype=torch.float64)
            q = torch.cat([p.tensor.reshape(-1) for p in self.ps], -1)
            if not sym:
                if grad:
                    return concrete_U_torch(q)
                return torch.tensor(concrete_U(q.tolist()), dtype=torch.float64)
            d = cur().dag
            if grad:
                # differentiable: the arguments keep their detach / requires_grad structure (leaf nodes of the engine's autograd)
                uf_partial_witness(d)
                ids = q._ids.tolist()
                if not torch.is_grad_enabled():
                    ids = [strip_stop(d, i) for i in ids]
                r = from_ids(torch.tensor(d.uf('U', *ids), dtype=torch.int64))
                r._rg = torch.is_grad_enabled() and any(getattr(p.tensor, '_rg', False) for p in self.ps)
                return r
            ids = [strip_stop(d, i) for i in q._ids.tolist()]
            d.uf_eval.setdefault('U', lambda *v: -0.5 * sum(z * z for z in v) + 0.1 * sum(v))
            return from_ids(torch.tensor(d.uf('U', *ids), dtype=torch.int64))

        def _sample_shape(self):
            return torch.Size([])

        @classmethod
        def from_json(cls, data, dic):
            raise NotImplementedError

    return Target(params)


def state_tensor(v, sym):
    if sym:
        return from_ids(torch.tensor(v, dtype=torch.int64))
    return torch.tensor(v, dtype=torch.float64)


def build_target(kind, sym, state=None):
    """new model objects built FROM the given state: (joint, {leaf id: Parameter}, registry of ids, {derived id: parameter})"""
    import torchtree.distributions.distributions  # noqa: F401  (class registration)
    import torchtree.distributions.joint_distribution  # noqa: F401
    from torchtree.core.parameter import Parameter
    from torchtree.core.utils import process_object

    leaves = {}
    for n, v, _ in LEAVES[kind]:
        leaves[n] = Parameter(n, state_tensor(state[n], sym) if state is not None else torch.tensor(v, dtype=torch.float64))
    dic = dict(leaves)
    dspec = derived_spec(kind)
    for _, js, _, _ in dspec:
        if js is not None:
            process_object(js, dic)  # real from_json of ViewParameter / CatParameter
    if kind.startswith('uf'):
        # the uninterpreted target reads the derived parameters first, then the leaves
        joint = make_uf_target([dic[did] for did, _, _, _ in dspec] + list(leaves.values()), sym, grad=(kind == 'ufh'))
        dic['joint'] = joint
    else:
        joint = process_object(target_json(kind), dic)
    return joint, leaves, dic, {did: dic[did] for did, _, _, _ in dspec}


def make_target(kind, sym, state=None):
    joint, leaves, _, _ = build_target(kind, sym, state)
    return joint, leaves


def set_state(leaves, state, sym):
    for n, p in leaves.items():
        p.tensor = state_tensor(state[n], sym)


def fresh_eval(kind, state, sym=True, nograd=True):
    """the target evaluated FROM SCRATCH: new model objects holding the given state"""
    joint, leaves = make_target(kind, sym, state)
    if nograd:
        with torch.no_grad():
            v = joint()
    else:
        v = joint()
    return scalar_of(v, sym)


def oracle_logp(kind, state):
    """independent closed-form log densities (pure python) for the concrete replays"""
    def normal(v, mu=0.25, sd=1.5):
        return -((v - mu) ** 2) / (2 * sd * sd) - math.log(sd) - 0.5 * math.log(2 * math.pi)

    if kind.startswith('uf'):
        dv = derive(kind, state, False)
        return concrete_U([v for did, _, _, _ in derived_spec(kind) for v in dv[did]] + [v for n, _, _ in LEAVES[kind] for v in state[n]])
    if view_kind(kind):
        return sum(normal(v) for v in derive(kind, state, False)['v']) + sum(normal(v, -0.5, 2.0) for v in state['b'])
    if kind == 'catop':
        return sum(normal(v) for v in list(state['p']) + list(state['q'])) + sum(normal(v, -0.5, 2.0) for v in state['q'])
    if kind == 'normal':
        return sum(normal(v) for v in state['x'])
    if kind == 'gamma':
        r = state['r'][0]
        if r <= 0:
            return -math.inf
        return (2.0 * math.log(1.5) + (2.0 - 1) * math.log(r) - 1.5 * r - math.lgamma(2.0)) + normal(state['x'][0])
    if kind == 'cat':
        return normal(state['p'][0]) + normal(state['q'][0])
    if kind == 'exptr':
        return sum(math.log(1.5) - 1.5 * math.exp(z) + z for z in state['z'])
    if kind == 'dirichlet':
        return dirichlet_logpdf(state['x'], [2.0, 3.0, 1.5])
    raise KeyError(kind)


def dirichlet_logpdf(x, alpha):
    if min(x) <= 0 or min(alpha) <= 0:
        return -math.inf
    return math.lgamma(sum(alpha)) - sum(math.lgamma(a) for a in alpha) + sum((a - 1) * math.log(v) for a, v in zip(alpha, x))


# ------------------------------------------------------------------ value helpers
def scalar_of(x, sym):
    if isinstance(x, torch.Tensor) and not isinstance(x, SymTensor):
        f = float(x.reshape(-1)[0])
        if not math.isfinite(f):
            return 'nonfinite'
        return cur().dag.const(f) if sym else f
    if sym:
        if isinstance(x, SymTensor):
            return int(x._ids.reshape(-1)[0])
        return SymFloat._id(x)
    return float(x)


def snap(leaves, sym):
    if sym:
        d = cur().dag
        return {n: [strip_stop(d, i) for i in p.tensor._ids.reshape(-1).tolist()] for n, p in leaves.items()}
    return {n: [float(v) for v in p.tensor.reshape(-1).tolist()] for n, p in leaves.items()}


def unstop(d, ids):
    """the expressions with every stop node (detach / no_grad marker) removed"""
    return subst(d, list(ids), {}, drop_stops=True)


def snap_d(derived, sym):
    """what every derived parameter READS now (its public .tensor getter)"""
    if sym:
        d = cur().dag
        return {n: unstop(d, p.tensor._ids.reshape(-1).tolist()) for n, p in derived.items()}
    return {n: [float(v) for v in p.tensor.reshape(-1).tolist()] for n, p in derived.items()}


OPCLS = {'scaler': 'ScalerOperator', 'slide': 'SlidingWindowOperator', 'dirichlet': 'DirichletOperator', 'hmc': 'HMCOperator'}
OPKEY = {'scaler': 'scaler', 'slide': 'width', 'dirichlet': 'scaler'}
TP_DEFAULT = {'scaler': 0.6, 'slide': 0.9, 'dirichlet': 40.0, 'hmc': 0.11}


class Stubs:
    """every source of randomness used by MCMC.run and the operators, plus print and math"""

    LIST = ['torch.distributions.Categorical.sample -> enumerated operator index',
            'torch.rand(1) in MCMC.run -> fresh symbol u_k in [0,1)',
            'torch.rand(1) in ScalerOperator/SlidingWindowOperator._step -> fresh symbol xi_k in [0,1)',
            'torch.randint in the operators -> enumerated parameter / coordinate index',
            'torch.distributions.Dirichlet.sample -> fresh symbolic point of the open simplex',
            'print inside torchtree.inference.mcmc.mcmc -> no-op',
            'math module of torchtree.inference.mcmc.operator -> SymMath (exp/log uninterpreted with axioms)']
    HMC_LIST = ['torch.distributions.MultivariateNormal / Normal as imported by torchtree.inference.hmc.hamiltonian -> model of their '
                'documented law: sample() = loc + L z with L = cholesky(covariance_matrix) (Normal: loc + scale * z), z a vector of '
                'fresh symbols (standard normal draw); the covariance the real sample_momentum hands over is recorded',
                'torch.linalg.cholesky / torch.inverse / torch.cholesky_inverse on a symbolic matrix -> functional contract stubs '
                '(L L^T = M, L_ii > 0;  W M = M W = I;  X (F F^T) = (F F^T) X = I): the contracts are hypotheses of the Hastings goal',
                'LeapfrogIntegrator.__call__ -> the real method, its momentum argument and return value are recorded',
                'math module of torchtree.inference.hmc.operator -> SymMath (exp/log of the step size uninterpreted with axioms)',
                'uninterpreted differentiable target U: backward() is answered by the derivative symbols d_k U (symbolic reverse '
                'differentiation of the recorded DAG, as in C16)']

    def __init__(self, spec, vals, sym):
        self.spec, self.vals, self.sym = spec, vals, sym
        self.it = -1
        self.in_step = False
        self.nrandint = 0
        self.draws = {}
        self.u = {}
        self.bad = None
        self.hmc = any(o == 'hmc' for o, _ in spec['ops'])
        self.hmc_draws = []  # momentum draws of the current operator step
        self.hmc_calls = []  # integrator invocations of the current operator step
        self.n_int = 0  # integrator invocations of the whole run
        self.in_int = False
        self.int_model_calls = 0

    def lst(self, x):
        """nested list of node ids (symbolic run) / floats (plain run) of a tensor"""
        if self.sym:
            if isinstance(x, SymTensor):
                return x._ids.tolist()
            d = cur().dag

            def rec(v):
                return [rec(w) for w in v] if isinstance(v, list) else d.const(float(v))

            return rec(x.tolist())
        return x.tolist()

    def normal_draw(self, n):
        k = len(self.hmc_draws)
        vals = [self.value(f'z{self.it}_{k}[{i}]', [0.7, -0.5, 0.4][i] + 0.1 * k) for i in range(n)]
        if self.sym:
            return from_ids(torch.tensor(vals, dtype=torch.int64)), vals
        return torch.tensor(vals, dtype=torch.float64), vals

    def value(self, name, default):
        v = self.vals.get(name, default)
        if self.sym:
            return cur().dag.var(name, v)
        return v

    def __enter__(self):
        from torchtree.inference.mcmc import mcmc as mcmod
        from torchtree.inference.mcmc import operator as opmod

        self.saved = (torch.rand, torch.randint, torch.distributions.Categorical.sample,
                      torch.distributions.Dirichlet.sample, opmod.math)
        st = self

        def fake_rand(*size, **kw):
            if st.in_step:
                name = f'xi{st.it}'
                if name in st.draws:
                    st.bad = 'more than one uniform draw in one operator step'
                v = st.value(name, 0.3)
                st.draws[name] = v
            else:
                name = f'u{st.it}'
                v = st.value(name, 0.5)
                st.u[st.it] = v
            if st.sym:
                return from_ids(torch.tensor([v], dtype=torch.int64))
            return torch.tensor([v], dtype=torch.float64)

        def fake_randint(lo, hi, size, **kw):
            _, pi, ei = st.spec['plan'][st.it]
            c = (pi, ei)[st.nrandint]
            st.nrandint += 1
            if not (lo <= c < hi):
                st.bad = f'planned index {c} outside randint range [{lo},{hi})'
                c = lo
            return torch.tensor([c])

        def fake_cat_sample(self_, *a, **k):
            st.it += 1
            st.nrandint = 0
            return torch.tensor(st.spec['plan'][st.it][0])

        def fake_dir_sample(self_, sample_shape=torch.Size()):
            K = self_.concentration.shape[-1]
            name = f'y{st.it}'
            free = [st.value(f'{name}[{i}]', 1.0 / K) for i in range(K - 1)]
            if st.sym:
                d = cur().dag
                acc = 0
                for f in free:
                    acc = d.add(acc, f)
                ids = free + [d.sub(1, acc)]
                st.draws[name] = ids
                st.draws[name + ':conc'] = [strip_stop(d, i) for i in self_.concentration._ids.reshape(-1).tolist()]
                return from_ids(torch.tensor(ids, dtype=torch.int64))
            allv = free + [1.0 - sum(free)]
            st.draws[name] = allv
            st.draws[name + ':conc'] = self_.concentration.tolist()
            return torch.tensor(allv, dtype=torch.float64)

        torch.rand = fake_rand
        torch.randint = fake_randint
        torch.distributions.Categorical.sample = fake_cat_sample
        torch.distributions.Dirichlet.sample = fake_dir_sample
        if self.sym:
            opmod.math = SymMath15()
        mcmod.print = lambda *a, **k: None
        if self.hmc:
            self._enter_hmc()
        return self

    def _enter_hmc(self):
        import torchtree.inference.hmc.hamiltonian as hm
        import torchtree.inference.hmc.operator as ho
        from torchtree.inference.hmc.integrator import LeapfrogIntegrator

        st = self

        class ModelMVN:
            """the documented law of torch.distributions.MultivariateNormal: sample() ~ N(loc, covariance)"""

            def __init__(self_, loc, covariance_matrix=None, precision_matrix=None, scale_tril=None, validate_args=None):
                if precision_matrix is not None or (covariance_matrix is None) == (scale_tril is None):
                    st.bad = 'MultivariateNormal model: exactly one of covariance_matrix / scale_tril is supported'
                self_.loc, self_.cov, self_.tril = loc, covariance_matrix, scale_tril

            def sample(self_, sample_shape=torch.Size()):
                L = self_.tril if self_.tril is not None else torch.linalg.cholesky(self_.cov)
                z, zv = st.normal_draw(L.shape[-1])
                p = self_.loc + L @ z
                sigma = self_.cov if self_.cov is not None else L @ L.T
                st.hmc_draws.append({'z': zv, 'p': st.lst(p), 'Sigma': st.lst(sigma)})
                return p

        class ModelNormal:
            """the documented law of torch.distributions.Normal: sample() ~ N(loc, scale^2), independent coordinates"""

            def __init__(self_, loc, scale, validate_args=None):
                self_.loc, self_.scale = loc, scale

            def sample(self_, sample_shape=torch.Size()):
                sc = self_.scale
                z, zv = st.normal_draw(sc.shape[-1])
                p = self_.loc + sc * z
                var = st.lst(sc * sc)
                n = len(var)
                zero = 0 if st.sym else 0.0
                st.hmc_draws.append({'z': zv, 'p': st.lst(p), 'Sigma': [[var[i] if i == j else zero for j in range(n)] for i in range(n)]})
                return p

        real_call = LeapfrogIntegrator.__call__

        def rec_call(self_, model, parameters, momentum, inverse_mass_matrix):
            entry = {'pin': st.lst(momentum), 'pout': None, 'ndraws': len(st.hmc_draws)}
            st.hmc_calls.append(entry)
            st.n_int += 1
            st.in_int, st.int_model_calls = True, 0
            try:
                out = real_call(self_, model, parameters, momentum, inverse_mass_matrix)
            finally:
                st.in_int = False
            entry['pout'] = st.lst(out)
            return out

        self.saved_hmc = (hm, hm.MultivariateNormal, hm.Normal, ho, ho.math, LeapfrogIntegrator, real_call)
        hm.MultivariateNormal, hm.Normal = ModelMVN, ModelNormal
        LeapfrogIntegrator.__call__ = rec_call
        ho.print = lambda *a, **k: None
        if self.sym:
            ho.math = SymMath15()

    def _exit_hmc(self):
        hm, mvn, nrm, ho, hmath, LI, real_call = self.saved_hmc
        hm.MultivariateNormal, hm.Normal = mvn, nrm
        ho.math = hmath
        LI.__call__ = real_call
        if 'print' in ho.__dict__:
            del ho.__dict__['print']

    def __exit__(self, *exc):
        from torchtree.inference.mcmc import mcmc as mcmod
        from torchtree.inference.mcmc import operator as opmod

        (torch.rand, torch.randint, torch.distributions.Categorical.sample,
         torch.distributions.Dirichlet.sample, opmod.math) = self.saved
        if 'print' in mcmod.__dict__:
            del mcmod.__dict__['print']
        if self.hmc:
            self._exit_hmc()
        return False


DIVERGENCE = 987.0  # divergence threshold of the HMC operator under test (a distinctive constant: its comparison is recognised)
M_DEFAULT = {True: {'M[0,0]': 0.9, 'M[0,1]': 0.1, 'M[1,1]': 1.4}, False: {'M[0]': 0.9, 'M[1]': 1.4}}


def mass_value(cfg, vals, sym):
    """mass matrix of the HMC chains: identity (constants) or a symbolic symmetric matrix / positive vector"""
    dense = cfg['dense']
    if cfg['mass'] == 'identity':
        return torch.eye(2, dtype=torch.float64) if dense else torch.ones(2, dtype=torch.float64)
    g = {n: vals.get(n, v) for n, v in M_DEFAULT[dense].items()}
    if sym:
        d = cur().dag
        g = {n: d.var(n, v) for n, v in g.items()}
    if dense:
        rows = [[g['M[0,0]'], g['M[0,1]']], [g['M[0,1]'], g['M[1,1]']]]
    else:
        rows = [g['M[0]'], g['M[1]']]
    return from_ids(torch.tensor(rows, dtype=torch.int64)) if sym else torch.tensor(rows, dtype=torch.float64)


def make_hmc_operator(k, pids, cfg, tp, vals, sym, dic):
    """the real HMCOperator built from JSON; the mass matrix reaches it at construction, through the parameter setter
    (what MassMatrixAdaptor does) or through load_state_dict (checkpoint)"""
    import torchtree.inference.hmc.integrator  # noqa: F401  (class registration)
    import torchtree.inference.hmc.operator  # noqa: F401
    from torchtree.core.parameter import Parameter
    from torchtree.core.utils import process_object

    M = mass_value(cfg, vals, sym)
    how = cfg.get('how', 'ctor')
    steps = cfg.get('steps', 1)
    ident = torch.eye(2, dtype=torch.float64) if cfg['dense'] else torch.ones(2, dtype=torch.float64)
    mass = Parameter('mass', M if how == 'ctor' else ident)
    dic['mass'] = mass
    js = {'id': f'op{k}', 'type': 'HMCOperator', 'joint': 'joint', 'parameters': list(pids), 'weight': 1.0 + k,
          'integrator': {'id': 'leapfrog', 'type': 'LeapfrogIntegrator', 'steps': steps, 'step_size': tp},
          'mass_matrix': 'mass', 'target_acceptance_probability': 0.8, 'divergence_threshold': DIVERGENCE}
    op = process_object(js, dic)
    if how == 'setter':
        mass.tensor = M
    elif how == 'lsd':
        op.load_state_dict({'id': op.id, 'adapt_count': 0, 'accept': 0, 'reject': 0, 'accept_window': [],
                            'mass_matrix': {'id': 'mass', 'type': 'torchtree.Parameter', 'tensor': M.tolist(),
                                            'dtype': 'torch.float64', 'nn': False},
                            'integrator': {'id': 'leapfrog', 'step_size': tp, 'steps': steps}})
    elif how != 'ctor':
        raise KeyError(how)
    return op


def execute(spec, vals, sym, hooks=None):
    """Run the real MCMC.run on the chain described by spec.  sym=True: inside tracing(), inputs are
    symbols with witness `vals`; sym=False: plain tensors / floats.  Returns the recorded run."""
    import torchtree.inference.mcmc.operator  # noqa: F401  (class registration)
    from torchtree.core.logger import ContainerLogger, Logger
    from torchtree.core.utils import process_object
    from torchtree.inference.mcmc.mcmc import MCMC

    kind = spec['target']
    d = cur().dag if sym else None
    init = {}
    for name, default, dom in LEAVES[kind]:
        n = len(default)
        nfree = n - 1 if dom == 'simplex' else n
        free = [vals.get(f'{name}[{i}]', default[i]) for i in range(nfree)]
        if sym:
            ids = [d.var(f'{name}[{i}]', free[i]) for i in range(nfree)]
            if dom == 'simplex':
                acc = 0
                for f in ids:
                    acc = d.add(acc, f)
                ids = ids + [d.sub(1, acc)]
            init[name] = ids
        else:
            init[name] = free + ([1.0 - sum(free)] if dom == 'simplex' else [])
    joint, leaves, dic, derived = build_target(kind, sym, init)
    ops = []
    for k, (okind, pids) in enumerate(spec['ops']):
        tp = vals.get(f'tp{k}', TP_DEFAULT[okind])
        if sym:
            tp = mkfloat(d.var(f'tp{k}', tp))
        if okind == 'hmc':
            ops.append(make_hmc_operator(k, pids, spec['hmc'], tp, vals, sym, dic))
            continue
        js = {'id': f'op{k}', 'type': OPCLS[okind], 'parameters': list(pids), 'weight': 1.0 + k,
              'target_acceptance_probability': TAU, OPKEY[okind]: tp}
        ops.append(process_object(js, dic))
    st = Stubs(spec, vals, sym)
    rec = {'iters': [], 'crash': None, 'init_joint': None, 'rows': [], 'file_rows': None, 'init_state': init,
           'init_d': snap_d(derived, sym), 'assumed_pcs': []}
    if spec.get('hmc', {}).get('fail'):
        # numerical failure: the target is NaN at the second evaluation inside the FIRST leapfrog trajectory of the run
        def nan_hook():
            if st.in_int and st.n_int == 1:
                st.int_model_calls += 1
                return st.int_model_calls == 2
            return False

        joint.nan_hook = nan_hook
    tmp = tempfile.mkdtemp(prefix='c15_')
    try:
        container = []
        loggers = []
        dlogged = [did for did, _, _, lg in derived_spec(kind) if lg]
        if spec.get('loggers', True):
            logged = [joint] + list(leaves.values()) + [derived[n] for n in dlogged]
            loggers = [Logger(logged, 1, file_name=os.path.join(tmp, 'samples.csv')),
                       ContainerLogger(logged, container, 1)]
        mc = MCMC('mcmc', joint, ops, len(spec['plan']), loggers=loggers, every=0, checkpoint=None)

        class JointRec:
            def __call__(self_):
                try:
                    v = joint()
                except ValueError as e:
                    # torch.distributions argument validation: the state is outside the support of a prior
                    if rec['iters'] and 'support' in str(e):
                        rec['iters'][-1]['joint'] = ('outside-support', snap(leaves, sym))
                    raise
                ev = (scalar_of(v, sym), snap(leaves, sym), snap_d(derived, sym))
                if rec['init_joint'] is None:
                    rec['init_joint'] = ev
                else:
                    rec['iters'][-1]['joint'] = ev
                return v

        mc.joint = JointRec()
        for k, op in enumerate(ops):
            instrument(op, k, spec['ops'][k][0], rec, st, leaves, sym, derived)
        if hooks:
            hooks(mc, ops, joint, st)
        with st:
            try:
                mc.run()
            except ZeroDivisionError as e:
                import traceback

                tb = traceback.extract_tb(e.__traceback__)[-1]
                rec['crash'] = f'ZeroDivisionError at {os.path.basename(tb.filename)}:{tb.lineno}: {tb.line}'
            except AssertionError as e:
                import traceback

                tb = traceback.extract_tb(e.__traceback__)[-1]
                rec['crash'] = f'AssertionError at {os.path.basename(tb.filename)}:{tb.lineno}: {tb.line}'
            except ValueError as e:
                # torch.distributions argument validation (on by default, never switched off by torchtree)
                rec['crash'] = f'ValueError {str(e).splitlines()[0][:200]}'
        for it, ev in enumerate(rec['iters']):
            ev['u'] = st.u.get(it)
        rec['rows'] = [[scalar_of(c, sym) for c in row] for row in container]
        fn = os.path.join(tmp, 'samples.csv')
        if loggers and loggers[0].f is not None and not loggers[0].f.closed:
            loggers[0].f.close()  # (the run was aborted before MCMC.run closed its loggers)
        if os.path.exists(fn):
            with open(fn) as fh:
                text = fh.read()
            rec['file_rows'] = parse_log(text, sym) if text.strip() else None
        rec['stub_error'] = st.bad
        rec['leaf_order'] = [n for n in leaves]
        rec['derived_logged'] = dlogged
    finally:
        shutil.rmtree(tmp, ignore_errors=True)
    return rec


def instrument(op, k, okind, rec, st, leaves, sym, derived=None):
    real_step, real_accept, real_reject, real_tune = op.step, op.accept, op.reject, op.tune
    derived = derived or {}

    def step():
        ev = {'op': k, 'kind': okind, 'before': snap(leaves, sym), 'before_d': snap_d(derived, sym),
              'tp_before': scalar_of(op.tuning_parameter, sym), 'joint': None, 'accepted': None, 'acc': None}
        rec['iters'].append(ev)
        st.in_step = True
        st.draws = {}
        if okind == 'hmc':
            st.hmc_draws, st.hmc_calls = [], []
            ev['hmc'] = {'M': st.lst(op.mass_matrix)}
            npc = len(cur().pcs) if sym else 0
        try:
            h = real_step()
        finally:
            st.in_step = False
        ev['h'] = scalar_of(h, sym)
        ev['after'] = snap(leaves, sym)
        ev['after_d'] = snap_d(derived, sym)
        ev['draws'] = dict(st.draws)
        if okind == 'hmc':
            ev['hmc'].update(draws=list(st.hmc_draws), calls=list(st.hmc_calls),
                             rg_off=all(p.requires_grad is False for p in op.parameters))
            if sym:
                # the comparison of the energy error with the divergence threshold only prints a message
                t = cur()
                thr = t.dag.const(DIVERGENCE)
                for c in t.pcs[npc:]:
                    a = t.dag.args[c][0] if t.dag.ops[c] == 'not' else c
                    if t.dag.ops[a] in ('lt', 'le') and thr in t.dag.args[a]:
                        rec['assumed_pcs'].append(c)
        return h

    def accept():
        real_accept()
        rec['iters'][-1]['accepted'] = True
        rec['iters'][-1]['post'] = snap(leaves, sym)
        rec['iters'][-1]['post_d'] = snap_d(derived, sym)

    def reject():
        real_reject()
        rec['iters'][-1]['accepted'] = False
        rec['iters'][-1]['post'] = snap(leaves, sym)
        rec['iters'][-1]['post_d'] = snap_d(derived, sym)

    def tune(acceptance_prob, sample, accepted):
        rec['iters'][-1]['acc'] = scalar_of(acceptance_prob, sym)
        rec['iters'][-1]['tune_accepted'] = bool(accepted)
        real_tune(acceptance_prob, sample=sample, accepted=accepted)
        rec['iters'][-1]['tp_after'] = scalar_of(op.tuning_parameter, sym)

    op.step, op.accept, op.reject, op.tune = step, accept, reject, tune


_CELL = re.compile(r'^SymFloat\(.*, #(\d+)\)$')


def parse_log(text, sym):
    """rows of the csv written by the real Logger.  Symbolic scalars are written by csv as
    'SymFloat(<witness>, #<node>)': the node id is read back (formatting = str() of that scalar)."""
    import csv
    import io

    rows = list(csv.reader(io.StringIO(text)))
    out = {'header': rows[0], 'rows': []}
    for r in rows[1:]:
        cells = []
        for c in r[1:]:
            m = _CELL.match(c)
            if m and sym:
                cells.append(int(m.group(1)))
            elif sym:
                cells.append(cur().dag.const(float(c)))
            else:
                cells.append(float(c))
        out['rows'].append((int(r[0]), cells))
    return out


# ------------------------------------------------------------------ domain
def chain_domain(d, spec):
    """constraints on every input symbol that exists in the DAG"""
    cs = []
    kind = spec['target']
    scaled = scaled_coords(spec)
    for name, default, dom in LEAVES[kind]:
        n = len(default)
        if dom == 'simplex':
            ids = [d.var_ids[f'{name}[{i}]'] for i in range(n - 1)]
            acc = 0
            for i in ids:
                cs.append(d.lt(0, i))
                acc = d.add(acc, i)
            cs.append(d.lt(acc, 1))
            continue
        for i in range(n):
            v = d.var_ids[f'{name}[{i}]']
            if dom == 'pos':
                cs.append(d.lt(0, v))
            elif (name, i) in scaled:
                cs.append(d.not_(d.eq(v, 0)))
    V = d.var_ids
    if 'M[0,0]' in V:  # symbolic dense mass matrix: symmetric (one symbol for both off-diagonal entries) positive definite
        cs += [d.lt(0, V['M[0,0]']), d.lt(0, d.sub(d.mul(V['M[0,0]'], V['M[1,1]']), d.mul(V['M[0,1]'], V['M[0,1]'])))]
    cs += [d.lt(0, V[n]) for n in ('M[0]', 'M[1]') if n in V]
    for k, (okind, _) in enumerate(spec['ops']):
        v = d.var_ids[f'tp{k}']
        cs.append(d.lt(0, v))
        if okind == 'scaler':
            cs.append(d.lt(v, 1))
    for name, v in d.var_ids.items():
        if re.match(r'^(u|xi)\d+$', name):
            cs += [d.le(0, v), d.lt(v, 1)]
    ys = {}
    for name, v in d.var_ids.items():
        m = re.match(r'^(y\d+)\[\d+\]$', name)
        if m:
            ys.setdefault(m.group(1), []).append(v)
    for vs in ys.values():
        acc = 0
        for v in vs:
            cs.append(d.lt(0, v))
            acc = d.add(acc, v)
        cs.append(d.lt(acc, 1))
    return cs


def scaled_coords(spec):
    """leaf coordinates a ScalerOperator of the chain can pick (directly or through a view / concatenation)"""
    return {c for okind, pids in spec['ops'] if okind == 'scaler' for p in pids for c in cover(spec['target'], p)}


_DRAW = re.compile(r'^(u|xi)\d+$')
_ZDRAW = re.compile(r'^z\d+_\d+\[\d+\]$')
_YDRAW = re.compile(r'^(y\d+)\[\d+\]$')


def in_domain(spec, vals):
    kind = spec['target']
    scaled = scaled_coords(spec)
    for name, default, dom in LEAVES[kind]:
        n = len(default)
        vs = [vals.get(f'{name}[{i}]', default[i]) for i in range(n - 1 if dom == 'simplex' else n)]
        if dom == 'simplex' and (min(vs) <= 0 or sum(vs) >= 1):
            return False
        if dom == 'pos' and min(vs) <= 0:
            return False
        if dom == 'real' and any(v == 0 for i, v in enumerate(vs) if (name, i) in scaled):
            return False
    if spec.get('hmc', {}).get('mass') == 'sym':
        g = {n: vals.get(n, v) for n, v in M_DEFAULT[spec['hmc']['dense']].items()}
        if spec['hmc']['dense']:
            if g['M[0,0]'] <= 0 or g['M[0,0]'] * g['M[1,1]'] - g['M[0,1]'] ** 2 <= 0:
                return False
        elif min(g.values()) <= 0:
            return False
    for k, (okind, _) in enumerate(spec['ops']):
        v = vals.get(f'tp{k}', TP_DEFAULT[okind])
        if v <= 0 or (okind == 'scaler' and v >= 1):
            return False
    ys = {}
    for name, v in vals.items():
        if _DRAW.match(name) and not (0 <= v < 1):
            return False
        m = _YDRAW.match(name)
        if m:
            ys.setdefault(m.group(1), []).append(v)
    for vs in ys.values():
        if min(vs) <= 0 or sum(vs) >= 1:
            return False
    return True


# ------------------------------------------------------------------ proposal-density oracle (G3)
def sym_abs(d, a):
    return d.ite(d.le(0, a), a, d.neg(a))


def hastings_goal(d, t, ev, it):
    """Abstract statement about the executed proposal code of one step:  h_impl == log q(x|x') - log q(x'|x).
    The pre-step coordinate(s) and the tuning parameter are generalised to fresh variables (the statement is
    then independent of the chain history and is proved once).  Returns dict(hyps, lemmas, goal, frame, note)."""
    kind = ev['kind']
    before, after = ev['before'], ev['after']
    tp = ev['tp_before']
    h = ev['h']
    out = {'frame': True, 'note': ''}
    touched = [(n, j) for n in before for j in range(len(before[n])) if before[n][j] != after[n][j]]
    A = d.var('abs!TP', d.vals[tp])
    if kind in ('scaler', 'slide'):
        xi = ev['draws'].get(f'xi{it}')
        if xi is None or len(touched) > 1:
            out['frame'] = False
            out['note'] = f'coordinates changed by one step: {touched}'
            return out
        if not touched:
            out['frame'] = False
            out['note'] = 'the step did not change any coordinate'
            return out
        n, j = touched[0]
        xj, xpj = before[n][j], after[n][j]
        X = d.var('abs!X', d.vals[xj])
        m = {xj: X, tp: A}
        f_abs, h_abs = subst(d, [xpj, h], m)
        free = set(d.variables([f_abs, h_abs]))
        allowed = {d.args[X][0], d.args[A][0], d.args[xi][0]}
        if not free <= allowed:
            out['frame'] = False
            out['note'] = f'proposal / Hastings term depend on more than (coordinate, tuning parameter, draw): {sorted(free - allowed)}'
            return out
        Jf = d.grad(f_abs, [xi], honour_stops=False)[0]
        if kind == 'scaler':
            # reverse draw: the scale factor 1/s, i.e. xi' = (X/f - A) / (1/A - A)
            xir = d.div(d.sub(d.div(X, f_abs), A), d.sub(d.div(1, A), A))
            dom = [d.not_(d.eq(X, 0)), d.lt(0, A), d.lt(A, 1), d.le(0, xi), d.lt(xi, 1)]
        else:
            xir = d.sub(1, xi)
            dom = [d.lt(0, A), d.le(0, xi), d.lt(xi, 1)]
        back, Jr = subst(d, [f_abs, Jf], {X: f_abs, xi: xir})
        R = d.div(sym_abs(d, Jf), sym_abs(d, Jr))
        out['dom'] = dom
        out['lemmas'] = [('the reverse draw maps the proposed value back to the current value and lies in [0,1]',
                          d.and_(d.eq(back, X), d.le(0, xir), d.le(xir, 1))),
                         ('both Jacobians d x\'/d xi are non-zero (the proposal has a density)',
                          d.and_(d.not_(d.eq(Jf, 0)), d.not_(d.eq(Jr, 0))))]
        # h == log(|J_fwd| / |J_rev|), proved as exp-free statement  R == r  and  h == log(r)
        if kind == 'scaler':
            s = d.div(f_abs, X)
            r = d.div(1, s)
            loglaw = d.or_(d.not_(d.lt(0, s)), d.eq(d.log(r), d.neg(d.log(s))))
            out['lemmas'].append(('density ratio |J_fwd|/|J_rev| == 1/s with s = x\'/x > 0', d.and_(d.eq(R, r), d.lt(0, s))))
            out['goal'] = d.eq(h_abs, d.log(r))
            out['goal_hyps'] = [loglaw, d.lt(0, s)]
        else:
            out['lemmas'].append(('density ratio |J_fwd|/|J_rev| == 1', d.eq(R, 1)))
            out['goal'] = d.eq(h_abs, 0)
            out['goal_hyps'] = []
        out['instance'] = [d.not_(d.eq(xj, 0))] if kind == 'scaler' else []
        out['R'] = R
        return out
    if kind == 'dirichlet':
        y = ev['draws'].get(f'y{it}')
        conc = ev['draws'].get(f'y{it}:conc')
        names = list(before)
        if len(names) != 1 or y is None:
            out['frame'] = False
            out['note'] = 'DirichletOperator harness expects one simplex parameter'
            return out
        x = before[names[0]]
        if after[names[0]] != y:
            out['frame'] = False
            out['note'] = 'the new state is not the Dirichlet draw'
            return out
        K = len(x)
        Xs = [d.var(f'abs!X{k}', d.vals[i]) for k, i in enumerate(x)]
        m = {xi_: X for xi_, X in zip(x, Xs)}
        m[tp] = A
        res = subst(d, conc + [h], m)
        conc_abs, h_abs = res[:K], res[K]
        allowed = {d.args[X][0] for X in Xs} | {d.args[A][0]} | set(d.variables(y))
        free = set(d.variables(conc_abs + [h_abs]))
        if not free <= allowed:
            out['frame'] = False
            out['note'] = f'proposal kernel / Hastings term depend on more than (state, tuning parameter, draw): {sorted(free - allowed)}'
            return out
        conc_rev = subst(d, conc_abs, {X: yi for X, yi in zip(Xs, y)})

        def logdir(v, alpha):
            s = 0
            for a in alpha:
                s = d.add(s, a)
            acc = d.uf('lgamma', s)
            for a, vi in zip(alpha, v):
                acc = d.sub(acc, d.uf('lgamma', a))
                acc = d.add(acc, d.mul(d.sub(a, 1), d.log(vi)))
            return acc

        h_true = d.sub(logdir(Xs, conc_rev), logdir(y, conc_abs))
        sx = 0
        for X in Xs:
            sx = d.add(sx, X)
        sy = 0
        for yi in y[:-1]:
            sy = d.add(sy, yi)
        out['dom'] = [d.lt(0, A), d.eq(sx, 1), d.lt(sy, 1)] + [d.lt(0, X) for X in Xs] + [d.lt(0, yi) for yi in y[:-1]]
        out['lemmas'] = []
        out['goal'] = d.eq(h_abs, h_true)
        out['goal_hyps'] = []
        out['instance'] = []
        return out
    if kind == 'hmc':
        return hmc_hastings_goal(d, t, ev, it, out)
    raise KeyError(kind)


def kinetic(d, p, sigma, sym=True):
    """K(p) = p^T Sigma^-1 p / 2 for the covariance Sigma of the momentum (n <= 2: closed-form inverse; any n if diagonal);
    sym=False: the same formula on floats"""
    n = len(p)
    if sym:
        add, sub, mul, div, half = d.add, d.sub, d.mul, d.div, d.const(0.5)
    else:
        add, sub, mul, div, half = (lambda a, b: a + b), (lambda a, b: a - b), (lambda a, b: a * b), (lambda a, b: a / b), 0.5
    diag = all(sigma[i][j] == 0 for i in range(n) for j in range(n) if i != j)
    if diag:
        acc = 0
        for i in range(n):
            acc = add(acc, div(mul(p[i], p[i]), sigma[i][i]))
        return mul(half, acc)
    if n != 2:
        raise NotImplementedError('dense momentum covariance of dimension > 2')
    det = sub(mul(sigma[0][0], sigma[1][1]), mul(sigma[0][1], sigma[1][0]))
    q = add(sub(sub(mul(mul(p[0], p[0]), sigma[1][1]), mul(mul(p[0], p[1]), sigma[0][1])), mul(mul(p[1], p[0]), sigma[1][0])),
            mul(mul(p[1], p[1]), sigma[0][0]))
    return mul(half, div(q, det))


def spd_conditions(d, sigma):
    n = len(sigma)
    if all(sigma[i][j] == 0 for i in range(n) for j in range(n) if i != j):
        return [d.lt(0, sigma[i][i]) for i in range(n)]
    return [d.lt(0, sigma[0][0]), d.lt(0, d.sub(d.mul(sigma[0][0], sigma[1][1]), d.mul(sigma[0][1], sigma[1][0]))),
            d.eq(sigma[0][1], sigma[1][0])]


def as_matrix(M, zero=0):
    """mass matrix parameter value (vector = diagonal) as a square nested list"""
    if M and not isinstance(M[0], list):
        return [[M[i] if i == j else zero for j in range(len(M))] for i in range(len(M))]
    return M


def contract_rows(t):
    """hypotheses delivered by the contract stubs executed so far (inverse, cholesky, cholesky_inverse)"""
    hy = []
    for c in getattr(t, 'contracts', []):
        if c['kind'] in ('inverse', 'cholesky_inverse'):
            hy += list(c['left'].values()) + list(c['right'].values())
        elif c['kind'] == 'cholesky':
            hy += list(c['rows'].values()) + list(c['positive'])
    return hy


def hmc_hastings_goal(d, t, ev, it, out):
    """HMC as a Metropolis-Hastings proposal on (q, p): the momentum is drawn from N(0, Sigma), the trajectory is the
    deterministic volume-preserving reversible map of C16, so  log q(rev) - log q(fwd) = log N(p_end; 0, Sigma) -
    log N(p_start; 0, Sigma) = K(p_start) - K(p_end),  K(p) = p^T Sigma^-1 p / 2  with Sigma the covariance the momentum WAS
    DRAWN FROM.  The statement is proved for arbitrary start / end momenta (p_start, p_end generalised to fresh variables)."""
    hm = ev['hmc']
    calls, draws = hm['calls'], hm['draws']
    good = [c for c in calls if c['pout'] is not None]
    if not good or not draws or not (1 <= good[-1]['ndraws'] <= len(draws)):
        out['frame'] = False
        out['note'] = 'no completed leapfrog trajectory / no momentum draw in a step that returned a finite Hastings term'
        return out
    c = good[-1]
    last = draws[c['ndraws'] - 1]
    pin, pout = unstop(d, c['pin']), unstop(d, c['pout'])
    sigma = [unstop(d, r) for r in last['Sigma']]
    Mp = [unstop(d, r) for r in as_matrix(hm['M'])]
    n = len(pin)
    A = [d.var(f'abs!P{i}', d.vals[x]) for i, x in enumerate(pin)]
    C = [d.var(f'abs!Q{i}', d.vals[x]) for i, x in enumerate(pout)]
    m = {}
    for x, v in zip(pout, C):
        m[x] = v
    for x, v in zip(pin, A):
        m.setdefault(x, v)
    h_abs = subst(d, unstop(d, [ev['h']]), m)[0]
    h_true = d.sub(kinetic(d, A, sigma), kinetic(d, C, sigma))
    fresh = d.bconst(len(draws) == len(calls) and c['ndraws'] == len(draws) and pin == unstop(d, last['p']))
    law = d.and_(*[d.eq(sigma[i][j], Mp[i][j]) for i in range(n) for j in range(n)])
    spd = spd_conditions(d, Mp)
    out['lemmas'] = [('every leapfrog trajectory starts from a fresh momentum draw (one draw per attempt, the integrator is handed the latest)',
                      fresh, 'HMCOperator._step:momentum-not-redrawn'),
                     ('the momentum is drawn from N(0, M) with M the value of the mass matrix parameter at the step', law,
                      'Hamiltonian.sample_momentum:law')]
    out['goal'] = d.eq(h_abs, h_true)
    out['goal_hyps'] = []
    out['instance'] = []
    out['chain_lemmas'] = False  # the Hastings statement is about the covariance actually used for the draw, whatever it is
    hy = spd_conditions(d, sigma) + spd + contract_rows(t)
    out['dom'] = hy + ground_axioms(d, [law, out['goal']] + hy)
    out['goal_label'] = ('Hastings term == K(p_start) - K(p_end), K(p) = p^T M^-1 p / 2 for the M the momentum was drawn from '
                         '(= log N(p_end; 0, M) - log N(p_start; 0, M))')
    return out


# ------------------------------------------------------------------ symbolic run -> goals
class Run:
    pass


def symbolic_run(spec, W, hooks=None):
    """one symbolic execution of the chain at witness W; returns Run (keeps its trace alive)"""
    r = Run()
    with tracing() as t:
        r.t, r.d = t, t.dag
        r.rec = execute(spec, W, True, hooks)
        r.npc_run = len(t.pcs)
        r.pcs = list(t.pcs)
        r.dom = chain_domain(t.dag, spec) + contract_rows(t)
        r.W = {n: t.dag.vals[i] for n, i in t.dag.var_ids.items() if '!' not in n}
        r.V = {n: i for n, i in t.dag.var_ids.items() if '!' not in n}
        r.concretized = list(t.concretized)
        r.nchecked = t.nchecked
        r.dens = list(t.denominators)
        r.doms = list(t.domains)
    return r


def path_key(run, canon):
    d = run.d
    key = []
    for c in run.pcs:
        pol = True
        a = c
        if d.ops[a] == 'not':
            a, pol = d.args[a][0], False
        key.append((canon(a), pol))
    return tuple(key)


def build_goals(run, spec):
    """goals of one explored path; executed with the run's trace active (fresh model evaluations add nodes)"""
    d, t, rec = run.d, run.t, run.rec
    kind = spec['target']
    goals = []  # dicts: label, node, hyps ('full' | list), sig, abstract(bool)

    def G(label, node, sig, hyps='full', extra=(), key=None):
        goals.append({'label': label, 'node': node, 'sig': sig, 'hyps': hyps, 'extra': list(extra), 'key': key})

    def same(a, b):
        return d.bconst(a == b)

    has_derived = bool(derived_spec(kind))

    def reads(snapshot, state):
        """every derived parameter (view / concatenation / transform) reads exactly the given leaf state"""
        want = derive(kind, state, True)
        return same(snapshot, {n: unstop(d, v) for n, v in want.items()})

    ij = rec['init_joint']
    T_init = fresh_eval(kind, rec['init_state'])
    G('initial density == target evaluated from scratch at the initial state',
      d.and_(d.eq(ij[0], T_init), same(ij[1], rec['init_state'])), 'MCMC.run:initial-density')
    if has_derived:
        G('initially every derived parameter reads the leaves', d.and_(reads(rec['init_d'], rec['init_state']), reads(ij[2], rec['init_state'])),
          'derived-parameter:initial')
    cur_state = rec['init_state']
    for it, ev in enumerate(rec['iters']):
        tag = f'iter {it + 1} [{ev["kind"]}]: '
        opname = OPCLS[ev['kind']]
        G(tag + 'the operator starts from the chain\'s current state', same(ev['before'], cur_state), 'MCMC.run:state-continuity')
        if has_derived:
            G(tag + 'before the step every parameter reachable from the target (views, concatenations, transforms) reads the chain\'s current state',
              reads(ev['before_d'], cur_state), 'MCMC.run:state-continuity-derived')
            G(tag + 'after the step every derived parameter reads the proposed state', reads(ev['after_d'], ev['after']),
              f'{opname}._step:derived-parameter-stale')
        hg = hastings_goal(d, t, ev, it)
        run.hg = getattr(run, 'hg', []) + [hg]
        if not hg['frame']:
            G(tag + 'proposal changes one coordinate as a function of (coordinate, tuning parameter, draw): ' + hg['note'],
              d.FALSE, f'{opname}._step:proposal-frame')
        else:
            for lem in hg['lemmas']:
                G(tag + lem[0], lem[1], lem[2] if len(lem) > 2 else f'{opname}._step:hastings-ratio', hyps=hg['dom'], key='abs')
            G(tag + hg.get('goal_label', 'Hastings term == log q(x|x\') - log q(x\'|x) of the executed proposal'), hg['goal'],
              f'{opname}._step:hastings-ratio',
              hyps=hg['dom'] + hg['goal_hyps'] + ([lem[1] for lem in hg['lemmas']] if hg.get('chain_lemmas', True) else []), key='abs')
            if ev['kind'] == 'hmc':
                G(tag + 'requires_grad is switched off on every parameter of the operator when step() returns',
                  d.bconst(ev['hmc']['rg_off']), 'HMCOperator._step:requires-grad')
            # a zero coordinate is a fixed point of the scale move (no density): excluded from the domain
            run.dom = run.dom + list(hg['instance'])
        T0 = fresh_eval(kind, ev['before'])
        if ev['joint'] is not None and ev['joint'][0] == 'outside-support':
            # The validating prior refused the proposed state.  The target density is zero there; it is NOT evaluated
            # through the distribution.  Independent support specification (LEAVES): a 'pos' coordinate is negative /
            # a simplex coordinate is not positive.  The support test is a path condition of this region.
            viol = []
            for n, _, dom in LEAVES[kind]:
                for c in ev['after'][n]:
                    if dom == 'pos':
                        viol.append(d.lt(c, 0))
                    elif dom == 'simplex':
                        viol.append(d.le(c, 0))
            G(tag + 'the prior refused the proposal only because it is outside the support (target density zero)',
              d.and_(d.or_(*viol) if viol else d.FALSE, same(ev['joint'][1], ev['after'])), 'MCMC.run:spurious-support-rejection')
            G(tag + 'a proposal outside the support of a validated prior is rejected, tune() sees probability 0 and the run continues',
              d.and_(d.bconst(ev['accepted'] is False), d.bconst(ev['acc'] is not None and ev['acc'] != 'nonfinite'),
                     d.eq(ev['acc'], 0) if isinstance(ev['acc'], int) else d.FALSE, d.bconst(ev.get('post') is not None)),
              'MCMC.run:proposal-outside-support-not-rejected')
        elif ev['joint'] is None or ev['joint'][0] == 'nonfinite' or ev['h'] == 'nonfinite':
            # guard branches (non-finite Hastings term / density): the move must be rejected
            G(tag + 'a non-finite Hastings term or density rejects the move', d.bconst(ev['accepted'] is False),
              'MCMC.run:nonfinite-guard')
            # the value handed to tune() belongs to THIS iteration's proposal: rejected by the guard => probability 0
            # (not the acceptance probability left over from an earlier iteration, possibly of another operator)
            G(tag + 'a proposal rejected by the non-finite guard hands tune() the acceptance probability 0 (not a value of an earlier iteration)',
              d.and_(d.bconst(ev['acc'] is not None and ev['acc'] != 'nonfinite'),
                     d.eq(ev['acc'], 0) if isinstance(ev['acc'], int) else d.FALSE),
              'MCMC.run:guard-reject-stale-acceptance-probability')
        else:
            T1 = fresh_eval(kind, ev['after'])
            G(tag + 'density used for the proposal == target evaluated from scratch at the proposed state',
              d.and_(d.eq(ev['joint'][0], T1), same(ev['joint'][1], ev['after']),
                     reads(ev['joint'][2], ev['after']) if has_derived else d.TRUE), 'MCMC.run:proposal-density-stale')
            u = ev['u']
            la = d.add(d.sub(T1, T0), ev['h'])
            E = d.exp(la)
            A_true = d.ite(d.lt(E, 1), E, 1)
            ax = ground_axioms(d, [E])
            if u is None:
                G(tag + 'a uniform draw decides acceptance', d.FALSE, 'MCMC.run:acceptance-rule')
            else:
                dec = d.lt(u, A_true)
                G(tag + ('accepted' if ev['accepted'] else 'rejected') + ' <=> u < min(1, exp(T(x\') - T(x) + h))',
                  dec if ev['accepted'] else d.not_(dec), 'MCMC.run:acceptance-rule', extra=ax)
            G(tag + 'acceptance probability handed to tune() == min(1, exp(T(x\') - T(x) + h))',
              d.eq(ev['acc'], A_true), 'MCMC.run:acceptance-probability', extra=ax)
        G(tag + 'tune() is told the decision that was taken', d.bconst(ev.get('tune_accepted') == ev['accepted']),
          'MCMC.run:tune-arguments')
        if ev['accepted']:
            G(tag + 'after accept() the state is the proposal', same(ev['post'], ev['after']), f'{opname}.accept:state')
            cur_state = ev['after']
            if has_derived:
                G(tag + 'after accept() every derived parameter keeps the proposed expressions',
                  d.and_(same(ev['post_d'], ev['after_d']), reads(ev['post_d'], cur_state)), f'{opname}.accept:state-derived')
        else:
            G(tag + 'after reject() every parameter is bit-identical (same expressions) to its value before the proposal',
              same(ev['post'], ev['before']), f'{opname}.reject:restore')
            cur_state = ev['before']
            if has_derived:
                G(tag + 'after reject() every parameter reachable from the target (views, concatenations, transforms) is bit-identical '
                  '(same expressions) to its value before the proposal',
                  d.and_(same(ev['post_d'], ev['before_d']), reads(ev['post_d'], cur_state)), f'{opname}.reject:restore-derived')
        # tuning keeps the tuning parameter inside its domain
        tpa = ev.get('tp_after')
        if tpa is not None:
            okd = d.lt(0, tpa) if ev['kind'] != 'scaler' else d.and_(d.lt(0, tpa), d.lt(tpa, 1))
            G(tag + 'tune() keeps the tuning parameter inside its domain', okd, f'{opname}.tune:domain',
              extra=ground_axioms(d, [tpa]))
    # loggers
    order = rec['leaf_order']
    for src, rows in (('ContainerLogger', rec['rows']), ('Logger', [c for _, c in (rec['file_rows'] or {'rows': []})['rows']])):
        if not spec.get('loggers', True):
            continue
        ok_n = len(rows) == len(rec['iters']) + 1
        G(f'{src}: the initial row plus one row per iteration', d.bconst(ok_n), f'{src}.log:rows')
        states = [rec['init_state']] + [ev['post'] for ev in rec['iters']]
        for k, (row, stt) in enumerate(zip(rows, states)):
            dens, cells = row[0], row[1:]
            logged = {}
            pos = 0
            for n in order:
                logged[n] = [strip_stop(d, c) for c in cells[pos:pos + len(stt[n])]]
                pos += len(stt[n])
            Tl = fresh_eval(kind, logged, nograd=False)
            G(f'{src} row {k}: logged density == target at the logged parameter values, which are the chain state',
              d.and_(d.eq(dens, Tl), same(logged, stt)), f'{src}.log:row-self-consistent')
            if rec['derived_logged']:
                want = derive(kind, logged, True)
                got = {}
                for n in rec['derived_logged']:
                    got[n] = unstop(d, cells[pos:pos + len(want[n])])
                    pos += len(want[n])
                G(f'{src} row {k}: the logged derived parameters (views, concatenations, transforms) are those of the logged leaves, no further cells',
                  d.and_(same(got, {n: unstop(d, want[n]) for n in got}), d.bconst(pos == len(cells))),
                  f'{src}.log:row-self-consistent-derived')
    if rec['file_rows'] is not None:
        hdr = ['sample', 'joint'] + [f'{n}.{i}' for n in order for i in range(len(rec['init_state'][n]))]
        dinit = derive(kind, rec['init_state'], True)
        hdr += [f'{n}.{i}' for n in rec['derived_logged'] for i in range(len(dinit[n]))]
        G('Logger header names the logged columns', d.bconst(rec['file_rows']['header'] == hdr), 'Logger.initialize:header')
    return goals


def approx_true(d, c, tol=1e-9):
    """truth of a boolean node at the DAG's witness values, equalities / inequalities up to rounding"""
    op, a = d.ops[c], d.args[c]
    if op == 'bconst':
        return bool(a[0])
    if op == 'not':
        inner = a[0]
        if d.ops[inner] in ('eq', 'lt', 'le'):
            return not d.vals[inner]
        return not approx_true(d, inner, tol)
    if op == 'and':
        return all(approx_true(d, x, tol) for x in a)
    if op == 'or':
        return any(approx_true(d, x, tol) for x in a)
    x, y = d.vals[a[0]], d.vals[a[1]]
    if isinstance(x, float) and isinstance(y, float) and (math.isnan(x) or math.isnan(y)):
        return False
    scale = tol * max(1.0, abs(x), abs(y))
    if op == 'eq':
        return abs(x - y) <= abs(scale)
    if op == 'le':
        return x <= y + scale
    if op == 'lt':
        return x < y + scale
    raise KeyError(op)


def well_defined(run, strict=True):
    """denominators / log arguments of the REAL run (snapshot taken before the oracle added its own nodes).
    strict=False admits log arguments that are exactly 0 (a proposal landing exactly on the boundary of the
    support: the real code computes log(0) = -inf and its non-finite guard rejects; probability zero)."""
    d = run.d
    obl = [d.not_(d.eq(b, 0)) for b in run.dens]
    obl += [d.lt(0, x) if (k == 'pos' and strict) else d.le(0, x) for k, x in run.doms]
    return obl


# ------------------------------------------------------------------ chain task
def witness_grid(spec):
    N = len(spec['plan'])
    opts = []
    names = []
    for it, (k, _, _) in enumerate(spec['plan']):
        okind = spec['ops'][k][0]
        names.append(f'u{it}')
        opts.append([0.02, 0.985])
        if okind == 'dirichlet':
            names.append(f'ydraw{it}')
            opts.append(['near', 'far'])
        elif okind == 'hmc':
            # the sign of the energy error (min(0, log alpha) branch) depends on the direction of the momentum relative to the position
            names.append(f'zscale{it}')
            opts.append([1.0, -1.0])
        else:
            names.append(f'xi{it}')
            opts.append([0.12, 0.88])
    for combo in itertools.product(*opts):
        W = {}
        for n, v in zip(names, combo):
            if n.startswith('ydraw'):
                it = n[5:]
                pts = {'near': [0.22, 0.31], 'far': [0.6, 0.3]}[v]
                for i, p in enumerate(pts):
                    W[f'y{it}[{i}]'] = p
            elif n.startswith('zscale'):
                for i, p in enumerate([0.7, -0.5]):
                    W[f'z{n[6:]}_0[{i}]'] = p * v
            else:
                W[n] = v
        yield W


def compile_eval(d, roots):
    """d.evaluate(roots, env) for many environments: the topological order is computed once and the DAG below the roots
    is turned into one straight-line python function (same semantics as DAG.evaluate, floats)"""
    order = d.topo(roots)
    consts, funcs, lines = [], [], []
    for n in order:
        op, a = d.ops[n], d.args[n]
        if op == 'const':
            consts.append(float(a[0]))
            rhs = f'C[{len(consts) - 1}]'
        elif op == 'var':
            rhs = f'float(env[{a[0]!r}])'
        elif op == 'add':
            rhs = f'v{a[0]} + v{a[1]}'
        elif op == 'mul':
            rhs = f'v{a[0]} * v{a[1]}'
        elif op == 'div':
            rhs = f'(v{a[0]} / v{a[1]} if v{a[1]} != 0 else NAN)'
        elif op == 'ipow':
            rhs = f'v{a[0]} ** {int(a[1])}'
        elif op == 'stop':
            rhs = f'v{a[0]}'
        elif op == 'ite':
            rhs = f'(v{a[1]} if v{a[0]} else v{a[2]})'
        elif op == 'uf':
            f = d.uf_eval.get(a[0])
            if f is None:
                return lambda rs, env: d.evaluate(rs, env)
            funcs.append(f)
            rhs = f'F[{len(funcs) - 1}](' + ', '.join(f'float(v{x})' for x in a[1:]) + ')'
        elif op == 'le':
            rhs = f'v{a[0]} <= v{a[1]}'
        elif op == 'lt':
            rhs = f'v{a[0]} < v{a[1]}'
        elif op == 'eq':
            rhs = f'v{a[0]} == v{a[1]}'
        elif op == 'and':
            rhs = '(' + ' and '.join(f'v{c}' for c in a) + ')' if a else 'True'
        elif op == 'or':
            rhs = '(' + ' or '.join(f'v{c}' for c in a) + ')' if a else 'False'
        elif op == 'not':
            rhs = f'(not v{a[0]})'
        elif op == 'bconst':
            rhs = repr(bool(a[0]))
        else:
            return lambda rs, env: d.evaluate(rs, env)
        lines.append(f'    v{n} = {rhs}')
    lines.append('    return {' + ', '.join(f'{r}: v{r}' for r in dict.fromkeys(roots)) + '}')
    ns = {'C': consts, 'F': funcs, 'NAN': math.nan}
    exec('def _f(env):\n' + '\n'.join(lines), ns)
    fn = ns['_f']
    return lambda rs, env: fn(env)


def find_flip(run, i, spec, rng, trials=600):
    """an in-domain input on which the recorded path prefix pcs[:i] holds and decision i goes the other way
    (the recorded expressions are evaluated with the true exp / log / lgamma and the witness function of U)"""
    d = run.d
    roots = run.pcs[:i + 1]
    # (the symbols of the mass matrix and of the contract stubs computed from it keep their witness values)
    names = [n for n in d.variables(roots) if '!' not in n and not n.startswith('M[')]
    base = {n: d.vals[i_] for n, i_ in d.var_ids.items()}
    base.update(run.W)
    kind = spec['target']
    simplex = {n for n, _, dom in LEAVES[kind] if dom == 'simplex'}
    if not names:
        return None
    evaluate = compile_eval(d, roots)
    # the draws of the latest iteration the decision reads: changing only them keeps the decisions of the earlier iterations
    its = {n: int(re.search(r'\d+', n).group()) for n in names if _DRAW.match(n) or _ZDRAW.match(n)}
    fresh = [n for n in its if its[n] == max(its.values())] if any(_ZDRAW.match(n) for n in its) else []
    for trial in range(-150 if fresh else 0, trials):
        env = dict(base)
        if trial < 0:
            for n in fresh:
                if _DRAW.match(n):
                    env[n] = rng.choice([rng.random(), rng.random() ** 3, 1 - rng.random() ** 3])
                else:
                    env[n] = rng.gauss(0.0, 1.0) * rng.choice([0.2, 1.0, 2.5])
        for n in (names if trial >= 0 else ()):
            stem = n.split('[')[0]
            if _DRAW.match(n):
                env[n] = rng.choice([rng.random(), rng.random() ** 3, 1 - rng.random() ** 3])
            elif _ZDRAW.match(n):
                if trial % 2:
                    env[n] = rng.gauss(0.0, 1.0) * rng.choice([0.2, 1.0, 2.5])  # a standard normal draw, several scales
            elif re.match(r'^y\d+$', stem) or stem in simplex:
                pass
            elif n.startswith('tp'):
                if trial > trials // 2:
                    env[n] = base[n] * rng.uniform(0.7, 1.3)  # (in_domain() below filters)
            elif trial > trials // 3:
                env[n] = base[n] * rng.uniform(0.5, 1.6)
        groups = {}
        for n in base:
            stem = n.split('[')[0]
            if re.match(r'^y\d+$', stem) or (stem in simplex and trial > trials // 3):
                groups.setdefault(stem, []).append(n)
        for stem, ns in groups.items():
            k = len(ns) + 1
            mode = rng.random()
            if mode < 0.4 and stem.startswith('y'):
                # near the current state
                ref = [base.get(f'x[{j}]', 1.0 / k) for j in range(k - 1)]
                g = [max(1e-3, r * rng.uniform(0.8, 1.25)) for r in ref]
                tot = sum(g) + max(1e-3, (1 - sum(ref)) * rng.uniform(0.8, 1.25))
            else:
                g = [rng.gammavariate(rng.choice([0.5, 1.0, 3.0]), 1.0) + 1e-6 for _ in range(k - 1)]
                tot = sum(g) + rng.gammavariate(1.0, 1.0) + 1e-6
            for n_, gv in zip(sorted(ns), g):
                env[n_] = gv / tot
        if not in_domain(spec, env):
            continue
        try:
            ev = evaluate(roots, env)
        except (ValueError, OverflowError, ZeroDivisionError):
            continue
        if all(ev[c] for c in roots[:-1]) and not ev[roots[-1]]:
            return {n: v for n, v in env.items() if '!' not in n}
    # phase 2: greedy walk that pushes the comparison of decision i towards its other side while the prefix keeps holding
    a = roots[-1]
    sign = 1.0
    if d.ops[a] == 'not':
        a, sign = d.args[a][0], -1.0
    if d.ops[a] not in ('lt', 'le'):
        return None
    lhs, rhs = d.args[a]
    env = dict(base)
    best = None
    evaluate2 = compile_eval(d, roots + [lhs, rhs])
    for step in range(4000):
        cand = dict(env)
        n = rng.choice(names)
        if _DRAW.match(n):
            cand[n] = min(0.999999, max(0.0, cand[n] + rng.gauss(0, 0.2)))
        elif '[' in n and (re.match(r'^y\d+$', n.split('[')[0]) or n.split('[')[0] in simplex):
            cand[n] = cand[n] * math.exp(rng.gauss(0, 0.3))
        else:
            cand[n] = cand[n] * math.exp(rng.gauss(0, 0.25)) + rng.gauss(0, 0.02)
        if not in_domain(spec, cand):
            continue
        try:
            ev = evaluate2(roots + [lhs, rhs], cand)
        except (ValueError, OverflowError, ZeroDivisionError):
            continue
        if not all(ev[c] for c in roots[:-1]):
            continue
        if not ev[roots[-1]]:
            return {n_: v for n_, v in cand.items() if '!' not in n_}
        m = sign * (ev[lhs] - ev[rhs])  # to be increased
        if m != m:
            continue
        if best is None or m >= best:
            best, env = m, cand
    return None


def chain_task(task, tr):
    from torchtree.core.logger import ContainerLogger, Logger
    from torchtree.inference.mcmc import operator as opmod
    from torchtree.inference.mcmc.mcmc import MCMC

    spec = task['spec']
    label = task['label']
    tr.fn(MCMC.run, MCMC.__init__, opmod.MCMCOperator.step, opmod.MCMCOperator.accept, opmod.MCMCOperator.reject,
          opmod.MCMCOperator.tune, Logger.log, Logger.initialize, ContainerLogger.log)
    for okind, _ in spec['ops']:
        if okind == 'hmc':
            from torchtree.inference.hmc.hamiltonian import Hamiltonian
            from torchtree.inference.hmc.integrator import LeapfrogIntegrator
            from torchtree.inference.hmc.operator import HMCOperator

            tr.fn(HMCOperator._step, HMCOperator.__init__, HMCOperator.update_mass_matrices, HMCOperator.handle_parameter_changed,
                  HMCOperator._load_state_dict, HMCOperator.from_json, HMCOperator.set_adaptable_parameter, HMCOperator.tune,
                  Hamiltonian.sample_momentum, Hamiltonian.kinetic_energy, Hamiltonian.potential_energy, LeapfrogIntegrator.__call__)
            tr.stubs |= set(Stubs.HMC_LIST)
            tr.assumptions.add('HMC chains: the leapfrog map itself (reversible, volume preserving) is the subject of C16; the energy error '
                               f'stays below the divergence threshold {DIVERGENCE} (beyond it the operator only prints a message)')
            continue
        cls = getattr(opmod, OPCLS[okind])
        tr.fn(cls._step, cls.set_adaptable_parameter, cls.from_json)
    if derived_spec(spec['target']):
        from torchtree.core.parameter import CatParameter, TransformedParameter, ViewParameter

        if view_kind(spec['target']):
            tr.fn(ViewParameter.from_json, ViewParameter.tensor.fget, ViewParameter.tensor.fset)
        if 'catop' in spec['target']:
            tr.fn(CatParameter.tensor.fget, CatParameter.tensor.fset, CatParameter.update, CatParameter.handle_parameter_changed)
    if not spec['target'].startswith('uf'):
        from torchtree.core.parameter import CatParameter, TransformedParameter
        from torchtree.distributions.distributions import Distribution
        from torchtree.distributions.joint_distribution import JointDistributionModel

        tr.fn(Distribution.log_prob, Distribution.from_json, JointDistributionModel.log_prob)
        if spec['target'] == 'cat':
            tr.fn(CatParameter.update, CatParameter.handle_parameter_changed)
        if spec['target'] == 'exptr':
            tr.fn(TransformedParameter.__call__, TransformedParameter.handle_parameter_changed, TransformedParameter._apply_transform)
    tr.stubs |= set(Stubs.LIST)
    runs = {}
    order = []
    canon_cache = {}
    proved_abs = {}
    mutate = task.get('hooks')

    def explore(W):
        run = symbolic_run(spec, W, mutate)
        tr.witness_runs += 1
        tr.ops_checked += run.nchecked
        cn = Canon(run.d)
        key = path_key(run, cn)
        run.canon = cn
        if key in runs:
            return None
        runs[key] = run
        order.append(key)
        return run

    for W in witness_grid(spec):
        explore(W)
    # ---- coverage: every missing sibling of every explored path is infeasible (or gets explored)
    pending = list(order)
    checked = set()
    import random

    rng = random.Random(15)
    while pending:
        key = pending.pop(0)
        run = runs[key]
        d = run.d
        for i in range(len(key)):
            sib = key[:i] + ((key[i][0], not key[i][1]),)
            if sib in checked or any(k[:i + 1] == sib for k in runs):
                continue
            if run.pcs[i] in run.rec['assumed_pcs']:
                continue  # stated assumption (energy error below the divergence threshold): the other side is outside the domain
            checked.add(sib)
            # 1. concrete search (true exp/log/lgamma/U on the recorded expressions) for an input that takes the other branch
            W2 = find_flip(run, i, spec, rng)
            if W2 is not None:
                new_run = explore(W2)
                if new_run is not None and any(k[:i + 1] == sib for k in runs):
                    pending.append(order[-1])
                    continue
            # 2. otherwise the other branch must be infeasible
            neg = d.not_(run.pcs[i])
            st = None
            # most infeasible branches are local facts (argument validation, the assert in tune()): try few hypotheses first
            inner = {n for n in d.topo([run.pcs[i]]) if d.ops[n] in ('add', 'mul', 'div', 'uf', 'ite', 'ipow')}
            related = [c for c in run.pcs[:i] if inner & set(d.topo([c]))]
            # (the last, long attempt is only reached when everything else timed out, e.g. on a heavily loaded machine)
            stages = ([(related, 8)] if len(related) < i else []) + [(run.pcs[:i], 25), ([], 10), (run.pcs[:i], 120)]
            for prefix, to in stages:
                hy = run.dom + prefix + [neg] + ground_axioms(d, prefix + [run.pcs[i]], monotone=True)
                st, r, _ = prove(d, hy, d.FALSE, timeout=to, tr=tr, label='sibling infeasible', parallel=True)
                if os.environ.get('C15_DEBUG') and r is not None and r.secs > 3:
                    print('slow sibling', round(r.secs, 1), st, len(prefix), d.to_str(run.pcs[i], 4)[:200])
                if st == 'proved':
                    break
            if st == 'proved':
                continue
            tr.inconc(f'{label}: no coverage certificate: the branch opposite to "{d.to_str(run.pcs[i], 5)}" '
                      f'(decision {i} of a path) is neither explored nor proved infeasible ({st})')
            return
    tr.closures += 1
    # ---- goals on every explored path
    reported = set()
    for key in order:
        run = runs[key]
        d = run.d
        rec = run.rec
        tr.regions += 1
        if run.concretized:
            tr.inconc(f'{label}: symbolic value concretised: {run.concretized[:3]}')
            continue
        if rec['stub_error']:
            tr.inconc(f'{label}: harness: {rec["stub_error"]}')
            continue
        if rec['crash']:
            final = 'ZeroDivisionError' in rec['crash'] and 'op._accept' in rec['crash']
            if final:
                sig = 'MCMC.run:final-summary-divides-by-zero-when-an-operator-was-never-selected'
                what = 'MCMC.run raises after the last iteration (loggers already closed)'
            elif rec['crash'].startswith('ValueError') and 'support' in rec['crash']:
                sig = 'MCMC.run:raises-ValueError-when-a-proposal-leaves-the-support-of-a-validated-prior'
                what = ('MCMC.run aborts instead of rejecting a proposal outside the support of a torch.distributions prior '
                        '(density 0 => the move must be rejected and the parameters restored)')
            else:
                sig = 'MCMC.run:raises-' + rec['crash'].split(' ')[0]
                what = 'MCMC.run raises'
            if final:
                # the end-of-run summary print divides by (accept + reject) of each operator: a crash AFTER the last
                # transition, outside the statement of C15 (every transition / logged row); recorded as a note only
                if sig not in reported:
                    reported.add(sig)
                    tr.notes.append(f'{label}: {what} (outside the property: not a transition)')
            elif sig not in reported:
                reported.add(sig)
                ok, detail = replay_chain(spec, run.W, focus='crash')
                if ok:
                    tr.violation(sig, f'{label}: {what}: {detail}', {'kind': 'chain', 'spec': spec, 'values': run.W})
                else:
                    tr.inconc(f'{label}: symbolic run crashed ({rec["crash"]}) but the concrete replay did not: {detail}')
            if not final:
                continue  # the run was aborted in the middle of an iteration: nothing further to check on this path
        with tracing(run.t):
            goals = build_goals(run, spec)
            wd = well_defined(run)
        if wd:
            allok = d.and_(*wd)
            weak = d.and_(*well_defined(run, strict=False))
            goals.append({'label': 'every denominator is non-zero and every log / lgamma argument is positive', 'node': allok,
                          'sig': 'well-defined', 'hyps': 'full', 'extra': ground_axioms(d, [allok]), 'key': None, 'alt': weak})
        full = run.dom + run.pcs
        varids = list(run.V.values())
        if len(tr.samples) < 3:
            tr.sample({'case': label, 'witness': {k: round(v, 4) for k, v in run.W.items()},
                       'path_conditions': [d.to_str(c, 5) for c in run.pcs[:6]],
                       'decisions': [ev['accepted'] for ev in rec['iters']],
                       'goals': [g['label'] for g in goals][:8]})
        for g in goals:
            node = g['node']
            if g['key'] == 'abs':
                ck = (run.canon(node), tuple(sorted(run.canon(h) for h in g['hyps'])))
                if ck in proved_abs:
                    continue
                hy = list(g['hyps'])
                # the generalised statement must not be vacuous: its hypotheses hold (up to rounding) at the witness
                bad = [h for h in hy if not approx_true(d, h)]
                if bad:
                    tr.inconc(f'{label}: hypotheses of "{g["label"]}" do not hold at the witness (harness error): {d.to_str(bad[0], 5)}')
                    continue
            else:
                hy = full + list(g['extra'])
            st, r, _ = prove(d, hy, node, timeout=30, get_values=varids, tr=tr, label=g['label'], parallel=True)
            if os.environ.get('C15_DEBUG'):
                print(f'  goal [{st}] {round(r.secs, 2) if r is not None else "-"}s {g["label"][:150]}')
            if st != 'proved' and g.get('alt') is not None:
                st2, _, _ = prove(d, hy, g['alt'], timeout=30, tr=tr, label=g['label'] + ' (or exactly zero)')
                if st2 == 'proved':
                    st = 'proved'
                    tr.assumptions.add('a log argument that is exactly 0 (proposal exactly on the boundary of the support, probability '
                                       'zero) is not modelled: the real code gets -inf there and its non-finite guard rejects')
            if st == 'proved':
                if g['key'] == 'abs':
                    proved_abs[ck] = True
                continue
            if g['sig'] in reported:
                continue
            cands = []
            if st == 'refuted':
                cands.append({n: _to_float(r.values[i]) for n, i in run.V.items() if i in r.values})
            cands.append(dict(run.W))
            done = False
            for vals in cands:
                if not in_domain(spec, vals):
                    continue
                ok, detail = replay_chain(spec, vals, focus=g['sig'])
                if ok:
                    reported.add(g['sig'])
                    tr.violation(g['sig'], f'{label}: {g["label"]} fails at {vals}: {detail}',
                                 {'kind': 'chain', 'spec': spec, 'values': vals})
                    done = True
                    break
            if not done:
                tr.inconc(f'{label}: "{g["label"]}" {"refuted by the solver" if st == "refuted" else "undecided"} '
                          f'and the concrete replay found no disagreement')
    tr.bounds['chain'] = ('MCMC.run for 1-2 iterations; 1-2 operators per chain; parameters of dimension <= 3; operator, '
                          'parameter and coordinate choices enumerated; both accept and reject histories (all decision paths)')
    if derived_spec(spec['target']):
        tr.bounds['operators on derived parameters'] = (
            'ScalerOperator / SlidingWindowOperator acting on a ViewParameter of a 3-coordinate base parameter (slice 1:3, step slice ::2, '
            'negative-step slice ::-1 = index tensor, list of indices [2,0], boolean mask; an int-index view is read by the target while the '
            'operator acts on the overlapping slice 0:2) and on a CatParameter of two parameters (1 + 2 coordinates); TransformedParameter '
            '(exp) read by the target with the operator on the unconstrained parameter; 2 iterations, all accept / reject histories; every '
            'leaf AND every derived parameter is compared (expression ids) before / after the step and after the decision; the loggers log '
            'the derived parameters too')
    if any(o == 'hmc' for o, _ in spec['ops']):
        tr.bounds['HMC inside MCMC.run'] = (
            'HMCOperator built from JSON as the only operator of MCMC.run, 1-2 iterations, dimension 2, 1 leapfrog step, symbolic step size; '
            'diagonal and dense mass matrix; identity (constants) and symbolic SPD; the symbolic matrix reaches the operator at construction, '
            'through mass_matrix.tensor = M (adaptor idiom) or through load_state_dict; one chain with a numerically failed first trajectory '
            '(retry with a fresh momentum)')


# ------------------------------------------------------------------ concrete replay of a chain
def real_move(okind, tp, xval, xi):
    """the real operator's step on a one-coordinate parameter with the uniform draw forced to xi"""
    from torchtree.core.parameter import Parameter
    from torchtree.inference.mcmc import operator as opmod

    p = Parameter('p', torch.tensor([xval], dtype=torch.float64))
    op = getattr(opmod, OPCLS[okind])('o', [p], 1.0, TAU, tp)
    saved = (torch.rand, torch.randint)
    torch.rand = lambda *a, **k: torch.tensor([xi], dtype=torch.float64)
    torch.randint = lambda lo, hi, size, **k: torch.tensor([0])
    try:
        h = op.step()
    finally:
        torch.rand, torch.randint = saved
    return float(p.tensor[0]), float(h)


def numeric_hastings(okind, tp, xval, xi):
    """log q(x|x') - log q(x'|x) from finite differences of the REAL move w.r.t. its uniform draw and a
    numerically inverted reverse draw (independent of the Hastings term the operator reports)"""
    e = 1e-6

    def f(x, z):
        return real_move(okind, tp, x, z)[0]

    z = min(max(xi, e), 1 - e)
    xp = f(xval, xi)
    jf = (f(xval, z + e) - f(xval, z - e)) / (2 * e)
    lo, hi = 0.0, 1.0
    glo = f(xp, lo) - xval
    ghi = f(xp, hi) - xval
    if glo == 0:
        zr = lo
    elif ghi == 0:
        zr = hi
    elif glo * ghi > 0:
        return -math.inf  # the reverse move is impossible
    else:
        for _ in range(200):
            mid = 0.5 * (lo + hi)
            gm = f(xp, mid) - xval
            if (gm > 0) == (glo > 0):
                lo = mid
            else:
                hi = mid
        zr = 0.5 * (lo + hi)
    zr2 = min(max(zr, e), 1 - e)
    jr = (f(xp, zr2 + e) - f(xp, zr2 - e)) / (2 * e)
    return math.log(abs(jf)) - math.log(abs(jr))


def replay_chain(spec, vals, focus=None, hooks=None):
    """Real MCMC.run on plain tensors with the RNG forced to `vals`, against an independent Metropolis-Hastings
    simulation (closed-form densities, numerically differentiated proposal densities)."""
    kind = spec['target']
    try:
        rec = execute(spec, vals, False, hooks)
    except Exception as e:
        return True, f'real code raised {type(e).__name__}: {e}'
    if rec['crash']:
        if focus == 'crash' or not rec['crash'].startswith('ValueError'):
            return True, rec['crash']
        return False, 'the real run raised ' + rec['crash'] + ' (reported separately)'
    tol = 1e-7

    def close(a, b):
        return abs(a - b) <= tol * max(1.0, abs(a), abs(b))

    def sclose(s1, s2):
        return all(len(s1[n]) == len(s2[n]) and all(close(a, b) for a, b in zip(s1[n], s2[n])) for n in s1)

    state = rec['init_state']
    logp = oracle_logp(kind, state)
    if not close(rec['init_joint'][0], logp):
        return True, f'initial density {rec["init_joint"][0]} but the target at the initial state is {logp}'
    expected_rows = [state]

    def stale(snapshot, st_):
        """a derived parameter (view / concatenation / transform) that does not read the leaf state st_"""
        want = derive(kind, st_, False)
        return [(n, snapshot[n], want[n]) for n in want if not sclose({n: snapshot[n]}, {n: want[n]})]

    for it, ev in enumerate(rec['iters']):
        if not sclose(ev['before'], state):
            return True, f'iteration {it + 1}: the operator started from {ev["before"]}, the chain state is {state}'
        if stale(ev['before_d'], state):
            n, got, want = stale(ev['before_d'], state)[0]
            return True, f'iteration {it + 1}: before the step the derived parameter {n} reads {got}, the chain state gives {want}'
        okind = ev['kind']
        prop = ev['after']
        if stale(ev['after_d'], prop):
            n, got, want = stale(ev['after_d'], prop)[0]
            return True, f'iteration {it + 1}: after the step the derived parameter {n} reads {got}, the proposed leaves give {want}'
        ch = [(n, j) for n in state for j in range(len(state[n])) if state[n][j] != prop[n][j]]
        if okind == 'hmc':
            if ev['h'] == 'nonfinite':
                if ev['accepted'] or any(ev['post'][n] != state[n] for n in state):
                    return True, f'iteration {it + 1}: a non-finite Hastings term was not rejected / restored'
                expected_rows.append(state)
                continue
            hm = ev['hmc']
            good = [c for c in hm['calls'] if c['pout'] is not None]
            if not good or not hm['draws']:
                return True, f'iteration {it + 1}: HMCOperator.step() returned the finite term {ev["h"]!r} without a completed trajectory'
            c = good[-1]
            if len(hm['draws']) != len(hm['calls']) or c['ndraws'] != len(hm['draws']) or c['pin'] != hm['draws'][-1]['p']:
                return True, (f'iteration {it + 1}: {len(hm["draws"])} momentum draws for {len(hm["calls"])} trajectories; the completed '
                              f'trajectory started from {c["pin"]}, the latest draw is {hm["draws"][-1]["p"]}')
            sigma = hm['draws'][c['ndraws'] - 1]['Sigma']
            Mp = as_matrix(hm['M'], 0.0)
            if not all(close(a, b) for ra, rb in zip(sigma, Mp) for a, b in zip(ra, rb)):
                return True, f'iteration {it + 1}: the momentum was drawn with covariance {sigma}, the mass matrix parameter is {Mp}'
            h = kinetic(None, c['pin'], sigma, sym=False) - kinetic(None, c['pout'], sigma, sym=False)
            if not hm['rg_off']:
                return True, f'iteration {it + 1}: requires_grad is still set on an operator parameter after step()'
        elif okind in ('scaler', 'slide'):
            if okind == 'scaler' and not ch and any(v == 0 for n in state for v in state[n]):
                return False, 'a zero coordinate was scaled (outside the domain)'
            if len(ch) != 1:
                return True, f'iteration {it + 1}: the move changed coordinates {ch}'
            n, j = ch[0]
            h = numeric_hastings(okind, ev['tp_before'], state[n][j], ev['draws'][f'xi{it}'])
        else:
            y = ev['draws'][f'y{it}']
            x = state['x']
            c = ev['tp_before']
            if not sclose({'x': y}, {'x': prop['x']}):
                return True, f'iteration {it + 1}: the new state is not the Dirichlet draw'
            h = dirichlet_logpdf(x, [c * v for v in y]) - dirichlet_logpdf(y, [c * v for v in x])
        if isinstance(ev['h'], float) and abs(ev['h'] - h) > (1e-7 if okind == 'hmc' else 1e-4) * max(1.0, abs(h)):
            if okind == 'hmc':
                return True, (f'iteration {it + 1}: HMCOperator.step() returned {ev["h"]!r} but K(p_start) - K(p_end) = {h!r} with '
                              f'K(p) = p^T M^-1 p / 2 for the mass matrix M = {sigma} the momentum was drawn from '
                              f'(p_start = {c["pin"]}, p_end = {c["pout"]})')
            return True, (f'iteration {it + 1}: {OPCLS[okind]} reports Hastings term {ev["h"]!r}; log q(x|x\') - log q(x\'|x) of the '
                          f'executed move is {h!r}')
        lp1 = oracle_logp(kind, prop)
        if lp1 == -math.inf:
            if ev['accepted']:
                return True, f'iteration {it + 1}: a proposal with zero target density was accepted'
            if any(ev['post'][n] != state[n] for n in state):
                return True, f'iteration {it + 1}: after reject() the parameters are {ev["post"]}, expected bit-identical {state}'
            if isinstance(ev['acc'], float) and ev['acc'] != 0.0:
                return True, f'iteration {it + 1}: zero target density but acceptance probability {ev["acc"]!r} handed to tune()'
            expected_rows.append(state)
            continue
        if ev['joint'] is not None and isinstance(ev['joint'][0], float) and not close(ev['joint'][0], lp1):
            return True, f'iteration {it + 1}: density used for the proposal {ev["joint"][0]!r}, target at the proposed state {lp1!r}'
        A = min(1.0, math.exp(min(50.0, lp1 - logp + h)))
        u = ev['u']
        if u is None:
            return True, f'iteration {it + 1}: no uniform draw was used for the decision'
        if abs(u - A) > 1e-9:
            want = u < A
            if want != ev['accepted']:
                return True, (f'iteration {it + 1}: u={u!r}, min(1, exp(dT + h))={A!r} so the move must be '
                              f'{"accepted" if want else "rejected"}; MCMC.run {"accepted" if ev["accepted"] else "rejected"} it')
            if isinstance(ev['acc'], float) and not close(ev['acc'], A):
                return True, f'iteration {it + 1}: acceptance probability handed to tune() {ev["acc"]!r} != {A!r}'
        if ev['accepted']:
            state, logp = prop, lp1
        if not (all(ev['post'][n] == state[n] for n in state) if not ev['accepted'] else sclose(ev['post'], state)):
            return True, (f'iteration {it + 1}: after {"accept" if ev["accepted"] else "reject"}() the parameters are {ev["post"]}, '
                          f'expected {"bit-identical " if not ev["accepted"] else ""}{state}')
        if not ev['accepted'] and ev['post_d'] != ev['before_d']:
            return True, (f'iteration {it + 1}: after reject() the derived parameters read {ev["post_d"]}, before the proposal they read '
                          f'{ev["before_d"]} (not bit-identical)')
        if stale(ev['post_d'], state):
            n, got, want = stale(ev['post_d'], state)[0]
            return True, (f'iteration {it + 1}: after {"accept" if ev["accepted"] else "reject"}() the derived parameter {n} reads {got}, '
                          f'the leaves give {want}')
        expected_rows.append(state)
    if spec.get('loggers', True):
        order = rec['leaf_order']
        for src, rows, exp in (('ContainerLogger', rec['rows'], expected_rows),
                               ('Logger', [c for _, c in rec['file_rows']['rows']], expected_rows)):
            if len(rows) != len(exp):
                return True, f'{src}: {len(rows)} rows for {len(exp)} expected'
            for k, (row, stt) in enumerate(zip(rows, exp)):
                dv = derive(kind, stt, False)
                flat = [v for n in order for v in stt[n]] + [v for n in rec['derived_logged'] for v in dv[n]]
                if len(row) != 1 + len(flat):
                    return True, f'{src} row {k}: {len(row)} cells for {1 + len(flat)} logged values'

                if not all(close(a, b) for a, b in zip(row[1:], flat)) or not close(row[0], oracle_logp(kind, stt)):
                    return True, (f'{src} row {k}: logged density {row[0]!r} / parameters {row[1:]}; chain state {flat}, '
                                  f'target there {oracle_logp(kind, stt)!r}')
    return False, 'real chain and independent Metropolis-Hastings simulation agree'


# ------------------------------------------------------------------ G6: tuning direction
TUNE_NAMES = {'scaler': 'ScalerOperator', 'slide': 'SlidingWindowOperator', 'dirichlet': 'DirichletOperator',
              'gmrf': 'GMRFBlockUpdating', 'hmc': 'HMCOperator', 'adaptive': 'AdaptiveStepSize',
              'adaptive-rate': 'AdaptiveStepSize', 'dual': 'DualAveragingStepSize'}
TUNE_DEFAULT = {'scaler': 0.6, 'slide': 0.9, 'dirichlet': 40.0, 'gmrf': 1.0025, 'hmc': 0.11, 'adaptive': 0.11,
                'adaptive-rate': 0.11, 'dual': 0.11}
TUNE_TARGET = {'scaler': TAU, 'slide': TAU, 'dirichlet': TAU, 'gmrf': TAU, 'hmc': 0.8, 'adaptive': 0.8,
               'adaptive-rate': 0.8, 'dual': 0.8}


class _Patch:
    """replace the `math` module of the torchtree modules under analysis by SymMath15 (restored on exit)"""

    def __init__(self, sym):
        self.sym = sym

    def __enter__(self):
        import torchtree.inference.hmc.adaptation as ad
        import torchtree.inference.hmc.operator as ho
        import torchtree.inference.mcmc.gmrf_block_updating as gb
        import torchtree.inference.mcmc.operator as om
        import torchtree.ops.dual_averaging as da

        self.mods = [ad, ho, gb, om, da]
        self.saved = [m.math for m in self.mods]
        if self.sym:
            for m in self.mods:
                m.math = SymMath15()
        return self

    def __exit__(self, *exc):
        for m, s in zip(self.mods, self.saved):
            m.math = s
        return False


def make_tunable(kind, tp, count, sym, extra=None):
    """real operator / adaptor objects; returns (tune(A), get_tuning_parameter, get_adaptable or None)"""
    from torchtree.core.parameter import Parameter
    from torchtree.inference.mcmc import operator as opmod

    extra = extra or {}
    x = Parameter('x', torch.tensor([0.2, 0.3, 0.5], dtype=torch.float64))
    if kind in ('scaler', 'slide', 'dirichlet'):
        op = getattr(opmod, OPCLS[kind])('op', [x], 1.0, TAU, tp)
        op._adapt_count = count
        return (lambda A: op.tune(A, sample=1, accepted=True)), (lambda: op.tuning_parameter), (lambda: op.adaptable_parameter), op
    if kind == 'gmrf':
        from torchtree.distributions.gmrf import GMRF
        from torchtree.inference.mcmc.gmrf_block_updating import GMRFPiecewiseCoalescentBlockUpdatingOperator

        gm = GMRF('gmrf', Parameter('field', torch.tensor([0.1, 0.2, 0.3], dtype=torch.float64)),
                  Parameter('precision', torch.tensor([2.0], dtype=torch.float64)))
        op = GMRFPiecewiseCoalescentBlockUpdatingOperator('op', None, gm, 1.0, TAU, tp)
        op._adapt_count = count
        return (lambda A: op.tune(A, sample=1, accepted=True)), (lambda: op.tuning_parameter), (lambda: op.adaptable_parameter), op
    from torchtree.inference.hmc.adaptation import AdaptiveStepSize, DualAveragingStepSize
    from torchtree.inference.hmc.integrator import LeapfrogIntegrator
    from torchtree.inference.hmc.operator import HMCOperator

    integ = LeapfrogIntegrator('leapfrog', 2, tp)
    q = Parameter('q', torch.tensor([0.3, 0.7], dtype=torch.float64))
    mass = Parameter('mass', torch.ones(2, dtype=torch.float64))
    target = make_uf_target([q], sym)
    adaptors = []
    if kind in ('adaptive', 'adaptive-rate'):
        ad = AdaptiveStepSize.from_json({'id': 'ad', 'integrator': 'leapfrog', 'target_acceptance_probability': 0.8,
                                         'use_acceptance_rate': kind == 'adaptive-rate'}, {'leapfrog': integ})
        ad._call_counter = count
        ad._accepted = extra.get('accepted_so_far', 0)
        adaptors = [ad]
    elif kind == 'dual':
        ad = DualAveragingStepSize.from_json({'id': 'da', 'integrator': 'leapfrog', 'target_acceptance_probability': 0.8},
                                             {'leapfrog': integ})
        if count:
            ad._dual_avg._counter = count
            ad._call_counter = count
            ad._dual_avg.s_bar = extra['s_bar']
        adaptors = [ad]
    op = HMCOperator('hmc', target, [q], integ, mass, 1.0, 0.8, adaptors)
    op._adapt_count = count
    acc = extra.get('accepted', True)
    return (lambda A: op.tune(A, sample=1, accepted=acc)), (lambda: integ.step_size), None, op


def spread_of(d, kind, p):
    """a quantity that is increasing in the boldness of the proposal"""
    if kind == 'scaler':
        return d.sub(d.div(1, p), p)  # length of the interval [a, 1/a] of scale factors
    if kind == 'dirichlet':
        return d.div(1, d.add(p, 1))  # Var(y_i | x) = x_i (1 - x_i) / (scaler + 1)
    if kind == 'gmrf':
        return d.sub(p, d.div(1, p))  # length of the interval [1/s, s] of precision factors
    return p  # window width / leapfrog step size


def tune_domain(d, kind, V):
    cs = [d.le(0, V['A']), d.le(V['A'], 1)]
    p = V['tp']
    if kind == 'scaler':
        cs += [d.lt(0, p), d.lt(p, 1)]
    elif kind == 'gmrf':
        cs += [d.le(1, p)]
    else:
        cs += [d.lt(0, p)]
    if 'n' in V:
        cs += [d.le(0, V['n'])]
    return cs


def tune_task(task, tr):
    kind, count = task['op'], task['count']
    name = TUNE_NAMES[kind]
    tau = TUNE_TARGET[kind]
    label = f'tune {name} adapt_count={count}'
    tr.stubs.add('math module of the operator / adaptation modules -> SymMath (exp/log/sqrt uninterpreted with axioms)')
    with tracing() as t, _Patch(True):
        d = t.dag
        V = {'tp': d.var('tp', TUNE_DEFAULT[kind]), 'A': d.var('A', 0.6)}
        tp = mkfloat(V['tp'])
        n = count
        if count == 'sym':
            V['n'] = d.var('n', 3.0)
            n = mkfloat(V['n'])
        extra = {}
        if kind == 'dual' and count:
            V['sbar'] = d.var('sbar', 0.2)
            extra['s_bar'] = mkfloat(V['sbar'])
        if kind == 'adaptive-rate':
            extra = {'accepted_so_far': task['accepted_so_far'], 'accepted': task['accepted']}
        tune, get_tp, get_adapt, op = make_tunable(kind, tp, n, True, extra)
        tr.fn(type(op).tune, type(op).set_adaptable_parameter)
        for a in getattr(op, '_adaptors', []):
            tr.fn(type(a).learn, type(a).from_json)
        if kind == 'dual':
            from torchtree.ops.dual_averaging import DualAveraging

            tr.fn(DualAveraging.step)
        A = from_ids(torch.tensor(V['A'], dtype=torch.int64))
        L = SymFloat._id(get_adapt()) if get_adapt else None
        p0 = V['tp']
        tune(A)
        p1 = SymFloat._id(get_tp())
        tr.witness_runs += 1
        tr.regions += 1
        tr.ops_checked += t.nchecked
        if t.concretized:
            tr.inconc(f'{label}: symbolic value concretised: {t.concretized[:3]}')
            return
        dom = tune_domain(d, kind, V)
        pcs = list(t.pcs)
        # true instances of exp(a + b) = exp(a) exp(b) for the update  v = adaptable + (A - target) / (2 + count)
        nn = d.const(count) if count != 'sym' else V['n']
        hy = []
        if kind in ('adaptive', 'hmc', 'scaler', 'slide', 'dirichlet', 'gmrf'):
            cnt = nn if kind != 'adaptive' else d.add(nn, 1)  # AdaptiveStepSize increments its counter first
            delta = d.div(d.sub(V['A'], d.const(tau)), d.add(d.const(2), cnt))
            La = L if L is not None else d.log(p0)
            if kind != 'gmrf':
                hy.append(d.eq(d.exp(d.add(La, delta)), d.mul(d.exp(La), d.exp(delta))))
                hy += ground_axioms(d, [d.exp(delta)])
        s0, s1 = spread_of(d, kind, p0), spread_of(d, kind, p1)
        above, below = d.lt(d.const(tau), V['A']), d.lt(V['A'], d.const(tau))
        goals = []
        if kind == 'adaptive-rate':
            rate = (task['accepted_so_far'] + (1 if task['accepted'] else 0)) / (count + 1)
            goals.append(('above' if rate > tau else 'below',
                          f'running acceptance rate {rate:.2f} {"above" if rate > tau else "below"} target: step size does not '
                          f'{"decrease" if rate > tau else "increase"}', d.le(s0, s1) if rate > tau else d.le(s1, s0)))
        elif kind == 'dual' and not count:
            # first step after restart (from_json: mu = log(10 * initial step size))
            goals.append(('above', 'first dual-averaging step: acceptance above target does not shrink the step size',
                          d.or_(d.not_(above), d.le(s0, s1))))
            eta = d.div(1, d.const(11))
            b = d.div(d.mul(d.sub(V['A'], d.const(tau)), eta), d.const(0.05))
            a = d.log(d.mul(d.const(10), p0))
            hy.append(d.eq(d.exp(d.add(a, b)), d.mul(d.exp(a), d.exp(b))))
            hy += ground_axioms(d, [d.exp(b)])
        elif kind == 'dual':
            pass  # generic state: only the monotone response below
        else:
            goals.append(('above', 'acceptance above target: the proposal spread does not decrease', d.or_(d.not_(above), d.le(s0, s1))))
            goals.append(('below', 'acceptance below target: the proposal spread does not increase', d.or_(d.not_(below), d.le(s1, s0))))
            goals.append(('fixed', 'acceptance equal to the target leaves the tuning parameter unchanged',
                          d.or_(d.not_(d.eq(V['A'], d.const(tau))), d.eq(p0, p1))))
        okd = {'scaler': d.and_(d.lt(0, p1), d.lt(p1, 1)), 'gmrf': d.le(1, p1)}.get(kind, d.lt(0, p1))
        goals.append(('domain', 'the new tuning parameter is inside its domain', okd))
        if kind == 'dual':
            # monotone response: a second, larger acceptance statistic from the same state gives a larger step size
            V['A2'] = d.var('A2', 0.9)
            tune2, get_tp2, _, op2 = make_tunable(kind, tp, n, True, extra)
            tune2(from_ids(torch.tensor(V['A2'], dtype=torch.int64)))
            p2 = SymFloat._id(get_tp2())
            dom += [d.le(0, V['A2']), d.le(V['A2'], 1)]
            goals.append(('monotone', 'the new step size is an increasing function of the acceptance statistic',
                          d.or_(d.not_(d.lt(V['A'], V['A2'])), d.lt(p1, p2))))
            pcs = list(t.pcs)
        ax = ground_axioms(d, [g[2] for g in goals] + hy, monotone=True)
        wd = [d.not_(d.eq(b, 0)) for b in t.denominators] + [d.lt(0, x) if k == 'pos' else d.le(0, x) for k, x in t.domains]
        if wd:
            goals.append(('defined', 'every denominator is non-zero and every log / sqrt argument is in its domain', d.and_(*wd)))
        tr.sample({'case': label, 'new_tuning_parameter': d.to_str(p1, 7), 'goals': [g[1] for g in goals]})
        tr.bounds['tune'] = 'one tune()/learn() call from a symbolic tuning parameter and acceptance probability; adapt_count in {0, 3, symbolic >= 0}'
        varids = list(V.values())
        st0, _, _ = prove(d, dom + pcs + hy + ax, d.FALSE, timeout=8, tr=tr, label='hypotheses consistent')
        if st0 == 'proved':
            tr.inconc(f'{label}: domain, path conditions and axiom instances are inconsistent (harness error)')
            return
        for which, text, node in goals:
            st, r, _ = prove(d, dom + pcs + hy + ax, node, timeout=40, get_values=varids, tr=tr, label=text)
            if st == 'proved':
                continue
            sig = f'{name}.tune:' + {'above': 'acceptance-above-target-makes-proposals-more-timid',
                                     'below': 'acceptance-below-target-makes-proposals-bolder',
                                     'fixed': 'moves-at-target', 'domain': 'leaves-domain', 'defined': 'well-defined',
                                     'monotone': 'step-size-not-monotone-in-acceptance'}[which]
            if kind == 'gmrf' and which in ('above', 'below'):
                sig = 'GMRFBlockUpdating.set_adaptable_parameter:non-monotone'
            cands = []
            if st == 'refuted':
                cands.append({nm: _to_float(r.values[i]) for nm, i in V.items() if i in r.values})
            cands.append({nm: d.vals[i] for nm, i in V.items()})
            done = False
            for vals in cands:
                ok, detail = replay_tune(task, which, vals)
                if ok:
                    tr.violation(sig, f'{label}: {text} fails at {vals}: {detail}', {'kind': 'tune', 'task': task, 'which': which, 'values': vals})
                    done = True
                    break
            if not done:
                tr.inconc(f'{label}: "{text}" {"refuted by the solver" if st == "refuted" else "undecided"}; the concrete replay shows no defect')


def concrete_spread(kind, op, tp):
    """spread of the proposal measured on the REAL proposal code (plain floats), independent of the tuning formulas"""
    if kind in ('scaler', 'slide'):
        lo = real_move(kind, tp, 1.0, 0.0)[0]
        hi = real_move(kind, tp, 1.0, 1.0 - 1e-12)[0]
        return abs(hi - lo)
    if kind == 'dirichlet':
        seen = {}
        saved = torch.distributions.Dirichlet.sample

        def grab(self_, sample_shape=torch.Size()):
            seen['c'] = self_.concentration.tolist()
            return torch.tensor([0.25, 0.35, 0.4], dtype=torch.float64)

        torch.distributions.Dirichlet.sample = grab
        try:
            op.saved = [p.tensor.clone() for p in op.parameters]
            keep = op.parameters[0].tensor.clone()
            op._step()
            op.parameters[0].tensor = keep
        finally:
            torch.distributions.Dirichlet.sample = saved
        a = seen['c']
        a0 = sum(a)
        return sum(ai * (a0 - ai) / (a0 * a0 * (a0 + 1)) for ai in a)
    if kind == 'gmrf':
        saved = torch.rand
        out = []
        try:
            for first in (0.0, 1.0 - 1e-12):
                for second in (0.0, 1.0 - 1e-12):
                    seq = iter([first, second])
                    torch.rand = lambda *a, **k: torch.tensor([next(seq)], dtype=torch.float64)
                    out.append(float(torch.as_tensor(op.propose_precision()).reshape(-1)[0]) / float(op.gmrf.precision.tensor[0]))
        finally:
            torch.rand = saved
        return max(out) - min(out)
    return float(op._integrator.step_size)


def replay_tune(task, which, vals):
    kind, count = task['op'], task['count']
    tau = TUNE_TARGET[kind]
    tp, A = vals.get('tp', TUNE_DEFAULT[kind]), vals.get('A', 0.6)
    n = count if count != 'sym' else max(0, int(round(vals.get('n', 3.0))))
    if not (0 <= A <= 1) or tp <= 0 or (kind == 'scaler' and tp >= 1) or (kind == 'gmrf' and tp < 1):
        return False, 'outside the domain'
    extra = {}
    if kind == 'dual' and count:
        extra['s_bar'] = vals.get('sbar', 0.2)
    if kind == 'adaptive-rate':
        extra = {'accepted_so_far': task['accepted_so_far'], 'accepted': task['accepted']}
    try:
        tune, get_tp, _, op = make_tunable(kind, tp, n, False, extra)
        s0 = concrete_spread(kind, op, get_tp())
        tune(torch.tensor(A, dtype=torch.float64))
        p1 = float(get_tp())
        s1 = concrete_spread(kind, op, p1)
    except Exception as e:
        return True, f'real tune() raised {type(e).__name__}: {e}'
    info = f'tuning parameter {tp!r} -> {p1!r}, proposal spread {s0!r} -> {s1!r} (acceptance {A!r}, target {tau})'
    eff = A
    if kind == 'adaptive-rate':
        eff = (task['accepted_so_far'] + (1 if task['accepted'] else 0)) / (n + 1)
    if which == 'above' and eff > tau and s1 < s0 * (1 - 1e-12):
        return True, 'acceptance above target made the proposal more timid: ' + info
    if which == 'below' and eff < tau and s1 > s0 * (1 + 1e-12):
        return True, 'acceptance below target made the proposal bolder: ' + info
    if which == 'fixed' and A == tau and abs(p1 - tp) > 1e-12 * max(1, abs(tp)):
        return True, 'acceptance at the target moved the tuning parameter: ' + info
    if which == 'domain' and (not math.isfinite(p1) or p1 <= 0 or (kind == 'scaler' and p1 >= 1) or (kind == 'gmrf' and p1 < 1)):
        return True, 'tuning parameter left its domain: ' + info
    if which == 'monotone':
        A2 = vals.get('A2', 0.9)
        tune2, get_tp2, _, op2 = make_tunable(kind, tp, n, False, extra)
        tune2(torch.tensor(A2, dtype=torch.float64))
        if A < A2 and not float(get_tp2()) > p1:
            return True, f'acceptance {A} -> step {p1}, acceptance {A2} -> step {float(get_tp2())}'
    return False, 'agrees: ' + info


# ------------------------------------------------------------------ guard branches and GMRF wiring
def guard_task(task, tr):
    from torchtree.inference.mcmc.mcmc import MCMC

    which = task['which']
    if which == 'gmrf-wiring':
        return gmrf_wiring(task, tr)
    tr.fn(MCMC.run)
    full = which
    base, _, at = full.partition('@')  # 'nan-density@2': the non-finite value appears at the proposal of iteration 2
    at = int(at or 1)
    spec = {'target': 'uf1', 'ops': [('scaler', ['x'])], 'plan': [(0, 0, 1), (0, 0, 0)], 'loggers': base == 'inf-hastings'}
    label = f'guard {full}'

    def hooks(mc, ops, joint, st):
        if base in ('inf-hastings', 'neginf-hastings'):
            inner = ops[0].step
            state = {'n': 0}
            bad = float('inf') if base == 'inf-hastings' else float('-inf')

            def step():
                h = inner()
                state['n'] += 1
                return torch.tensor(bad, dtype=torch.float64) if state['n'] == at else h

            ops[0].step = step
        else:
            # (the target is evaluated once initially and once per proposal: cached values are reused after accept / reject)
            joint.nan_at = 1 + at

    tr.stubs |= set(Stubs.LIST)
    tr.stubs.add({'inf-hastings': 'one operator step (iteration 1 or 2) reports an infinite Hastings term (as HMC / GMRF operators do on failure)',
                  'neginf-hastings': 'one operator step (iteration 1 or 2) reports a Hastings term -inf',
                  'nan-density': 'the uninterpreted target returns NaN at one proposal (iteration 1 or 2)'}[base])

    def not_rejected(why):
        # the NaN density was not stopped by the guard: decide on plain tensors (stubbed RNG) whether the chain accepted it
        ok, detail = replay_guard(which)
        if ok:
            tr.violation('MCMC.run:nan-density-not-rejected',
                         f'{label}: a proposal whose target density is NaN is not rejected ({why}): {detail}', {'kind': 'guard', 'which': which})
        else:
            tr.inconc(f'{label}: {why}, but the concrete replay rejects and restores ({detail})')

    from symtorch.expr import EngineError

    try:
        # (iteration 1 of the @2 scenarios is accepted with probability 1: above the operator's target acceptance probability)
        run = symbolic_run(spec, dict(task.get('witness') or {'u1': 0.02, 'xi1': 0.12}), hooks)
    except EngineError as e:
        if not which.startswith('nan-density'):
            raise
        tr.witness_runs += 1
        return not_rejected(f'the NaN flowed past the non-finite guard of MCMC.run into the acceptance computation: {str(e)[:80]}')
    tr.witness_runs += 1
    tr.regions += 1
    d = run.d
    if which.startswith('nan-density') and len(run.rec['iters']) >= at:
        f0 = run.rec['iters'][at - 1]
        if f0['accepted'] is not False or f0.get('post') != f0['before']:
            return not_rejected(f'accepted={f0["accepted"]}, state restored={f0.get("post") == f0["before"]}')
    if [c for c in run.concretized if 'isnan' not in c and 'isinf' not in c]:
        tr.inconc(f'{label}: concretised {run.concretized[:3]}')
        return
    if run.rec['crash'] or run.rec['stub_error']:
        tr.inconc(f'{label}: {run.rec["crash"] or run.rec["stub_error"]}')
        return
    with tracing(run.t):
        goals = build_goals(run, spec)
    first = run.rec['iters'][at - 1]
    goals.append({'label': 'guard: the move with a non-finite Hastings term / density is rejected and tune() sees probability 0',
                  'node': d.and_(d.bconst(first['accepted'] is False), d.eq(first['acc'], 0)), 'sig': 'MCMC.run:nonfinite-guard',
                  'hyps': 'full', 'extra': [], 'key': None})
    for g in goals:
        if g['key'] == 'abs':
            continue  # proposal-density statements are covered by the chain tasks
        st, r, _ = prove(d, run.dom + run.pcs + g['extra'], g['node'], timeout=30, get_values=list(run.V.values()), tr=tr, label=g['label'])
        if st != 'proved':
            ok, detail = replay_guard(which)
            if ok:
                tr.violation(g['sig'] + ':' + which, f'{label}: {g["label"]}: {detail}', {'kind': 'guard', 'which': which})
            else:
                tr.inconc(f'{label}: "{g["label"]}" not proved ({st}) and the concrete replay agrees with the oracle')
            return


def replay_guard(which):
    """concrete: a rejected non-finite move must leave the parameters bit-identical and hand tune() the probability 0"""
    which, _, at = which.partition('@')
    at = int(at or 1)
    spec = {'target': 'uf1', 'ops': [('scaler', ['x'])], 'plan': [(0, 0, 1), (0, 0, 0)][:at], 'loggers': False}

    def hooks(mc, ops, joint, st):
        if which in ('inf-hastings', 'neginf-hastings'):
            inner = ops[0].step
            state = {'n': 0}
            bad = float('inf') if which == 'inf-hastings' else float('-inf')

            def step():
                h = inner()
                state['n'] += 1
                return torch.tensor(bad, dtype=torch.float64) if state['n'] == at else h

            ops[0].step = step
        else:
            joint.nan_at = 1 + at

    rec = execute(spec, {'u0': 0.02, 'xi0': 0.3, 'u1': 0.02, 'xi1': 0.12}, False, hooks)
    if rec['crash']:
        return True, rec['crash']
    ev = rec['iters'][at - 1]
    if ev['accepted'] is False and ev['post'] == ev['before'] and ev['acc'] != 0.0:
        prev = f' (iteration {at - 1} handed {rec["iters"][at - 2]["acc"]!r})' if at > 1 else ''
        return True, (f'real MCMC.run on plain tensors: the proposal of iteration {at} was rejected by the non-finite guard but tune() was '
                      f'handed the acceptance probability {ev["acc"]!r} instead of 0{prev}')
    if which == 'nan-density' and (ev['accepted'] is not False or ev['post'] != ev['before']):
        return True, (f'real MCMC.run on plain tensors (u={ev["u"]!r}): the target returned NaN at the proposed state {ev["after"]}, '
                      f'accepted={ev["accepted"]}, acceptance probability handed to tune() {ev["acc"]!r}, chain state afterwards '
                      f'{ev["post"]} (before the proposal {ev["before"]})')
    if ev['accepted'] is not False or ev['post'] != ev['before']:
        return True, f'accepted={ev["accepted"]}, parameters after the move {ev["post"]}, before {ev["before"]}'
    return False, 'rejected and restored'


def gmrf_wiring(task, tr):
    """accept / reject / restore wiring of the GMRF block-updating operator (its real proposal: chk/c15_gmrf.py)"""
    from symtorch import new_vars
    from torchtree.inference.mcmc.gmrf_block_updating import GMRFPiecewiseCoalescentBlockUpdatingOperator as G
    from torchtree.inference.mcmc.operator import MCMCOperator

    tr.fn(MCMCOperator.step, MCMCOperator.reject, MCMCOperator.accept, G.__init__)
    tr.stubs.add('gmrf-wiring task only: GMRFPiecewiseCoalescentBlockUpdatingOperator._step -> assigns arbitrary symbolic field / precision '
                 '(the real _step is executed by the gmrf-step tasks)')
    with tracing() as t:
        d = t.dag
        _, _, _, op = make_tunable('gmrf', 2.0, 0, True)
        gm = op.gmrf
        gm.field.tensor = new_vars('field', torch.tensor([0.1, 0.2, 0.3]))
        gm.precision.tensor = new_vars('precision', torch.tensor([2.0]))

        def fake_step():
            gm.precision.tensor = new_vars('precision_new', torch.tensor([2.5]))
            gm.field.tensor = new_vars('field_new', torch.tensor([0.4, 0.1, 0.2]))
            return from_ids(torch.tensor(d.var('h', 0.1), dtype=torch.int64))

        op._step = fake_step
        before = [p.tensor._ids.tolist() for p in op.parameters]
        op.step()
        prop = [p.tensor._ids.tolist() for p in op.parameters]
        op.reject()
        after_reject = [p.tensor._ids.tolist() for p in op.parameters]
        op.step()
        op.accept()
        after_accept = [p.tensor._ids.tolist() for p in op.parameters]
        tr.witness_runs += 1
        tr.regions += 1
        ok = (op.parameters[0] is gm.field and op.parameters[1] is gm.precision and after_reject == before and prop != before
              and after_accept != before and op._accept == 1 and op._reject == 1)
        prove(d, [], d.bconst(ok), tr=tr, label='gmrf wiring')
        if not ok:
            tr.violation('GMRFBlockUpdating.reject:restore', 'reject() does not restore field and precision / accept() does not keep them',
                         {'kind': 'guard', 'which': 'gmrf-wiring'})


# ------------------------------------------------------------------ tasks
def run_task(task, tr):
    import time

    t0 = time.time()
    try:
        {'chain': chain_task, 'tune': tune_task, 'guard': guard_task, 'gmrf-step': c15_gmrf.step_task,
         'gmrf-precision': c15_gmrf.precision_task}[task['kind']](task, tr)
    except Exception as e:
        # An exception that comes out of torchtree's own loop (not an engine limitation) is decided on plain tensors:
        # if the real MCMC.run raises there as well, the run aborts in the middle of a transition - a violation, not an
        # inconclusive result.  Anything else is re-raised and ends inconclusive as before.
        import traceback

        from symtorch.expr import EngineError

        frames = traceback.extract_tb(e.__traceback__)
        in_torchtree = bool(frames) and '/torchtree/' in frames[-1].filename
        engine = isinstance(e, EngineError) or type(e).__name__ == 'UnsupportedOp'
        if engine or not in_torchtree or task['kind'] not in ('chain', 'guard'):
            raise
        where = f'{os.path.basename(frames[-1].filename)}:{frames[-1].lineno}'
        try:
            if task['kind'] == 'guard':
                replay_guard(task['which'])
                reproduced, detail = False, 'the concrete replay of the guard scenario does not raise'
            else:
                reproduced, detail = replay_chain(task['spec'], {}, focus='crash')
        except Exception as e2:
            reproduced, detail = True, f'real code raised {type(e2).__name__}: {e2}'
        label = task.get('label') or f"guard {task.get('which')}"
        if reproduced and type(e).__name__ in detail:
            tr.violation(f'MCMC.run:raises:{type(e).__name__}',
                         f'{label}: the real MCMC.run aborts with {type(e).__name__} at {where} ({str(e)[:160]}); on plain tensors: {detail}',
                         {'kind': task['kind'], 'spec': task.get('spec'), 'which': task.get('which'), 'values': {}})
        else:
            raise
    finally:
        if os.environ.get('C15_TIMES'):  # debugging aid: per-task wall time, one line per task
            with open(os.environ['C15_TIMES'], 'a') as fh:
                fh.write(f'{time.time() - t0:8.1f} s  start+{t0 - T_START:6.1f}  {task.get("label") or {k: v for k, v in task.items() if k != "spec"}}\n')


def chain(target, ops, plan, **kw):
    spec = {'target': target, 'ops': ops, 'plan': plan}
    spec.update(kw)
    lab = f'{target} ops={[o for o, _ in ops]} plan(op,param,coord)={plan}'
    return {'kind': 'chain', 'spec': spec, 'label': lab}


def hmc_chain(dense, mass, how='ctor', iters=1, fail=False):
    cfg = {'dense': dense, 'mass': mass, 'how': how, 'steps': 1, 'fail': fail}
    t = chain('ufh', [('hmc', ['x'])], [(0, 0, 0)] * iters, hmc=cfg)
    t['label'] = (f'HMC in MCMC.run: {"dense" if dense else "diagonal"} {"identity" if mass == "identity" else "symbolic SPD"} mass matrix '
                  f'set {"at construction" if how == "ctor" else ("through mass_matrix.tensor" if how == "setter" else "by load_state_dict")}, '
                  f'{iters} iteration(s)' + (', first trajectory fails numerically' if fail else ''))
    return t


def derived_tasks(tier):
    """operators acting on derived parameters (2 iterations each: a stale state after a reject shows in iteration 2)"""
    sc, sl = 'scaler', 'slide'
    two = lambda a, b: [(0, 0, a), (0, 0, b)]  # noqa: E731
    if tier == 'quick':
        return [chain('ufvneg', [(sc, ['v'])], two(0, 2)),
                chain('ufcatop', [(sc, ['c'])], two(2, 0)),
                chain('vneg', [(sl, ['v'])], two(0, 2)),
                chain('ufvslice', [(sl, ['v'])], two(0, 1)),
                chain('ufvstep', [(sl, ['v'])], two(1, 0)),
                chain('ufvlist', [(sl, ['v'])], two(0, 0)),
                chain('ufvmask', [(sl, ['v'])], two(1, 1)),
                chain('ufvint', [(sl, ['w'])], two(1, 0))]
    ts = []
    for vk in VIEW_INDICES:
        pid = 'w' if vk == 'vint' else 'v'
        n = len(cover(vk, pid))
        for j, (flavour, k) in enumerate(itertools.product(('uf' + vk, vk), (sc, sl))):
            ts.append(chain(flavour, [(k, [pid])], two(j % n, (j + 1 + j // 2) % n)))
    for j, (flavour, k) in enumerate(itertools.product(('ufcatop', 'catop'), (sc, sl))):
        ts.append(chain(flavour, [(k, ['c'])], two(j % 3, (j + 2) % 3)))
        ts.append(chain(flavour, [(k, ['c'])], two((j + 1) % 3, (j + 1) % 3)))
    # the concatenation and one of its components as parameters of the same operator
    ts.append(chain('ufcatop', [(sl, ['c', 'q'])], [(0, 0, 1), (0, 1, 0)]))
    ts.append(chain('catop', [(sc, ['c', 'q'])], [(0, 1, 1), (0, 0, 2)]))
    return ts


def hmc_tasks(tier):
    if tier == 'quick':
        return [hmc_chain(True, 'sym', 'ctor'), hmc_chain(True, 'sym', 'setter', iters=2), hmc_chain(True, 'sym', 'lsd'),
                hmc_chain(False, 'sym', 'setter'), hmc_chain(True, 'identity'), hmc_chain(False, 'identity'),
                hmc_chain(False, 'sym', 'ctor', fail=True)]
    ts = [hmc_chain(dense, 'sym', how, iters=2) for dense in (True, False) for how in ('ctor', 'setter', 'lsd')]
    ts += [hmc_chain(dense, 'identity', iters=2) for dense in (True, False)]
    ts += [hmc_chain(dense, 'sym', how, fail=True) for dense in (True, False) for how in ('ctor', 'setter')]
    return ts


def tasks_for(tier):
    ts = []
    sc, sl, di = 'scaler', 'slide', 'dirichlet'
    ts += derived_tasks(tier) + hmc_tasks(tier)
    if tier == 'quick':
        ts += [chain('uf1', [(sc, ['x'])], [(0, 0, 1), (0, 0, 0)]),
               chain('uf2', [(sl, ['x', 'y'])], [(0, 1, 0), (0, 0, 0)]),
               chain('normal', [(sc, ['x'])], [(0, 0, 0), (0, 0, 1)]),
               chain('gamma', [(sc, ['r', 'x'])], [(0, 0, 0), (0, 1, 0)]),
               chain('gamma', [(sl, ['r', 'x'])], [(0, 1, 0)]),
               # (2 iterations: a proposal of iteration 2 that leaves the support of the Gamma prior is rejected by the guard of
               #  MCMC.run and tune() must see 0, whatever iteration 1 - same or another operator - handed over)
               chain('gamma', [(sl, ['r'])], [(0, 0, 0), (0, 0, 0)]),
               chain('gamma', [(sl, ['x']), (sl, ['r'])], [(0, 0, 0), (1, 0, 0)]),
               chain('cat', [(sc, ['p']), (sl, ['q'])], [(0, 0, 0), (1, 0, 0)]),
               chain('exptr', [(sl, ['z'])], [(0, 0, 1), (0, 0, 1)]),
               chain('ufsimplex', [(di, ['x'])], [(0, 0, 0)]),  # (two iterations: thorough tier, ~30 s)
               chain('dirichlet', [(di, ['x'])], [(0, 0, 0)]),
               chain('uf2', [(sc, ['x']), (sl, ['y'])], [(1, 0, 0)])]
        for k in (sc, sl, di, 'gmrf', 'hmc', 'adaptive', 'dual'):
            ts.append({'kind': 'tune', 'op': k, 'count': 0})
        for k in (sc, sl, 'hmc'):
            ts.append({'kind': 'tune', 'op': k, 'count': 'sym'})
        ts.append({'kind': 'tune', 'op': 'adaptive', 'count': 3})
        ts.append({'kind': 'tune', 'op': 'dual', 'count': 3})
        ts.append({'kind': 'tune', 'op': 'adaptive-rate', 'count': 9, 'accepted_so_far': 9, 'accepted': True})
        ts.append({'kind': 'tune', 'op': 'adaptive-rate', 'count': 9, 'accepted_so_far': 2, 'accepted': False})
    else:
        for target in BASE_TARGETS:
            leaves = LEAVES[target]
            names = [n for n, _, _ in leaves]
            simplex = leaves[0][2] == 'simplex'
            kinds = [di] if simplex else [sc, sl]
            coords = [(pi, ei) for pi, n in enumerate(names) for ei in range(len(leaves[pi][1]))]
            for k in kinds:
                if simplex:
                    ts.append(chain(target, [(k, names)], [(0, 0, 0), (0, 0, 0)]))
                    continue
                for c1 in coords:
                    for c2 in coords[:2]:
                        ts.append(chain(target, [(k, names)], [(0,) + c1, (0,) + c2]))
            if not simplex:
                # mixtures: every order of two operators on the first / last parameter
                a, b = names[0], names[-1]
                for seq in itertools.product((0, 1), repeat=2):
                    ts.append(chain(target, [(sc, [a]), (sl, [b])], [(s, 0, 0) for s in seq]))
        # two operators, the second one can leave the support of the Gamma prior in iteration 2 (guard rejection: tune() sees 0)
        ts.append(chain('gamma', [(sc, ['x']), (sl, ['r'])], [(0, 0, 0), (1, 0, 0)]))
        ts.append(chain('gamma', [(sl, ['x']), (sl, ['r'])], [(0, 0, 0), (1, 0, 0)]))
        for k in (sc, sl, di, 'gmrf', 'hmc', 'adaptive', 'dual'):
            for c in (0, 3, 'sym'):
                if k in ('dual', 'adaptive') and c == 'sym':
                    continue  # their counters are compared with the integer / infinite start / end bounds
                ts.append({'kind': 'tune', 'op': k, 'count': c})
        for so_far, acc in ((9, True), (2, False), (7, True)):
            ts.append({'kind': 'tune', 'op': 'adaptive-rate', 'count': 9, 'accepted_so_far': so_far, 'accepted': acc})
    ts += [{'kind': 'guard', 'which': w} for w in ('inf-hastings', 'nan-density', 'gmrf-wiring')]
    # the same non-finite values at the proposal of iteration 2, after an accepted (probability 1) and after a rejected iteration 1:
    # tune() must be handed 0, not the acceptance probability of iteration 1
    for w in ('inf-hastings@2', 'neginf-hastings@2', 'nan-density@2'):
        ts.append({'kind': 'guard', 'which': w, 'witness': {'u0': 0.02, 'xi0': 0.12, 'u1': 0.02, 'xi1': 0.12}})
        if tier != 'quick' or w == 'nan-density@2':
            ts.append({'kind': 'guard', 'which': w, 'witness': {'u0': 0.985, 'xi0': 0.88, 'u1': 0.02, 'xi1': 0.12}})
    # GMRF block update: Hastings term of the real step() (both branches of the precision proposal, scaler == 1,
    # real Newton iteration and its functional-contract twin) and symmetry of the precision proposal
    B2, S1 = {'r1': 0.95}, {'s': 1.0}
    far = {'g[0]': 4.0, 'g[1]': -3.0, 's': 5.0, 'r2': 0.05}  # far from the mode: more Newton iterations, factor near 1/s
    if tier == 'quick':
        gm = [(2, 'real', None), (2, 'real', B2), (2, 'real', S1), (2, 'contract', None), (3, 'real', far), (3, 'contract', B2)]
        ts.append({'kind': 'gmrf-precision'})
    else:
        gm = [(n, nr, w) for n in (2, 3) for nr in ('real', 'contract') for w in (None, B2, S1, far)]
        gm += [(4, 'contract', None), (4, 'contract', B2),
               (3, 'real', {'w[1]': 0.0, 'w[2]': 0.0}),  # grid intervals without lineages
               (2, 'real', {'g[0]': -2.5, 'g[1]': 3.0, 'tau': 0.2, 's': 1.3, 'r2': 0.97, 'z[0]': -1.4, 'z[1]': 2.2}),
               (3, 'real', {'tau': 8.0, 's': 3.0, 'r1': 0.9, 'r2': 0.02, 'c[0]': 0.0, 'c[2]': 4.0})]
        for sv, xv in ((1.2, 1.1), (2.0, 0.6), (5.0, 3.7)):
            ts.append({'kind': 'gmrf-precision', 's': sv, 'X': xv})
    for n, nr, w in gm:
        ts.append({'kind': 'gmrf-step', 'n': n, 'nr': nr, 'witness': w})
    return ts


def body(chk):
    chk.explanation = ('the real MCMC.run, operators, loggers and targets are executed symbolically with every random draw a symbol; '
                       'the accept/reject decisions are path conditions, all decision paths are enumerated (missing siblings proved '
                       'infeasible); on every path the proposal density used, the acceptance rule, the Hastings term (against the '
                       'density ratio derived from the executed proposal map), restoration after reject and the logged rows are '
                       'solver obligations; tune()/learn() steps are executed on symbolic floats and the direction of the change of '
                       'the proposal spread is decided with ground instances of exp/log/sqrt laws; the GMRF block update step() is '
                       'executed symbolically (Cholesky as contract stub) and its Hastings term is proved equal to the log density '
                       'ratio of the executed forward map and of the same code run from the proposed state; operators acting on '
                       'ViewParameter / CatParameter objects (and a TransformedParameter in the target): leaves and derived parameters '
                       'are compared by expression ids around every step and decision of 2-iteration runs; HMCOperator inside '
                       'MCMC.run: the returned Hastings term is proved equal to K(p_start) - K(p_end) for the covariance the momentum '
                       'was drawn from (normal draw = loc + L z, cholesky / inverse / cholesky_inverse as contract stubs), for mass '
                       'matrices set at construction, through the parameter setter and through load_state_dict')
    chk.total.assumptions |= {
        'exp / log / lgamma / sqrt are uninterpreted functions constrained by ground instances of their laws (positivity, sign, '
        'monotonicity, exp(a+b) = exp(a) exp(b), log(1/s) = -log s); proofs (unsat) are sound, counterexamples are replayed',
        'proposal densities: a uniform draw xi on [0,1) pushed through the executed map x\' = T(x, xi) has density 1/|dT/dxi|; '
        'the reverse draw is accepted on the closed interval [0,1] (boundary of the support has measure zero)',
        'operator and coordinate selection probabilities do not depend on the state (Categorical over fixed weights, uniform randint): '
        'they cancel in the Hastings ratio and are not part of the obligations',
        'adaptation is treated as fixed during one transition (diminishing adaptation is not examined)',
        'ScalerOperator is applied to non-zero coordinates (0 is a fixed point of the scale move: no proposal density there)',
        'HMCOperator: reversibility / volume preservation of the leapfrog map are the subject of C16; here the Metropolis-Hastings wiring '
        'around it is decided (momentum law, kinetic-energy Hastings term for the mass matrix the momentum was drawn from, accept rule, '
        'restore, logged rows) for dimension 2, one leapfrog step, with the normal draw modelled as loc + L z',
        'operators on derived parameters: no shipped operator can act on a 0-dim parameter (ScalerOperator / SlidingWindowOperator call '
        'len(parameter.tensor): TypeError before any state change), so an int-index ViewParameter is covered as a parameter READ by the '
        'target while the operator acts on an overlapping slice view; an operator acting directly on a TransformedParameter (constrained '
        'space; its setter writes transform.inv(saved), equal over the reals only) is outside: the operator works on the unconstrained parameter',
        'GMRFPiecewiseCoalescentBlockUpdatingOperator: the Hastings term of the real _step is checked for field dimension <= 3 (4 with the '
        'Newton contract stub) on the explored Newton-iteration regions (the proof generalises the Newton outputs, see bounds); the '
        'coalescent model is a stub handing over symbolic sufficient statistics (w >= 0, sum w > 0) and counts; its tuning '
        're-parameterisation and accept/reject/restore wiring are checked separately',
        'Logger csv cells are str() of the logged scalars; the check reads the expression behind each cell (number formatting itself is outside the claim)',
        'DualAveragingStepSize: claimed are the first step after restart and monotonicity of the new step size in the acceptance statistic; '
        'step-to-step monotonicity does not hold for Nesterov dual averaging by design (running average of past errors) and is not claimed',
    }
    tasks = tasks_for(chk.tier)
    if os.environ.get('C15_ONLY'):  # debugging aid: run only the tasks whose kind starts with the given prefix
        tasks = [t for t in tasks if t['kind'].startswith(os.environ['C15_ONLY'])]
    pmap(run_task, tasks, chk.total)


def replay_file(path):
    r = json.load(open(path))
    rp = r.get('replay', r)
    if rp.get('kind') == 'chain':
        ok, detail = replay_chain(rp['spec'], rp['values'])
    elif rp.get('kind') == 'tune':
        ok, detail = replay_tune(rp['task'], rp['which'], rp['values'])
    elif rp.get('kind') == 'gmrf-step':
        f = c15_gmrf.replay if rp.get('focus', 'hastings') == 'hastings' else c15_gmrf.replay_defined
        ok, detail = f(rp['n'], rp['values'])
    elif rp.get('which') == 'gmrf-wiring':
        ok, detail = False, 'symbolic-only obligation (re-run the check)'
    else:
        ok, detail = replay_guard(rp['which'])
    print(('REPRODUCED ' if ok else 'NOT REPRODUCED ') + detail)
    return 1 if ok else 0


if __name__ == '__main__':
    if '--replay' in sys.argv:
        sys.exit(replay_file(sys.argv[sys.argv.index('--replay') + 1]))
    sys.exit(main_for(PID, body))
