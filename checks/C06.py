"""C06 Node-height parameterisations yield a valid time tree and are invertible.

The real GeneralNodeHeightTransform / DifferenceNodeHeightTransform /
TimeTreeModel / ReparameterizedTimeTreeModel code is executed on symbolic
sampling times, ratios, root height, increments (single and batched) for every
rooted topology up to the bound; orderings of the sampling times are path
regions with a coverage certificate.
"""
from __future__ import annotations

import sys
import time

import torch

import common as cm
from symtorch import SymTensor, from_ids, new_vars
from symtorch.explore import Explorer, Goal, triage
from vlib.core import main_for, pmap

PID = 'C06'


def index_tree(topology, n):
    import itertools

    children = {}
    counter = itertools.count(n)

    def rec(t):
        if not isinstance(t, tuple):
            return t
        cs = [rec(c) for c in t]
        i = next(counter)
        children[i] = cs
        return i

    root = rec(topology)
    return root, children


def dmax(d, a, b):
    return d.ite(d.le(a, b), b, a)


def build_model(topology, n, kind):
    js = cm.ratio_tree_json(topology, n) if kind == 'ratio' else cm.shift_tree_json(topology, n)
    js['taxa'] = cm.taxa_json(n)
    tree, dic = cm.build(js)
    if kind == 'shift-smooth':
        # smooth-maximum variant (k > 0) of the increment transform
        from torchtree.evolution.tree_height_transform import DifferenceNodeHeightTransform

        tree.transform = DifferenceNodeHeightTransform(tree, k=2.0)
    return tree, dic


def set_sampling_times(tree, V, n, batch=None):
    st = cm.var_tensor(V, [f's{i}' for i in range(n)])
    tree.sampling_times = st
    if hasattr(tree.transform, 'update_bounds'):
        tree.transform.update_bounds()
    return st


def make_body(topology, n, kind, batched):
    from torchtree.evolution.tree_model import heights_to_branch_lengths

    root, children = index_tree(topology, n)
    parent = {c: p for p, cs in children.items() for c in cs}
    B = 2 if batched else 1

    def body(t, V, W):
        d = t.dag
        tree, dic = build_model(topology, n, kind)
        set_sampling_times(tree, V, n)
        S = [V[f's{i}'] for i in range(n)]
        goals = []
        from symtorch.axioms import ground_axioms as _ga
        # ---- parameters (batched: two independent rows)
        rows = []
        for b in range(B):
            if kind == 'ratio':
                rows.append([V[f'r{b}_{j}'] for j in range(n - 2)] + [V[f'root{b}']])
            else:
                rows.append([V[f'x{b}_{j}'] for j in range(n - 1)])
        ids = torch.tensor(rows if batched else rows[0], dtype=torch.int64)
        x = from_ids(ids)
        if kind == 'shift-smooth' and False:
            pass
        if kind == 'ratio':
            if batched:
                dic['tree.ratios'].tensor = x[..., :-1]
                dic['tree.root_height'].tensor = x[..., -1:]
            else:
                dic['tree.ratios'].tensor = x[:-1]
                dic['tree.root_height'].tensor = x[-1:]
        else:
            dic['tree.shifts'].tensor = x
        nh = tree.node_heights
        bl = tree.branch_lengths()
        if tuple(nh.shape) != ((B,) if batched else ()) + (2 * n - 1,):
            goals.append(Goal('node_heights shape', d.FALSE, signature=f'{kind}:shape'))
            return goals
        for b in range(B):
            h = (nh[b] if batched else nh)._ids.tolist()
            blb = (bl[b] if batched else bl)._ids.tolist()
            tag = f'[sample {b}] ' if batched else ''
            # independent oracle for the documented parameterisation
            bound = {i: S[i] for i in range(n)}
            for p in sorted(children):
                bound[p] = dmax(d, bound[children[p][0]], bound[children[p][1]])
            oh = {i: S[i] for i in range(n)}
            if kind == 'ratio':
                oh[root] = rows[b][-1]
                for p in sorted(children, reverse=True):  # parents before children (post-order numbering)
                    for c in children[p]:
                        if c in children:
                            r = rows[b][c - n]
                            oh[c] = d.add(bound[c], d.mul(r, d.sub(oh[p], bound[c])))
            elif kind == 'shift':
                for p in sorted(children):
                    oh[p] = d.add(dmax(d, oh[children[p][0]], oh[children[p][1]]), rows[b][p - n])
            else:
                two = d.const(2.0)
                for p in sorted(children):
                    l_, r_ = oh[children[p][0]], oh[children[p][1]]
                    lse = d.log(d.add(d.exp(d.mul(l_, two)), d.exp(d.mul(r_, two))))
                    oh[p] = d.add(d.div(lse, two), rows[b][p - n])
            # (1) tips at their sampling time
            goals.append(Goal(tag + 'tips sit at their sampling times',
                              d.and_(*[d.eq(h[i], S[i]) for i in range(n)]), signature=f'{kind}:tips'))
            # (2) validity
            from symtorch.axioms import ground_axioms as _ga

            og = d.and_(*[d.le(h[c], h[p]) for c, p in parent.items()])
            goals.append(Goal(tag + 'every parent at least as old as its children', og,
                              hyps=_ga(d, [og], monotone=True) if kind == 'shift-smooth' else [], signature=f'{kind}:order'))
            # (3) branch lengths (indexed by the node below the branch)
            goals.append(Goal(tag + 'branch length == parent height - child height',
                              d.and_(*[d.eq(blb[c], d.sub(h[p], h[c])) for c, p in parent.items()]),
                              signature=f'{kind}:branch_lengths'))
            # (4) the documented parameterisation itself
            fg = d.and_(*[d.eq(h[v], oh[v]) for v in sorted(children)])
            goals.append(Goal(tag + 'heights == documented parameterisation (independent recursion)', fg,
                              hyps=_ga(d, [fg]) if kind == 'shift-smooth' else [], signature=f'{kind}:formula'))
        # (5) inverse
        heights_internal = nh[..., n:]
        back = tree.transform.inv(heights_internal)
        ig = d.and_(*[d.eq(a, b_) for a, b_ in zip(back._ids.reshape(-1).tolist(), ids.reshape(-1).tolist())]) \
            if back._ids.numel() == ids.numel() else d.FALSE
        goals.append(Goal('inv(forward(x)) == x', ig, hyps=_ga(d, [ig]) if kind == 'shift-smooth' else [],
                          signature=f'{kind}:inverse'))
        if tuple(back.shape) != tuple(x.shape):
            goals.append(Goal('inverse shape', d.FALSE, signature=f'{kind}:inverse-shape'))
        # forward(inv(y)) == y for an arbitrary valid height vector y
        if not batched:
            y = cm.var_tensor(V, [f'y{j}' for j in range(n - 1)])
            xx = tree.transform.inv(y)
            yy = tree.transform(xx)
            yg = d.and_(*[d.eq(a, b_) for a, b_ in zip(yy._ids.tolist(), y._ids.tolist())])
            goals.append(Goal('forward(inv(y)) == y', yg, hyps=_ga(d, [yg]) if kind == 'shift-smooth' else [],
                              signature=f'{kind}:forward-inverse'))
        # (6) heights_to_branch_lengths helper
        if kind == 'ratio' and not batched:
            bl2 = heights_to_branch_lengths(heights_internal, tree.transform._bounds, tree.preorder)
            goals.append(Goal('heights_to_branch_lengths == parent - child',
                              d.and_(*[d.eq(bl2._ids.tolist()[c], d.sub(h[p], h[c])) for c, p in parent.items()]),
                              signature='heights_to_branch_lengths'))
        return goals

    return body


def domain_fn(topology, n, kind, batched):
    root, children = index_tree(topology, n)
    parent = {c: p for p, cs in children.items() for c in cs}
    B = 2 if batched else 1

    def domain(d, V):
        cs = [d.le(0, V[f's{i}']) for i in range(n)]
        for b in range(B):
            if kind == 'ratio':
                for j in range(n - 2):
                    cs += [d.lt(0, V[f'r{b}_{j}']), d.lt(V[f'r{b}_{j}'], 1)]
                for i in range(n):
                    cs.append(d.lt(V[f's{i}'], V[f'root{b}']))
            else:
                for j in range(n - 1):
                    cs.append(d.lt(0, V[f'x{b}_{j}']))
        if not batched:
            # y: valid internal heights (strictly above children)
            hy = {i: V[f's{i}'] for i in range(n)}
            hy.update({n + j: V[f'y{j}'] for j in range(n - 1)})
            for c, p in parent.items():
                cs.append(d.lt(hy[c], hy[p]))
        return cs

    return domain


def witness0(n, kind, batched):
    W = {f's{i}': 0.3 * i for i in range(n)}
    for b in range(2 if batched else 1):
        if kind == 'ratio':
            for j in range(n - 2):
                W[f'r{b}_{j}'] = 0.3 + 0.1 * j + 0.05 * b
            W[f'root{b}'] = 5.0 + b
        else:
            for j in range(n - 1):
                W[f'x{b}_{j}'] = 0.7 + 0.2 * j + 0.1 * b
    if not batched:
        for j in range(n - 1):
            W[f'y{j}'] = 2.0 + j
    return W


# ------------------------------------------------------------------ replay
def replay(topology, n, kind, batched, vals):
    """plain tensors through the real classes; validity / inverse / branch lengths checked numerically"""
    root, children = index_tree(topology, n)
    parent = {c: p for p, cs in children.items() for c in cs}
    tree, dic = build_model(topology, n, kind)
    S = torch.tensor([vals.get(f's{i}', 0.0) for i in range(n)], dtype=torch.float64)
    tree.sampling_times = S
    if hasattr(tree.transform, 'update_bounds'):
        tree.transform.update_bounds()
    B = 2 if batched else 1
    rows = []
    for b in range(B):
        if kind == 'ratio':
            rows.append([vals.get(f'r{b}_{j}', 0.5) for j in range(n - 2)] + [vals.get(f'root{b}', 10.0)])
        else:
            rows.append([vals.get(f'x{b}_{j}', 1.0) for j in range(n - 1)])
    x = torch.tensor(rows if batched else rows[0], dtype=torch.float64)
    try:
        if kind == 'ratio':
            dic['tree.ratios'].tensor = x[..., :-1]
            dic['tree.root_height'].tensor = x[..., -1:]
        else:
            dic['tree.shifts'].tensor = x
        nh = tree.node_heights
        bl = tree.branch_lengths()
        back = tree.transform.inv(nh[..., n:])
    except Exception as e:
        return True, f'real code raised {type(e).__name__}: {e}'
    tol = 1e-9
    for b in range(B):
        h = (nh[b] if batched else nh).tolist()
        blb = (bl[b] if batched else bl).tolist()
        for i in range(n):
            if abs(h[i] - float(S[i])) > tol:
                return True, f'tip {i} at {h[i]} not at its sampling time {float(S[i])}'
        for c, p in parent.items():
            if h[p] < h[c] - tol:
                return True, f'parent {p} ({h[p]}) younger than child {c} ({h[c]})'
            if abs(blb[c] - (h[p] - h[c])) > tol:
                return True, f'branch length {c}: {blb[c]} != {h[p] - h[c]}'
        # documented formula
        bound = {i: float(S[i]) for i in range(n)}
        for p in sorted(children):
            bound[p] = max(bound[children[p][0]], bound[children[p][1]])
        oh = dict(bound)
        if kind == 'ratio':
            oh[root] = rows[b][-1]
            for p in sorted(children, reverse=True):
                for c in children[p]:
                    if c in children:
                        oh[c] = bound[c] + rows[b][c - n] * (oh[p] - bound[c])
        else:
            import math as _m

            oh = {i: float(S[i]) for i in range(n)}
            for p in sorted(children):
                l_, r_ = oh[children[p][0]], oh[children[p][1]]
                mx = max(l_, r_) if kind == 'shift' else _m.log(_m.exp(2.0 * l_) + _m.exp(2.0 * r_)) / 2.0
                oh[p] = mx + rows[b][p - n]
        for v in children:
            if abs(oh[v] - h[v]) > tol * max(1, abs(oh[v])):
                return True, f'height of node {v}: {h[v]} != documented {oh[v]}'
    if tuple(back.shape) != tuple(x.shape) or not torch.allclose(back, x, rtol=1e-8, atol=1e-9):
        return True, f'inv(forward(x)) = {back.tolist()} != x = {x.tolist()}'
    if not batched and all(f'y{j}' in vals for j in range(n - 1)):
        y = torch.tensor([vals[f'y{j}'] for j in range(n - 1)], dtype=torch.float64)
        yy = tree.transform(tree.transform.inv(y))
        if not torch.allclose(yy, y, rtol=1e-8, atol=1e-9):
            return True, f'forward(inv(y)) = {yy.tolist()} != y = {y.tolist()}'
    return False, 'agree'


def run_task(task, tr):
    if task[0] == 'dates':
        # sampling dates -> leaf heights with symbolic dates / newick tip orders (CrossHair, chk/c06_dates*.py)
        from chk import c06_dates

        c06_dates.run(tr, task[1], postorder=True)
        return
    from torchtree.evolution import tree_height_transform as tht
    from torchtree.evolution import tree_model as tm

    if task[0] == 'device':
        return device_task(task, tr)
    _, topology, n, kind, batched = task
    cls = tht.GeneralNodeHeightTransform if kind == 'ratio' else tht.DifferenceNodeHeightTransform
    tr.fn(cls._call, cls._inverse, tm.TimeTreeModel.branch_lengths, tm.ReparameterizedTimeTreeModel.update_node_heights,
          tm.heights_to_branch_lengths)
    if kind == 'ratio':
        tr.fn(cls.update_bounds)
    label = f'{kind} topology={cm.to_newick(topology)} batched={batched}'
    tr.bounds['trees'] = 'all labelled rooted binary topologies n<=4 (quick) / n<=5 (thorough); shapes [] and [2]'
    ex = Explorer(witness0(n, kind, batched), domain_fn(topology, n, kind, batched),
                  make_body(topology, n, kind, batched), tr, max_regions=200, timeout=30.0, label=label,
                  deadline=time.time() + 900)
    out = ex.run()
    for s in out.region_samples[:1]:
        s['case'] = label
        tr.sample(s)
    triage(out, lambda vals: replay(topology, n, kind, batched, vals), tr, label,
           {'topology': cm.to_newick(topology), 'n': n, 'kind': kind, 'batched': batched})


# ------------------------------------------------------------------ device / dtype clause
def device_task(task, tr):
    """Moving the model between devices/dtypes must not change the parameterisation in force:
    after cpu()/to(float64) and a parameter update, node heights must be the same expression as
    those of a freshly built model holding the same symbols."""
    from symtorch import tracing
    from torchtree.evolution import tree_model as tm

    _, topology, n, kind, move = task
    tr.fn(tm.ReparameterizedTimeTreeModel.cpu, tm.ReparameterizedTimeTreeModel.cuda)
    label = f'device/dtype move={move} {kind} topology={cm.to_newick(topology)}'
    with tracing() as t:
        d = t.dag
        W = witness0(n, kind, False)
        V = {k: d.var(k, v) for k, v in W.items()}

        def fresh():
            tree, dic = build_model(topology, n, kind)
            set_sampling_times(tree, V, n)
            return tree, dic

        def assign(dic):
            if kind == 'ratio':
                x = cm.var_tensor(V, [f'r0_{j}' for j in range(n - 2)] + ['root0'])
                dic['tree.ratios'].tensor = x[:-1]
                dic['tree.root_height'].tensor = x[-1:]
            else:
                dic['tree.shifts'].tensor = cm.var_tensor(V, [f'x0_{j}' for j in range(n - 1)])

        ref, rdic = fresh()
        assign(rdic)
        ref_h = ref.node_heights._ids.tolist()
        tree, dic = fresh()
        _ = tree.node_heights
        try:
            if move == 'cpu':
                tree.cpu()
            else:
                tree.to(torch.float64)
            assign(dic)
            got = tree.node_heights
        except Exception as e:
            tr.violation(f'device:{kind}:{move}:raises', f'{label}: raises {type(e).__name__}: {e}', {'label': label})
            return
        tr.witness_runs += 1
        tr.ops_checked += t.nchecked
        tr.regions += 1
        goal = d.and_(*[d.eq(a, b) for a, b in zip(got._ids.tolist(), ref_h)])
        dom = domain_fn(topology, n, kind, False)(d, V)

        def rp(vals):
            return replay_device(topology, n, kind, move, vals)

        cm.discharge(tr, d, dom + list(t.pcs), [('node heights after the move == fresh model', goal)], label,
                     replay=rp, varnodes=V, sig_prefix=f'device:{kind}:{move}:')


def replay_device(topology, n, kind, move, vals):
    def fresh():
        tree, dic = build_model(topology, n, kind)
        tree.sampling_times = torch.tensor([vals.get(f's{i}', 0.0) for i in range(n)], dtype=torch.float64)
        if hasattr(tree.transform, 'update_bounds'):
            tree.transform.update_bounds()
        return tree, dic

    def assign(dic):
        if kind == 'ratio':
            dic['tree.ratios'].tensor = torch.tensor([vals.get(f'r0_{j}', 0.5) for j in range(n - 2)], dtype=torch.float64)
            dic['tree.root_height'].tensor = torch.tensor([vals.get('root0', 10.0)], dtype=torch.float64)
        else:
            dic['tree.shifts'].tensor = torch.tensor([vals.get(f'x0_{j}', 1.0) for j in range(n - 1)], dtype=torch.float64)

    ref, rdic = fresh()
    assign(rdic)
    want = ref.node_heights
    tree, dic = fresh()
    _ = tree.node_heights
    try:
        tree.cpu() if move == 'cpu' else tree.to(torch.float64)
        assign(dic)
        got = tree.node_heights
    except Exception as e:
        return True, f'raises {type(e).__name__}: {e}'
    if got.shape != want.shape or not torch.allclose(got, want, rtol=1e-9, atol=1e-12):
        return True, f'node heights after {move}() = {got.tolist()} but a fresh {kind} model gives {want.tolist()}'
    return False, 'agree'


def tasks_for(tier):
    ts = []
    ns = (3, 4) if tier == 'quick' else (3, 4, 5)
    for n in ns:
        topos = cm.rooted_topologies(n) if (n <= 4 or tier == 'thorough') else []
        if tier == 'quick' and n == 4:
            topos = cm.pick_topologies(4, 'quick', quick_max=6)
        if n == 5:
            topos = cm.pick_topologies(5, 'quick', quick_max=20)
        for topo in topos:
            for kind in ('ratio', 'shift'):
                ts.append(('tree', topo, n, kind, False))
                if n <= 3 or (tier == 'thorough' and n <= 4):
                    ts.append(('tree', topo, n, kind, True))
            if n == 3:
                ts.append(('tree', topo, n, 'shift-smooth', False))
                ts.append(('tree', topo, n, 'shift-smooth', True))
    for kind in ('ratio', 'shift'):
        for move in ('cpu', 'to'):
            ts.append(('device', cm.balanced(4), 4, kind, move))
            ts.append(('device', cm.caterpillar(3), 3, kind, move))
    return ts


def body(chk):
    chk.explanation = ('symbolic execution of the real node-height transforms and time-tree models; sampling-time '
                       'orderings are path regions enumerated until the solver certifies coverage; tip placement, '
                       'parent>=child, branch lengths, the documented recursion, both inverse identities and the '
                       'device/dtype clause are proved for all real parameter values on every region')
    chk.total.assumptions |= {'transform tasks: sampling times are injected as a symbolic tensor after construction; how dates '
                              'become sampling times is decided by the dates sub-check (CrossHair) for symbolic dates',
                              'cuda() is exercised through cpu()/to(dtype): no GPU in the sandbox'}
    pmap(run_task, [('dates', chk.tier)] + list(tasks_for(chk.tier)), chk.total)


if __name__ == '__main__':
    if '--replay' in sys.argv:
        import json

        r = json.load(open(sys.argv[sys.argv.index('--replay') + 1]))
        print('replay:', r['what'])
        sys.exit(1)
    sys.exit(main_for(PID, body))
