"""C06 Node-height parameterisations yield a valid time tree and are invertible.

The real GeneralNodeHeightTransform / DifferenceNodeHeightTransform /
TimeTreeModel / ReparameterizedTimeTreeModel code is executed on symbolic
sampling times, ratios, root height, increments (single and batched) for every
rooted topology up to the bound; orderings of the sampling times are path
regions with a coverage certificate.
"""
from __future__ import annotations

import sys
import time

import torch

import common as cm
from symtorch import SymTensor, from_ids, new_vars
from symtorch.explore import Explorer, Goal, triage
from vlib.core import main_for, pmap

PID = 'C06'


def index_tree(topology, n):
    import itertools

    children = {}
    counter = itertools.count(n)

    def rec(t):
        if not isinstance(t, tuple):
            return t
        cs = [rec(c) for c in t]
        i = next(counter)
        children[i] = cs
        return i

    root = rec(topology)
    return root, children


def dmax(d, a, b):
    return d.ite(d.le(a, b), b, a)


def build_model(topology, n, kind):
    js = cm.ratio_tree_json(topology, n) if kind == 'ratio' else cm.shift_tree_json(topology, n)
    js['taxa'] = cm.taxa_json(n)
    tree, dic = cm.build(js)
    if kind == 'shift-smooth':
        # smooth-maximum variant (k > 0) of the increment transform
        from torchtree.evolution.tree_height_transform import DifferenceNodeHeightTransform

        tree.transform = DifferenceNodeHeightTransform(tree, k=2.0)
    return tree, dic


def set_sampling_times(tree, V, n, batch=None):
    st = cm.var_tensor(V, [f's{i}' for i in range(n)])
    tree.sampling_times = st
    if hasattr(tree.transform, 'update_bounds'):
        tree.transform.update_bounds()
    return st


def make_body(topology, n, kind, batched):
    from torchtree.evolution.tree_model import heights_to_branch_lengths

    root, children = index_tree(topology, n)
    parent = {c: p for p, cs in children.items() for c in cs}
    B = 2 if batched else 1

    def body(t, V, W):
        d = t.dag
        tree, dic = build_model(topology, n, kind)
        set_sampling_times(tree, V, n)
        S = [V[f's{i}'] for i in range(n)]
        goals = []
        from symtorch.axioms import ground_axioms as _ga
        # ---- parameters (batched: two independent rows)
        rows = []
        for b in range(B):
            if kind == 'ratio':
                rows.append([V[f'r{b}_{j}'] for j in range(n - 2)] + [V[f'root{b}']])
            else:
                rows.append([V[f'x{b}_{j}'] for j in range(n - 1)])
        ids = torch.tensor(rows if batched else rows[0], dtype=torch.int64)
        x = from_ids(ids)
        if kind == 'shift-smooth' and False:
            pass
        if kind == 'ratio':
            if batched:
                dic['tree.ratios'].tensor = x[..., :-1]
                dic['tree.root_height'].tensor = x[..., -1:]
            else:
                dic['tree.ratios'].tensor = x[:-1]
                dic['tree.root_height'].tensor = x[-1:]
        else:
            dic['tree.shifts'].tensor = x
        nh = tree.node_heights
        bl = tree.branch_lengths()
        if tuple(nh.shape) != ((B,) if batched else ()) + (2 * n - 1,):
            goals.append(Goal('node_heights shape', d.FALSE, signature=f'{kind}:shape'))
            return goals
        for b in range(B):
            h = (nh[b] if batched else nh)._ids.tolist()
            blb = (bl[b] if batched else bl)._ids.tolist()
            tag = f'[sample {b}] ' if batched else ''
            # independent oracle for the documented parameterisation
            bound = {i: S[i] for i in range(n)}
            for p in sorted(children):
                bound[p] = dmax(d, bound[children[p][0]], bound[children[p][1]])
            oh = {i: S[i] for i in range(n)}
            if kind == 'ratio':
                oh[root] = rows[b][-1]
                for p in sorted(children, reverse=True):  # parents before children (post-order numbering)
                    for c in children[p]:
                        if c in children:
                            r = rows[b][c - n]
                            oh[c] = d.add(bound[c], d.mul(r, d.sub(oh[p], bound[c])))
            elif kind == 'shift':
                for p in sorted(children):
                    oh[p] = d.add(dmax(d, oh[children[p][0]], oh[children[p][1]]), rows[b][p - n])
            else:
                two = d.const(2.0)
                for p in sorted(children):
                    l_, r_ = oh[children[p][0]], oh[children[p][1]]
                    lse = d.log(d.add(d.exp(d.mul(l_, two)), d.exp(d.mul(r_, two))))
                    oh[p] = d.add(d.div(lse, two), rows[b][p - n])
            # (1) tips at their sampling time
            goals.append(Goal(tag + 'tips sit at their sampling times',
                              d.and_(*[d.eq(h[i], S[i]) for i in range(n)]), signature=f'{kind}:tips'))
            # (2) validity
            from symtorch.axioms import ground_axioms as _ga

            og = d.and_(*[d.le(h[c], h[p]) for c, p in parent.items()])
            goals.append(Goal(tag + 'every parent at least as old as its children', og,
                              hyps=_ga(d, [og], monotone=True) if kind == 'shift-smooth' else [], signature=f'{kind}:order'))
            # (3) branch lengths (indexed by the node below the branch)
            goals.append(Goal(tag + 'branch length == parent height - child height',
                              d.and_(*[d.eq(blb[c], d.sub(h[p], h[c])) for c, p in parent.items()]),
                              signature=f'{kind}:branch_lengths'))
            # (4) the documented parameterisation itself
            fg = d.and_(*[d.eq(h[v], oh[v]) for v in sorted(children)])
            goals.append(Goal(tag + 'heights == documented parameterisation (independent recursion)', fg,
                              hyps=_ga(d, [fg]) if kind == 'shift-smooth' else [], signature=f'{kind}:formula'))
        # (5) inverse
        heights_internal = nh[..., n:]
        back = tree.transform.inv(heights_internal)
        ig = d.and_(*[d.eq(a, b_) for a, b_ in zip(back._ids.reshape(-1).tolist(), ids.reshape(-1).tolist())]) \
            if back._ids.numel() == ids.numel() else d.FALSE
        goals.append(Goal('inv(forward(x)) == x', ig, hyps=_ga(d, [ig]) if kind == 'shift-smooth' else [],
                          signature=f'{kind}:inverse'))
        if tuple(back.shape) != tuple(x.shape):
            goals.append(Goal('inverse shape', d.FALSE, signature=f'{kind}:inverse-shape'))
        # forward(inv(y)) == y for an arbitrary valid height vector y
        if not batched:
            y = cm.var_tensor(V, [f'y{j}' for j in range(n - 1)])
            xx = tree.transform.inv(y)
            yy = tree.transform(xx)
            yg = d.and_(*[d.eq(a, b_) for a, b_ in zip(yy._ids.tolist(), y._ids.tolist())])
            goals.append(Goal('forward(inv(y)) == y', yg, hyps=_ga(d, [yg]) if kind == 'shift-smooth' else [],
                              signature=f'{kind}:forward-inverse'))
        # (6) heights_to_branch_lengths helper
        if kind == 'ratio' and not batched:
            bl2 = heights_to_branch_lengths(heights_internal, tree.transform._bounds, tree.preorder)
            goals.append(Goal('heights_to_branch_lengths == parent - child',
                              d.and_(*[d.eq(bl2._ids.tolist()[c], d.sub(h[p], h[c])) for c, p in parent.items()]),
                              signature='heights_to_branch_lengths'))
        return goals

    return body


def domain_fn(topology, n, kind, batched):
    root, children = index_tree(topology, n)
    parent = {c: p for p, cs in children.items() for c in cs}
    B = 2 if batched else 1

    def domain(d, V):
        cs = [d.le(0, V[f's{i}']) for i in range(n)]
        for b in range(B):
            if kind == 'ratio':
                for j in range(n - 2):
                    cs += [d.lt(0, V[f'r{b}_{j}']), d.lt(V[f'r{b}_{j}'], 1)]
                for i in range(n):
                    cs.append(d.lt(V[f's{i}'], V[f'root{b}']))
            else:
                for j in range(n - 1):
                    cs.append(d.lt(0, V[f'x{b}_{j}']))
        if not batched:
            # y: valid internal heights (strictly above children)
            hy = {i: V[f's{i}'] for i in range(n)}
            hy.update({n + j: V[f'y{j}'] for j in range(n - 1)})
            for c, p in parent.items():
                cs.append(d.lt(hy[c], hy[p]))
        return cs

    return domain


def witness0(n, kind, batched):
    W = {f's{i}': 0.3 * i for i in range(n)}
    for b in range(2 if batched else 1):
        if kind == 'ratio':
            for j in range(n - 2):
                W[f'r{b}_{j}'] = 0.3 + 0.1 * j + 0.05 * b
            W[f'root{b}'] = 5.0 + b
        else:
            for j in range(n - 1):
                W[f'x{b}_{j}'] = 0.7 + 0.2 * j + 0.1 * b
    if not batched:
        for j in range(n - 1):
            W[f'y{j}'] = 2.0 + j
    return W


# ------------------------------------------------------------------ replay
def replay(topology, n, kind, batched, vals):
    """plain tensors through the real classes; validity / inverse / branch lengths checked numerically"""
    root, children = index_tree(topology, n)
    parent = {c: p for p, cs in children.items() for c in cs}
    tree, dic = build_model(topology, n, kind)
    S = torch.tensor([vals.get(f's{i}', 0.0) for i in range(n)], dtype=torch.float64)
    tree.sampling_times = S
    if hasattr(tree.transform, 'update_bounds'):
        tree.transform.update_bounds()
    B = 2 if batched else 1
    rows = []
    for b in range(B):
        if kind == 'ratio':
            rows.append([vals.get(f'r{b}_{j}', 0.5) for j in range(n - 2)] + [vals.get(f'root{b}', 10.0)])
        else:
            rows.append([vals.get(f'x{b}_{j}', 1.0) for j in range(n - 1)])
    x = torch.tensor(rows if batched else rows[0], dtype=torch.float64)
    try:
        if kind == 'ratio':
            dic['tree.ratios'].tensor = x[..., :-1]
            dic['tree.root_height'].tensor = x[..., -1:]
        else:
            dic['tree.shifts'].tensor = x
        nh = tree.node_heights
        bl = tree.branch_lengths()
        back = tree.transform.inv(nh[..., n:])
    except Exception as e:
        return True, f'real code raised {type(e).__name__}: {e}'
    tol = 1e-9
    for b in range(B):
        h = (nh[b] if batched else nh).tolist()
        blb = (bl[b] if batched else bl).tolist()
        for i in range(n):
            if abs(h[i] - float(S[i])) > tol:
                return True, f'tip {i} at {h[i]} not at its sampling time {float(S[i])}'
        for c, p in parent.items():
            if h[p] < h[c] - tol:
                return True, f'parent {p} ({h[p]}) younger than child {c} ({h[c]})'
            if abs(blb[c] - (h[p] - h[c])) > tol:
                return True, f'branch length {c}: {blb[c]} != {h[p] - h[c]}'
        # documented formula
        bound = {i: float(S[i]) for i in range(n)}
        for p in sorted(children):
            bound[p] = max(bound[children[p][0]], bound[children[p][1]])
        oh = dict(bound)
        if kind == 'ratio':
            oh[root] = rows[b][-1]
            for p in sorted(children, reverse=True):
                for c in children[p]:
                    if c in children:
                        oh[c] = bound[c] + rows[b][c - n] * (oh[p] - bound[c])
        else:
            import math as _m

            oh = {i: float(S[i]) for i in range(n)}
            for p in sorted(children):
                l_, r_ = oh[children[p][0]], oh[children[p][1]]
                mx = max(l_, r_) if kind == 'shift' else _m.log(_m.exp(2.0 * l_) + _m.exp(2.0 * r_)) / 2.0
                oh[p] = mx + rows[b][p - n]
        for v in children:
            if abs(oh[v] - h[v]) > tol * max(1, abs(oh[v])):
                return True, f'height of node {v}: {h[v]} != documented {oh[v]}'
    if tuple(back.shape) != tuple(x.shape) or not torch.allclose(back, x, rtol=1e-8, atol=1e-9):
        return True, f'inv(forward(x)) = {back.tolist()} != x = {x.tolist()}'
    if not batched and all(f'y{j}' in vals for j in range(n - 1)):
        y = torch.tensor([vals[f'y{j}'] for j in range(n - 1)], dtype=torch.float64)
        yy = tree.transform(tree.transform.inv(y))
        if not torch.allclose(yy, y, rtol=1e-8, atol=1e-9):
            return True, f'forward(inv(y)) = {yy.tolist()} != y = {y.tolist()}'
    return False, 'agree'


def run_task(task, tr):
    if task[0] == 'dates':
        # sampling dates -> leaf heights with symbolic dates / newick tip orders (CrossHair, chk/c06_dates*.py)
        from chk import c06_dates

        c06_dates.run(tr, task[1], postorder=True)
        return
    from torchtree.evolution import tree_height_transform as tht
    from torchtree.evolution import tree_model as tm

    if task[0] == 'device':
        return device_task(task, tr)
    if task[0] == 'history':
        return history_task(task, tr)
    if task[0] == 'inplace':
        return inplace_task(task, tr)
    _, topology, n, kind, batched = task
    cls = tht.GeneralNodeHeightTransform if kind == 'ratio' else tht.DifferenceNodeHeightTransform
    tr.fn(cls._call, cls._inverse, tm.TimeTreeModel.branch_lengths, tm.ReparameterizedTimeTreeModel.update_node_heights,
          tm.heights_to_branch_lengths)
    if kind == 'ratio':
        tr.fn(cls.update_bounds)
    label = f'{kind} topology={cm.to_newick(topology)} batched={batched}'
    tr.bounds['trees'] = 'all labelled rooted binary topologies n<=4 (quick) / n<=5 (thorough); shapes [] and [2]'
    ex = Explorer(witness0(n, kind, batched), domain_fn(topology, n, kind, batched),
                  make_body(topology, n, kind, batched), tr, max_regions=200, timeout=30.0, label=label,
                  deadline=time.time() + 900)
    out = ex.run()
    for s in out.region_samples[:1]:
        s['case'] = label
        tr.sample(s)
    triage(out, lambda vals: replay(topology, n, kind, batched, vals), tr, label,
           {'topology': cm.to_newick(topology), 'n': n, 'kind': kind, 'batched': batched})


# ------------------------------------------------------------------ device / dtype clause
def device_task(task, tr):
    """Moving the model between devices/dtypes must not change the parameterisation in force:
    after cpu()/to(float64) and a parameter update, node heights must be the same expression as
    those of a freshly built model holding the same symbols."""
    from symtorch import tracing
    from torchtree.evolution import tree_model as tm

    _, topology, n, kind, move = task
    tr.fn(tm.ReparameterizedTimeTreeModel.cpu, tm.ReparameterizedTimeTreeModel.cuda)
    label = f'device/dtype move={move} {kind} topology={cm.to_newick(topology)}'
    with tracing() as t:
        d = t.dag
        W = witness0(n, kind, False)
        V = {k: d.var(k, v) for k, v in W.items()}

        def fresh():
            tree, dic = build_model(topology, n, kind)
            set_sampling_times(tree, V, n)
            return tree, dic

        def assign(dic):
            if kind == 'ratio':
                x = cm.var_tensor(V, [f'r0_{j}' for j in range(n - 2)] + ['root0'])
                dic['tree.ratios'].tensor = x[:-1]
                dic['tree.root_height'].tensor = x[-1:]
            else:
                dic['tree.shifts'].tensor = cm.var_tensor(V, [f'x0_{j}' for j in range(n - 1)])

        ref, rdic = fresh()
        assign(rdic)
        ref_h = ref.node_heights._ids.tolist()
        tree, dic = fresh()
        _ = tree.node_heights
        try:
            if move == 'cpu':
                tree.cpu()
            else:
                tree.to(torch.float64)
            assign(dic)
            got = tree.node_heights
        except Exception as e:
            tr.violation(f'device:{kind}:{move}:raises', f'{label}: raises {type(e).__name__}: {e}', {'label': label})
            return
        tr.witness_runs += 1
        tr.ops_checked += t.nchecked
        tr.regions += 1
        goal = d.and_(*[d.eq(a, b) for a, b in zip(got._ids.tolist(), ref_h)])
        dom = domain_fn(topology, n, kind, False)(d, V)

        def rp(vals):
            return replay_device(topology, n, kind, move, vals)

        cm.discharge(tr, d, dom + list(t.pcs), [('node heights after the move == fresh model', goal)], label,
                     replay=rp, varnodes=V, sig_prefix=f'device:{kind}:{move}:')


def replay_device(topology, n, kind, move, vals):
    def fresh():
        tree, dic = build_model(topology, n, kind)
        tree.sampling_times = torch.tensor([vals.get(f's{i}', 0.0) for i in range(n)], dtype=torch.float64)
        if hasattr(tree.transform, 'update_bounds'):
            tree.transform.update_bounds()
        return tree, dic

    def assign(dic):
        if kind == 'ratio':
            dic['tree.ratios'].tensor = torch.tensor([vals.get(f'r0_{j}', 0.5) for j in range(n - 2)], dtype=torch.float64)
            dic['tree.root_height'].tensor = torch.tensor([vals.get('root0', 10.0)], dtype=torch.float64)
        else:
            dic['tree.shifts'].tensor = torch.tensor([vals.get(f'x0_{j}', 1.0) for j in range(n - 1)], dtype=torch.float64)

    ref, rdic = fresh()
    assign(rdic)
    want = ref.node_heights
    tree, dic = fresh()
    _ = tree.node_heights
    try:
        tree.cpu() if move == 'cpu' else tree.to(torch.float64)
        assign(dic)
        got = tree.node_heights
    except Exception as e:
        return True, f'raises {type(e).__name__}: {e}'
    if got.shape != want.shape or not torch.allclose(got, want, rtol=1e-9, atol=1e-12):
        return True, f'node heights after {move}() = {got.tolist()} but a fresh {kind} model gives {want.tolist()}'
    return False, 'agree'


# ------------------------------------------------------------------ update histories
# The clauses "every tip sits at its sampling time / every branch length equals parent height minus child
# height / heights follow the parameterisation" are claims about what the model RETURNS, and the model caches
# node heights, branch lengths and the value of __call__ behind three flags.  A history is a sequence of reads
# (branch_lengths(), node_heights, model()) and writes (every public route by which ratios / root height /
# shifts / internal heights are replaced, with or without a change of the sample shape).  Every write stores
# FRESH symbols, every read is compared on the spot with the independent recursion evaluated on the symbols
# that are in force at that moment, for all sampling times and all parameter values of all epochs.  The
# structure of the history is enumerated (all sequences up to the bound), its values are symbolic.
H_READS = {'ratio': ('bl', 'nh', 'call'), 'shift': ('bl', 'nh', 'call'), 'heights': ('bl', 'nh')}
# a trailing '*' = the write also switches the sample shape ([] <-> [2]); such a write replaces every part
H_WRITES = {'ratio': ('ratios', 'root', 'both', 'cat', 'both*', 'cat*'),
            'shift': ('shifts', 'shifts*'),
            'heights': ('heights', 'heights*')}
H_PARTS = {'ratio': ('r', 'root'), 'shift': ('x',), 'heights': ('y',)}
H_WRITTEN = {'ratios': ('r',), 'root': ('root',), 'both': ('r', 'root'), 'cat': ('r', 'root'),
             'shifts': ('x',), 'heights': ('y',)}
H_READ_NAME = {'bl': 'branch_lengths', 'nh': 'node_heights', 'call': 'call'}


def h_width(part, n):
    return {'r': n - 2, 'root': 1, 'x': n - 1, 'y': n - 1}[part]


def h_names(part, n, e, b):
    if part == 'root':
        return [f'root{e}_{b}']
    return [f'{part}{e}_{b}_{j}' for j in range(h_width(part, n))]


def h_histories(kind, pattern, toggles=True):
    """all histories with the given read/write skeleton, e.g. 'RWR' (toggles=False: without the shape-changing writes)"""
    import itertools

    writes = [w for w in H_WRITES[kind] if toggles or not w.endswith('*')]
    return list(itertools.product(*[(H_READS[kind] if c == 'R' else writes) for c in pattern]))


def h_patterns(length):
    """skeletons of exactly `length` operations that end in a read (every shorter history that ends in a read
    is a prefix of one of them, and every read of a history is checked, not only the last one)"""
    import itertools

    return [''.join(p) + 'R' for p in itertools.product('RW', repeat=length - 1)]


def h_build(topology, n, kind):
    if kind == 'heights':
        js = cm.time_tree_json(topology, n)
        js['taxa'] = cm.taxa_json(n)
        return cm.build(js)
    return build_model(topology, n, kind)


def h_execute(topology, n, kind, hist, S, value, on_read):
    """Run one history on the REAL model.  S: sampling-time tensor; value(part, e, batched) -> tensor that a write
    stores; on_read(k, op, returned value, state) with state = (batched, {part: epoch in force}).
    The same driver serves the symbolic run (SymTensors) and the concrete replay (plain tensors)."""
    tree, dic = h_build(topology, n, kind)
    tree.sampling_times = S
    if hasattr(getattr(tree, 'transform', None), 'update_bounds'):
        tree.transform.update_bounds()
    batched = False
    cur = {}
    epoch = 0

    def store(op):
        base = op.rstrip('*')
        parts = H_PARTS[kind] if op.endswith('*') or base == 'init' else H_WRITTEN[base]
        vals = {p: value(p, epoch, batched) for p in parts}
        if kind == 'ratio' and base == 'cat':
            # the route from_json(keep_branch_lengths) uses: the setter of the concatenated parameter
            tree._internal_heights.tensor = torch.cat((vals['r'], vals['root']), -1)
        else:
            for p in parts:
                dic[{'r': 'tree.ratios', 'root': 'tree.root_height', 'x': 'tree.shifts', 'y': 'tree.heights'}[p]].tensor = vals[p]
        for p in parts:
            cur[p] = epoch

    store('init')
    for k, op in enumerate(hist):
        if op in H_READ_NAME:
            if op == 'bl':
                got = tree.branch_lengths()
            elif op == 'nh':
                got = tree.node_heights
            else:
                got = tree()
            on_read(k, op, got, (batched, dict(cur)))
        else:
            epoch += 1
            if op.endswith('*'):
                batched = not batched
            store(op)


def h_variables(n, kind, pattern, toggles=True):
    """name -> generic witness for every symbol a history with this skeleton can store"""
    W = {f's{i}': 0.3 * i for i in range(n)}
    nw = pattern.count('W')
    for e in range(nw + 1):
        for b in range(2 if (nw and toggles) else 1):
            off = 0.07 * e + 0.03 * b
            for p in H_PARTS[kind]:
                for j, name in enumerate(h_names(p, n, e, b)):
                    W[name] = {'r': 0.3 + 0.1 * j + off, 'root': 5.0 + 10 * off, 'x': 0.7 + 0.2 * j + off,
                               'y': 2.0 + j + off}[p]
    return W


def h_domain(n, kind, parent):
    def domain(d, V):
        cs = [d.le(0, V[f's{i}']) for i in range(n)]
        for name in V:
            if name.startswith('root'):
                cs += [d.lt(V[f's{i}'], V[name]) for i in range(n)]
            elif name.startswith('r'):
                cs += [d.lt(0, V[name]), d.lt(V[name], 1)]
            elif name.startswith('x'):
                cs.append(d.lt(0, V[name]))
            elif name.startswith('y') and name.endswith('_0'):
                # plain TimeTreeModel: every stored vector of internal heights is a valid one (parent above child)
                e, b = name[1:].split('_')[:2]
                hy = {i: V[f's{i}'] for i in range(n)}
                hy.update({n + j: V[x] for j, x in enumerate(h_names('y', n, e, b))})
                cs += [d.lt(hy[c], hy[p]) for c, p in parent.items()]
        return cs

    return domain


def h_oracle(d, n, root, children, kind, S, row, log=True):
    """independent recursion for one sample: node -> height node, and log|det J| of the parameterisation"""
    bound = {i: S[i] for i in range(n)}
    for p in sorted(children):
        bound[p] = dmax(d, bound[children[p][0]], bound[children[p][1]])
    oh = {i: S[i] for i in range(n)}
    jac = d.const(0.0)
    if kind == 'ratio':
        oh[root] = row['root'][0]
        for p in sorted(children, reverse=True):  # parents before children
            for c in children[p]:
                if c in children:
                    oh[c] = d.add(bound[c], d.mul(row['r'][c - n], d.sub(oh[p], bound[c])))
                    if log:
                        jac = d.add(jac, d.log(d.sub(oh[p], bound[c])))
    elif kind == 'shift':
        for p in sorted(children):
            oh[p] = d.add(dmax(d, oh[children[p][0]], oh[children[p][1]]), row['x'][p - n])
    else:
        for p in sorted(children):
            oh[p] = row['y'][p - n]
    return oh, jac


def h_oracle_float(n, root, children, kind, S, row):
    import math as _m

    bound = {i: S[i] for i in range(n)}
    for p in sorted(children):
        bound[p] = max(bound[children[p][0]], bound[children[p][1]])
    oh = {i: S[i] for i in range(n)}
    jac = 0.0
    if kind == 'ratio':
        oh[root] = row['root'][0]
        for p in sorted(children, reverse=True):
            for c in children[p]:
                if c in children:
                    oh[c] = bound[c] + row['r'][c - n] * (oh[p] - bound[c])
                    jac += _m.log(oh[p] - bound[c]) if oh[p] - bound[c] > 0 else float('nan')
    elif kind == 'shift':
        for p in sorted(children):
            oh[p] = max(oh[children[p][0]], oh[children[p][1]]) + row['x'][p - n]
    else:
        for p in sorted(children):
            oh[p] = row['y'][p - n]
    return oh, jac


def h_body(topology, n, kind, pattern, toggles, tr, label):
    root, children = index_tree(topology, n)
    parent = {c: p for p, cs in children.items() for c in cs}
    hists = h_histories(kind, pattern, toggles)
    guard_state = {'done': False, 'failed': []}

    def body(t, V, W):
        d = t.dag
        S = [V[f's{i}'] for i in range(n)]
        conj = {}  # read -> {equation node: first history that produced it}
        broken = {}  # signature suffix -> (description, history)
        oracle_cache = {}
        effects = {}  # (write, read) -> "the read returns the same before and after the write" (vacuity guard)

        def value(part, e, batched):
            rows = [[V[x] for x in h_names(part, n, e, b)] for b in range(2 if batched else 1)]
            return from_ids(torch.tensor(rows if batched else rows[0], dtype=torch.int64))

        for hist in hists:
            last = {}  # read -> (position, batched, element nodes) of its previous occurrence in this history

            def on_read(k, op, got, state, hist=hist, last=last):
                batched, cur = state
                B = 2 if batched else 1
                width = {'bl': 2 * n - 2, 'nh': 2 * n - 1}.get(op)
                want = ((2,) if batched else ()) + ((width,) if width else ())
                if tuple(got.shape) != want:
                    broken.setdefault(f'{H_READ_NAME[op]}-shape',
                                      (f'operation {k} ({op}) returns shape {tuple(got.shape)}, the parameters in force '
                                       f'have sample shape {want[:len(want) - (1 if width else 0)]}', hist))
                    return
                eqs = conj.setdefault(op, {})
                if op != 'call' and isinstance(got, SymTensor):
                    flat = got._ids.reshape(-1).tolist()
                    if op in last and last[op][0] == k - 2 and hist[k - 1] in H_WRITES[kind] and last[op][1] == batched:
                        effects.setdefault((hist[k - 1], op), d.and_(*[d.eq(a, b_) for a, b_ in zip(last[op][2], flat)]))
                    last[op] = (k, batched, flat)
                for b in range(B):
                    key = (b, tuple(sorted(cur.items())))
                    if key not in oracle_cache:
                        row = {p: [V[x] for x in h_names(p, n, e, b)] for p, e in cur.items()}
                        oracle_cache[key] = h_oracle(d, n, root, children, kind, S, row)
                    oh, jac = oracle_cache[key]
                    gb = got[b] if batched else got
                    # a result that carries no symbol at all (torch.zeros of the increment transform) is a constant
                    g = gb._ids.reshape(-1).tolist() if isinstance(gb, SymTensor) else \
                        [d.const(float(v)) for v in gb.reshape(-1).tolist()]
                    if op == 'nh':
                        new = [d.eq(g[v], oh[v]) for v in range(2 * n - 1)]
                        if kind != 'heights':
                            new += [d.le(g[c], g[p]) for c, p in parent.items()]
                    elif op == 'bl':
                        new = [d.eq(g[c], d.sub(oh[p], oh[c])) for c, p in parent.items()]
                    else:
                        new = [d.eq(g[0], jac)]
                    for e_ in new:
                        eqs.setdefault(e_, hist)

            try:
                h_execute(topology, n, kind, hist, cm.var_tensor(V, [f's{i}' for i in range(n)]), value, on_read)
            except Exception as e:
                if type(e).__name__ in ('UnsupportedOp', 'EngineError'):
                    raise
                broken.setdefault('raises', (f'raises {type(e).__name__}: {e}', hist))
        goals = []
        from symtorch.axioms import ground_axioms as _ga

        if effects and not guard_state['done']:
            # vacuity guard (solver): a write must be able to change what the next read returns, otherwise a stale
            # cache could not be told from a fresh value (`sat` expected)
            from symtorch.explore import prove

            guard_state['done'] = True
            hyps = h_domain(n, kind, parent)(d, V) + list(t.pcs)
            for (w, r), same in sorted(effects.items()):
                st, _, _ = prove(d, hyps, same, timeout=20.0, tr=tr, label=f'vacuity guard {w}/{r}')
                if st != 'refuted':
                    guard_state['failed'].append((w, r, st))
        what = {'nh': 'every node_heights read == tips at their sampling times, documented recursion on the parameters '
                      'in force, parent >= child',
                'bl': 'every branch_lengths() read == parent height - child height of the parameters in force',
                'call': 'every model() read == log|det J| of the parameters in force'}
        for op in H_READS[kind]:
            eqs = conj.get(op, {})
            if not eqs:
                continue
            node = d.and_(*eqs)
            goals.append(Goal(f'[{len(eqs)} distinct equations from {len(hists)} histories] {what[op]}', node,
                              hyps=_ga(d, [node]) if op == 'call' and kind == 'ratio' else [],
                              signature=f'{kind}:history:{H_READ_NAME[op]}'))
        for suffix, (desc, hist) in broken.items():
            goals.append(Goal(f'history {" ; ".join(hist)}: {desc}', d.FALSE, signature=f'{kind}:history:{suffix}'))
        return goals

    body.state = guard_state
    return body


def h_replay(topology, n, kind, pattern, toggles, vals, focus=None):
    """every history of the skeleton on plain tensors; returns (separates, detail, history).
    focus = signature suffix of the refuted goal ('branch_lengths', 'node_heights-shape', 'raises', ...): only that kind
    of discrepancy counts, so that what is reported is what the solver refuted"""
    root, children = index_tree(topology, n)
    parent = {c: p for p, cs in children.items() for c in cs}
    W = h_variables(n, kind, pattern, toggles)
    get = lambda name: float(vals.get(name, W.get(name, 0.5)))  # noqa: E731
    Sf = [get(f's{i}') for i in range(n)]
    tol = 1e-9

    def value(part, e, batched):
        rows = [[get(x) for x in h_names(part, n, e, b)] for b in range(2 if batched else 1)]
        return torch.tensor(rows if batched else rows[0], dtype=torch.float64)

    for hist in h_histories(kind, pattern, toggles):
        found = []

        def on_read(k, op, got, state):
            if found:
                return
            batched, cur = state
            width = {'bl': 2 * n - 2, 'nh': 2 * n - 1}.get(op)
            want = ((2,) if batched else ()) + ((width,) if width else ())
            if tuple(got.shape) != want:
                if focus in (None, H_READ_NAME[op] + '-shape'):
                    found.append(f'operation {k} ({H_READ_NAME[op]}) returns shape {tuple(got.shape)}, expected {want}')
                return
            if focus not in (None, H_READ_NAME[op]):
                return
            for b in range(2 if batched else 1):
                row = {p: [get(x) for x in h_names(p, n, e, b)] for p, e in cur.items()}
                oh, jac = h_oracle_float(n, root, children, kind, Sf, row)
                g = (got[b] if batched else got).reshape(-1).tolist()
                sc = max(1.0, max(abs(v) for v in oh.values()))
                if op == 'nh':
                    for v in range(2 * n - 1):
                        if not abs(g[v] - oh[v]) <= tol * sc:
                            found.append(f'operation {k} (node_heights): node {v} at {g[v]}, the parameters in force '
                                         f'put it at {oh[v]}' + (' (its sampling time)' if v < n else ''))
                            return
                elif op == 'bl':
                    for c, p in parent.items():
                        if not abs(g[c] - (oh[p] - oh[c])) <= tol * sc:
                            found.append(f'operation {k} (branch_lengths): branch {c} = {g[c]} but parent height - child '
                                         f'height = {oh[p] - oh[c]} for the parameters in force')
                            return
                else:
                    if not abs(g[0] - jac) <= 1e-8 * max(1.0, abs(jac)):
                        found.append(f'operation {k} (model()): {g[0]} but log|det J| = {jac} for the parameters in force')
                        return

        try:
            h_execute(topology, n, kind, hist, torch.tensor(Sf, dtype=torch.float64), value, on_read)
        except Exception as e:
            if focus in (None, 'raises') and not found:
                found.append(f'raises {type(e).__name__}: {e}')
        if found:
            return True, f'history [{" ; ".join(hist)}] (after the initial assignment): {found[0]}', list(hist)
    return False, 'agree', None


def history_task(task, tr):
    from torchtree.core import parameter as tp
    from torchtree.evolution import tree_model as tm

    _, topology, n, kind, pattern, toggles = task
    cls = tm.TimeTreeModel if kind == 'heights' else tm.ReparameterizedTimeTreeModel
    tr.fn(cls.node_heights.fget, cls.branch_lengths, cls.handle_parameter_changed, tm.TimeTreeModel.branch_lengths,
          tp.Parameter.fire_parameter_changed, tp.CatParameter.handle_parameter_changed)
    if kind != 'heights':
        tr.fn(cls.update_node_heights, cls._call, tm.CallableModel.__call__, tp.CatParameter.tensor.fset, tp.CatParameter.update)
    tr.bounds['histories'] = ('after the initial assignment, ALL sequences of <= 3 (quick) / 4 (thorough) operations over reads '
                              '{branch_lengths(), node_heights, model()} and writes {ratios, root height, both, both through the '
                              'CatParameter setter, shifts, internal heights of a plain TimeTreeModel; each also with a switch of '
                              'the sample shape [] <-> [2]}; every read of every history is checked; fresh symbols per write; '
                              'trees: all topologies n=3, caterpillar+balanced n=4 (quick) / all n<=4, two n=5 (thorough)')
    tr.assumptions.add('histories: writes go through the Parameter.tensor / CatParameter.tensor setters (the routes that notify '
                       'listeners by themselves); in-place edits of the tensor a Parameter keeps (tensor[...] = v, add_/mul_/copy_, '
                       'Parameter.copy_, ViewParameter setter) followed by fire_parameter_changed() are the in-place histories; an '
                       'in-place edit that is never announced notifies nobody by design and is outside both')
    tr.assumptions.add('histories: ReparameterizedTimeTreeModel.handle_model_changed is not reachable through any write (a tree '
                       'model holds parameters only, no sub-model ever notifies it); the histories exercise '
                       'handle_parameter_changed, directly and through CatParameter')
    tr.assumptions.add('histories: a shape-changing write replaces ratios and root height back to back (no read while their '
                       'sample shapes disagree)')
    label = f'history {kind} topology={cm.to_newick(topology)} skeleton={pattern}' + ('' if toggles else ' (same-shape writes only)')
    body = h_body(topology, n, kind, pattern, toggles, tr, label)
    parent = {c: p for p, cs in index_tree(topology, n)[1].items() for c in cs}
    ex = Explorer(h_variables(n, kind, pattern, toggles), h_domain(n, kind, parent), body, tr,
                  max_regions=200, timeout=30.0, label=label, deadline=time.time() + 900)
    out = ex.run()
    for s in out.region_samples[:1]:
        s['case'] = label
        tr.sample(s)
    # verdict policy of symtorch.explore.triage; the replay runs every history of the skeleton on plain tensors
    extra = {'topology': cm.to_newick(topology), 'n': n, 'kind': kind, 'skeleton': pattern, 'toggles': toggles}
    history_verdicts(out, body.state['failed'], lambda vals, focus: h_replay(topology, n, kind, pattern, toggles, vals, focus),
                     tr, label, extra, H_READ_NAME)


def history_verdicts(out, guard_failed, replay, tr, label, extra, read_name):
    """replay(values, focus) -> (separates, detail, history) runs every history of the task on plain tensors"""
    sigs = set()
    from symtorch.explore import _to_float

    for g, model, k, witness in out.failed:
        vals = {a: _to_float(b) for a, b in model.items() if b is not None}
        focus = g.signature.split(':')[-1]
        ok, detail, hist = replay(vals, focus)
        where = vals
        if not ok:
            ok, detail, hist = replay(witness, focus)
            where = witness
        if ok:
            if g.signature not in sigs:
                sigs.add(g.signature)
                tr.violation(g.signature, f'{label}: {detail} (at {where})', dict(extra, values=where, history=hist))
        else:
            tr.inconc(f'{label}: solver counterexample for "{g.label}" did not reproduce on the real code')
    for lab, detail, witness in out.unknown:
        ok, d2, hist = replay(witness, lab.split(':')[-1])
        if ok:
            if lab not in sigs:
                sigs.add(lab)
                tr.violation(lab, f'{label}: solver undecided but the witness point separates implementation and oracle: {d2}',
                             dict(extra, values=witness, history=hist))
        else:
            tr.inconc(f'{label}: {lab} undecided ({detail})')
    for w, r, st in guard_failed:
        msg = f'{label}: vacuity guard: write "{w}" does not change what the next {read_name[r]} read returns ({st})'
        if any(sg.endswith(':' + read_name[r]) for sg in sigs):
            tr.notes.append(msg + ' - the stale read reported as violation')
        else:
            tr.inconc(msg)


# ------------------------------------------------------------------ in-place update histories
# The optimiser idiom does not assign a new tensor: it keeps the tensor OBJECT a Parameter holds, writes into it
# (`p.tensor[...] = v`, `p.tensor.add_()/mul_()/copy_()`, `Parameter.copy_`, the ViewParameter setter) and announces the
# change with fire_parameter_changed().  Whatever is keyed on tensor identity (torch.distributions' Transform
# cache_size=1, `is` comparisons) is then stale although every flag was raised.  Under symtorch an in-place write keeps
# the SymTensor object, so identity-keyed memoisation behaves as it does with real tensors.  The harness keeps its
# own functional copy of every parameter (out-of-place arithmetic on tensors the model never sees); every read is
# compared with the independent recursion on that copy AND with a freshly built model that is handed the copy.
IP_READS = ('nh', 'bl', 'call', 'inv')
IP_READ_NAME = dict(H_READ_NAME, inv='inverse')
IP_PARAM_NAME = {'x': 'shifts', 'r': 'ratios', 'root': 'root_height', 'p': 'ratios_root_height'}
IP_SET = ('assign', 'setitem', 'copy_', 'pcopy_', 'view')  # kinds of write that store fresh symbols


def ip_spec(kind, n):
    """parameters [(name, element tags)] and write alphabet [(label, parameter, slice | None, how)] of a model kind:
    'shift' = increments; 'ratio' = ratios and root height as two Parameters (from_json joins them in a CatParameter);
    'ratio1' = ONE Parameter handed to the public constructor as ratios_root_height"""
    if kind == 'shift':
        params = [('x', ['x'] * (n - 1))]
        ops = [('x', None, h) for h in ('assign', 'setitem', 'add_', 'mul_', 'copy_', 'pcopy_')]
        ops += [('x', slice(0, 1), h) for h in ('setitem', 'add_', 'view')]
    elif kind == 'ratio':
        params = [('r', ['r'] * (n - 2)), ('root', ['root'])]
        ops = [('r', None, h) for h in ('assign', 'setitem', 'mul_', 'muladd_', 'copy_', 'pcopy_')]
        ops += [('r', slice(0, 1), 'view')]
        ops += [('root', None, h) for h in ('assign', 'setitem', 'add_', 'mul_', 'copy_', 'pcopy_')]
        ops += [('root', slice(0, 1), 'view')]
    else:
        params = [('p', ['r'] * (n - 2) + ['root'])]
        ops = [('p', None, h) for h in ('assign', 'setitem', 'mul_', 'copy_', 'pcopy_')]
        ops += [('p', slice(0, n - 2), h) for h in ('setitem', 'muladd_', 'view')]
        ops += [('p', slice(n - 2, n - 1), h) for h in ('setitem', 'add_', 'view')]
    return params, [(ip_label(*o), *o) for o in ops]


def ip_label(pname, sl, how):
    nm = IP_PARAM_NAME[pname]
    at = '...' if sl is None else f'..., {sl.start}:{sl.stop}'
    return {'assign': f'{nm}.tensor = v',
            'setitem': f'{nm}.tensor[{at}] = v; fire',
            'add_': f'{nm}.tensor[{at}].add_(d); fire',
            'mul_': f'{nm}.tensor[{at}].mul_(f); fire',
            'muladd_': f'{nm}.tensor[{at}].mul_(0.5).add_(d); fire',
            'copy_': f'{nm}.tensor.copy_(v); fire',
            'pcopy_': f'{nm}.copy_(v); fire',
            'view': f'ViewParameter({nm}, {at[5:]}).tensor = v'}[how]


def ip_build(topology, n, kind):
    """-> (model, {parameter name: Parameter}, {(parameter name, start, stop): ViewParameter})"""
    from torchtree.core.parameter import Parameter, ViewParameter

    params, ops = ip_spec(kind, n)
    if kind == 'ratio1':
        # the public constructor with a single plain Parameter (what a user who does not go through JSON writes)
        from torchtree.core.utils import process_object
        from torchtree.evolution.tree_model import ReparameterizedTimeTreeModel, initialize_dates_from_taxa, parse_tree

        taxa = process_object(cm.taxa_json(n), {})
        dtree = parse_tree(taxa, {'newick': cm.to_newick(topology)})
        initialize_dates_from_taxa(dtree, taxa)
        P = Parameter('tree.ratios_root_height', torch.tensor([0.5] * (n - 2) + [10.0], dtype=torch.float64))
        tree = ReparameterizedTimeTreeModel('tree', dtree, taxa, ratios_root_height=P)
        held = {'p': P}
    else:
        tree, dic = build_model(topology, n, kind)
        held = {'x': dic['tree.shifts']} if kind == 'shift' else {'r': dic['tree.ratios'], 'root': dic['tree.root_height']}
    views = {}
    for _, pname, sl, how in ops:
        if how == 'view':
            views[(pname, sl.start, sl.stop)] = ViewParameter(f'view.{pname}.{sl.start}', held[pname], sl)
    return tree, held, views


def ip_parts(kind, shadow):
    """the parameterisation's own view of the harness copy: part -> tensor"""
    if kind == 'shift':
        return {'x': shadow['x']}
    if kind == 'ratio':
        return {'r': shadow['r'], 'root': shadow['root']}
    return {'r': shadow['p'][..., :-1], 'root': shadow['p'][..., -1:]}


def ip_read(tree, n, op):
    if op == 'bl':
        return tree.branch_lengths()
    if op == 'nh':
        return tree.node_heights
    if op == 'call':
        return tree()
    return tree.transform.inv(tree.node_heights[..., n:])


def ip_execute(topology, n, kind, hist, S, value, on_read):
    """Run one history on the REAL model.  value(role, parameter, epoch) -> full-width tensor of the symbols (or numbers)
    of that epoch: role 'v' = value to store, 'd' = increment, 'f' = factor.  on_read(k, op, returned value, copy) with
    copy = the harness's functional copy {parameter: tensor}.  Serves the symbolic run and the concrete replay."""
    tree, held, views = ip_build(topology, n, kind)
    tree.sampling_times = S
    if hasattr(tree.transform, 'update_bounds'):
        tree.transform.update_bounds()
    shadow = {}
    for pname, P in held.items():
        v = value('v', pname, 0)
        P.tensor = v
        shadow[pname] = v.clone()
    epoch = 0
    for k, op in enumerate(hist):
        if op in IP_READS:
            on_read(k, op, ip_read(tree, n, op), dict(shadow))
            continue
        epoch += 1
        _, pname, sl, how = op
        P = held[pname]
        old = shadow[pname]

        def reg(t):
            return t if sl is None else t[..., sl]

        if how in IP_SET:
            v = reg(value('v', pname, epoch))
            new = v.clone()
            if how == 'assign':
                P.tensor = v
            elif how == 'view':
                views[(pname, sl.start, sl.stop)].tensor = v  # the setter writes into the parent's tensor and fires
            else:
                if how == 'setitem':
                    if sl is None:
                        P.tensor[...] = v
                    else:
                        P.tensor[..., sl] = v
                elif how == 'copy_':
                    P.tensor.copy_(v)
                else:
                    P.copy_(v)
                P.fire_parameter_changed()
        else:
            target = reg(P.tensor)  # a view: the write below lands in the tensor object the Parameter keeps
            if how == 'add_':
                dl = reg(value('d', pname, epoch))
                target.add_(dl)
                new = reg(old) + dl
            elif how == 'mul_':
                f = reg(value('f', pname, epoch))
                target.mul_(f)
                new = reg(old) * f
            else:
                dl = reg(value('d', pname, epoch))
                target.mul_(0.5).add_(dl)
                new = reg(old) * 0.5 + dl
            P.fire_parameter_changed()
        shadow[pname] = new if sl is None else torch.cat((old[..., :sl.start], new, old[..., sl.stop:]), -1)


def ip_histories(kind, n, pattern, chunk=None):
    import itertools

    ops = ip_spec(kind, n)[1]
    hs = list(itertools.product(*[(IP_READS if c == 'R' else ops) for c in pattern]))
    if chunk is not None:
        i, m = chunk
        hs = hs[i::m]
    return hs


IP_READ_SHOW = {'nh': 'read node_heights', 'bl': 'read branch_lengths()', 'call': 'read model()',
                'inv': 'read transform.inv(node_heights[n:])'}


def ip_show(hist):
    return ' ; '.join(IP_READ_SHOW[o] if isinstance(o, str) else o[0] for o in hist)


def ip_variables(n, kind, pattern, batched):
    """-> (name -> generic witness, name -> (role, element tag)) for every symbol a history of the skeleton can use"""
    W = {f's{i}': 0.3 * i for i in range(n)}
    tags = {}
    for pname, et in ip_spec(kind, n)[0]:
        for e in range(pattern.count('W') + 1):
            for b in range(2 if batched else 1):
                off = 0.07 * e + 0.03 * b
                for j, tag in enumerate(et):
                    for role in ('v', 'd', 'f') if e else ('v',):
                        name = f'{role}{pname}{e}_{b}_{j}'
                        tags[name] = (role, tag)
                        W[name] = {('v', 'x'): 0.7 + 0.2 * j + off, ('d', 'x'): 0.11 + 0.05 * j + off,
                                   ('f', 'x'): 1.3 + 0.1 * j + off,
                                   ('v', 'r'): 0.3 + 0.1 * j + off, ('d', 'r'): 0.05 + 0.04 * j + off / 2,
                                   ('f', 'r'): 0.6 + 0.05 * j + off / 2,
                                   ('v', 'root'): 5.0 + 10 * off, ('d', 'root'): 0.9 + off, ('f', 'root'): 1.5 + off}[(role, tag)]
    return W, tags


def ip_domain(n, tags, sorted_times=False):
    """sampling times >= 0 (sorted_times: only the ordering s0 <= s1 <= ... of them); stored values: increments > 0, ratios in (0,1), root height above every tip; in-place steps that keep them there:
    increments / root height: add_(d > 0), mul_(f > 0 resp. f > 1); ratios: mul_(f in (0,1)), mul_(1/2).add_(d in (0,1/2))"""
    def domain(d, V):
        cs = [d.le(0, V[f's{i}']) for i in range(n)]
        if sorted_times:
            cs += [d.le(V[f's{i}'], V[f's{i + 1}']) for i in range(n - 1)]
        for name, rt in tags.items():
            v = V[name]
            if rt == ('v', 'root'):
                cs += [d.lt(V[f's{i}'], v) for i in range(n)]
            elif rt in (('v', 'r'), ('f', 'r')):
                cs += [d.lt(0, v), d.lt(v, 1)]
            elif rt == ('d', 'r'):
                cs += [d.lt(0, v), d.lt(v, d.const(0.5))]
            elif rt == ('f', 'root'):
                cs.append(d.lt(1, v))
            else:
                cs.append(d.lt(0, v))
        return cs

    return domain


def ip_body(topology, n, kind, batched, hists, tr):
    import contextlib

    from symtorch.ext_c06 import lazy_pair_max

    root, children = index_tree(topology, n)
    parent = {c: p for p, cs in children.items() for c in cs}
    okind = 'shift' if kind == 'shift' else 'ratio'
    B = 2 if batched else 1
    widths = {pname: len(et) for pname, et in ip_spec(kind, n)[0]}
    guard_state = {'done': False, 'failed': []}

    def body(t, V, W):
        d = t.dag
        S = [V[f's{i}'] for i in range(n)]
        conj, broken, oracle_cache, fresh_cache, effects, in_force = {}, {}, {}, {}, {}, {}

        def value(role, pname, e):
            rows = [[V[f'{role}{pname}{e}_{b}_{j}'] for j in range(widths[pname])] for b in range(B)]
            return from_ids(torch.tensor(rows if batched else rows[0], dtype=torch.int64))

        def fresh(copy):
            """what a model built from scratch and handed the current parameter values returns"""
            key = tuple((p, tuple(c._ids.reshape(-1).tolist())) for p, c in sorted(copy.items()))
            if key not in fresh_cache:
                tree, held, _ = ip_build(topology, n, kind)
                tree.sampling_times = cm.var_tensor(V, [f's{i}' for i in range(n)])
                if hasattr(tree.transform, 'update_bounds'):
                    tree.transform.update_bounds()
                for pname, P in held.items():
                    P.tensor = copy[pname].clone()
                fresh_cache[key] = {op: ip_read(tree, n, op) for op in ('nh', 'bl', 'call')}
            return fresh_cache[key]

        def ids(x):
            return x._ids.reshape(-1).tolist() if isinstance(x, SymTensor) else [d.const(float(v)) for v in x.reshape(-1).tolist()]

        for hist in hists:
            last = {}

            def on_read(k, op, got, copy, hist=hist, last=last):
                width = {'bl': 2 * n - 2, 'nh': 2 * n - 1, 'inv': n - 1}.get(op)
                want = ((2,) if batched else ()) + ((width,) if width else ())
                if tuple(got.shape) != want:
                    broken.setdefault(f'{IP_READ_NAME[op]}-shape', (f'operation {k} ({op}) returns shape {tuple(got.shape)}, the '
                                                                     f'parameters in force have sample shape {want[:len(want) - (1 if width else 0)]}', hist))
                    return
                eqs = conj.setdefault(op, {})
                if op != 'call' and isinstance(got, SymTensor):
                    flat = got._ids.reshape(-1).tolist()
                    if op in last and last[op][0] == k - 2 and not isinstance(hist[k - 1], str):
                        effects.setdefault((hist[k - 1][0], op), d.and_(*[d.eq(a, b_) for a, b_ in zip(last[op][1], flat)]))
                    last[op] = (k, flat)
                parts = ip_parts(kind, copy)
                new = []
                for b in range(B):
                    row = {p: (c[b] if batched else c)._ids.tolist() for p, c in parts.items()}
                    key = tuple((p, tuple(v)) for p, v in sorted(row.items()))
                    if key not in oracle_cache:
                        oracle_cache[key] = h_oracle(d, n, root, children, okind, S, row)
                        for p, v in row.items():
                            for e_ in v:
                                in_force.setdefault(e_, p)
                    oh, jac = oracle_cache[key]
                    g = ids(got[b] if batched else got)
                    if op == 'nh':
                        new += [d.eq(g[v], oh[v]) for v in range(2 * n - 1)]
                        new += [d.le(g[c], g[p]) for c, p in parent.items()]
                    elif op == 'bl':
                        new += [d.eq(g[c], d.sub(oh[p], oh[c])) for c, p in parent.items()]
                    elif op == 'call':
                        new.append(d.eq(g[0], jac))
                    else:
                        cur = row['x'] if kind == 'shift' else row['r'] + row['root']
                        new += [d.eq(a, b_) for a, b_ in zip(g, cur)]
                if op != 'inv':
                    new += [d.eq(a, b_) for a, b_ in zip(ids(got), ids(fresh(copy)[op]))]
                for e_ in new:
                    if e_ != d.TRUE:
                        eqs.setdefault(e_, hist)
                tr.evaluations += len(new)

            try:
                with (lazy_pair_max() if kind == 'shift' else contextlib.nullcontext()):
                    ip_execute(topology, n, kind, hist, cm.var_tensor(V, [f's{i}' for i in range(n)]), value, on_read)
            except Exception as e:
                if type(e).__name__ in ('UnsupportedOp', 'EngineError'):
                    raise
                broken.setdefault('raises', (f'raises {type(e).__name__}: {e}', hist))
        goals = []
        from symtorch.axioms import ground_axioms as _ga

        if effects and not guard_state['done']:
            # vacuity guard (solver): a write must be able to change what the next read returns (`sat` expected)
            from symtorch.explore import prove

            guard_state['done'] = True
            hyps = body.domain(d, V) + list(t.pcs)
            for (w, r), same in sorted(effects.items()):
                st, _, _ = prove(d, hyps, same, timeout=20.0, tr=tr, label=f'vacuity guard {w}/{r}')
                if st != 'refuted':
                    guard_state['failed'].append((w, r, st))
        what = {'nh': 'every node_heights read == tips at their sampling times, documented recursion on the parameter values '
                      'in force, parent >= child, == fresh model',
                'bl': 'every branch_lengths() read == parent height - child height of the parameter values in force, == fresh model',
                'call': 'every model() read == log|det J| of the parameter values in force, == fresh model',
                'inv': 'every transform.inv(node_heights[n:]) read == the parameter values in force'}
        # A parameter value put in force by an in-place step is an expression (x + d, (r/2 + d) * f, ...).  No obligation of a
        # read depends on HOW the value in force came about, so every such expression is generalised to a fresh variable
        # that is only known to be a valid parameter value (sound: a proof of the generalised statement is a proof of every
        # instance); that the expressions ARE valid parameter values is a goal of its own.  A stale read still mentions the
        # symbols of an earlier state and is refuted exactly as before.
        def valid(e_, part):
            if part == 'root':
                return [d.lt(s_, e_) for s_ in S]
            return [d.lt(0, e_)] + ([d.lt(e_, 1)] if part == 'r' else [])

        compound = {e_: p for e_, p in in_force.items() if d.ops[e_] != 'var'}
        mapping = {e_: t.fresh('inforce', d.vals[e_]) for e_ in compound}
        gen_hyps = [c for e_, p in compound.items() for c in valid(mapping[e_], p)]
        if compound:
            goals.append(Goal(f'harness: the {len(compound)} distinct expressions that in-place steps put in force are valid parameter '
                              f'values (increments > 0, ratios in (0,1), root height above every tip)',
                              d.and_(*[c for e_, p in compound.items() for c in valid(e_, p)]),
                              signature=f'{kind}:inplace:harness-state'))
        # the generalised formulas are new terms: their own divisions / logarithms must be well defined for every valid
        # parameter value (the engine encodes a/b through an inverse of b and leaves b != 0 as an obligation), which the
        # explorer's own well-definedness query - it does not know the fresh variables are valid values - cannot show
        dens, doms = [], []
        hooks = (d.on_denominator, d.on_domain)
        d.on_denominator, d.on_domain = dens.append, (lambda k_, x_: doms.append((k_, x_)) if d.ops[x_] != 'const' else None)
        try:
            for op in IP_READS:
                eqs = conj.get(op, {})
                if not eqs:
                    if op in conj:
                        tr.obligation(f'trivial:{kind}:{op}', nontrivial=False)
                    continue
                node = d.and_(*eqs)
                if mapping:
                    node = d.substitute([node], mapping)[0]
                goals.append(Goal(f'[{len(eqs)} distinct non-trivial equations from {len(hists)} in-place histories] {what[op]}', node,
                                  hyps=gen_hyps + (_ga(d, [node]) if op == 'call' and kind != 'shift' else []),
                                  signature=f'{kind}:inplace:{IP_READ_NAME[op]}'))
            wd = [d.not_(d.eq(b_, 0)) for b_ in dict.fromkeys(dens)]
            wd += [d.lt(0, x_) if k_ == 'pos' else d.le(0, x_) for k_, x_ in dict.fromkeys(doms)]
            if wd:
                wdn = d.and_(*wd)
                goals.append(Goal(f'harness: the {len(wd)} divisions / logarithms of the generalised read obligations are well defined '
                                  f'for every valid parameter value', wdn, hyps=gen_hyps + _ga(d, [wdn]),
                                  signature=f'{kind}:inplace:harness-defined'))
        finally:
            d.on_denominator, d.on_domain = hooks
        for suffix, (desc, hist) in broken.items():
            goals.append(Goal(f'history {ip_show(hist)}: {desc}', d.FALSE, signature=f'{kind}:inplace:{suffix}'))
        return goals

    body.state = guard_state
    return body


def ip_replay(topology, n, kind, batched, hists, W, vals, focus=None):
    """every history of the task on plain tensors against the float recursion; -> (separates, detail, history)"""
    root, children = index_tree(topology, n)
    parent = {c: p for p, cs in children.items() for c in cs}
    okind = 'shift' if kind == 'shift' else 'ratio'
    widths = {pname: len(et) for pname, et in ip_spec(kind, n)[0]}
    B = 2 if batched else 1
    get = lambda name: float(vals.get(name, W.get(name, 0.5)))  # noqa: E731
    Sf = [get(f's{i}') for i in range(n)]
    tol = 1e-9

    def value(role, pname, e):
        rows = [[get(f'{role}{pname}{e}_{b}_{j}') for j in range(widths[pname])] for b in range(B)]
        return torch.tensor(rows if batched else rows[0], dtype=torch.float64)

    for hist in hists:
        found = []

        def on_read(k, op, got, copy):
            if found:
                return
            width = {'bl': 2 * n - 2, 'nh': 2 * n - 1, 'inv': n - 1}.get(op)
            want = ((2,) if batched else ()) + ((width,) if width else ())
            name = IP_READ_NAME[op]
            if tuple(got.shape) != want:
                if focus in (None, name + '-shape'):
                    found.append(f'operation {k} ({name}) returns shape {tuple(got.shape)}, expected {want}')
                return
            if focus not in (None, name):
                return
            parts = ip_parts(kind, copy)
            for b in range(B):
                row = {p: (c[b] if batched else c).tolist() for p, c in parts.items()}
                oh, jac = h_oracle_float(n, root, children, okind, Sf, row)
                g = (got[b] if batched else got).reshape(-1).tolist()
                sc = max(1.0, max(abs(v) for v in oh.values()))
                if op == 'nh':
                    for v in range(2 * n - 1):
                        if not abs(g[v] - oh[v]) <= tol * sc:
                            found.append(f'operation {k} (node_heights): node {v} at {g[v]}, the parameter values in force '
                                         f'put it at {oh[v]}' + (' (its sampling time)' if v < n else ''))
                            return
                    for c, p in parent.items():
                        if g[p] < g[c] - tol * sc:
                            found.append(f'operation {k} (node_heights): parent {p} ({g[p]}) younger than child {c} ({g[c]})')
                            return
                elif op == 'bl':
                    for c, p in parent.items():
                        if not abs(g[c] - (oh[p] - oh[c])) <= tol * sc:
                            found.append(f'operation {k} (branch_lengths): branch {c} = {g[c]} but parent height - child '
                                         f'height = {oh[p] - oh[c]} for the parameter values in force')
                            return
                elif op == 'call':
                    if not abs(g[0] - jac) <= 1e-8 * max(1.0, abs(jac)):
                        found.append(f'operation {k} (model()): {g[0]} but log|det J| = {jac} for the parameter values in force')
                        return
                else:
                    cur = row['x'] if kind == 'shift' else row['r'] + row['root']
                    for j, (a, b_) in enumerate(zip(g, cur)):
                        if not abs(a - b_) <= 1e-8 * max(1.0, abs(b_)):
                            found.append(f'operation {k} (transform.inv(node_heights[n:])): element {j} = {a} but the parameter '
                                         f'value in force is {b_}')
                            return

        try:
            ip_execute(topology, n, kind, hist, torch.tensor(Sf, dtype=torch.float64), value, on_read)
        except Exception as e:
            if focus in (None, 'raises') and not found:
                found.append(f'raises {type(e).__name__}: {e}')
        if found:
            return True, f'history [{ip_show(hist)}] (after the initial assignment): {found[0]}', ip_show(hist)
    return False, 'agree', None


def inplace_task(task, tr):
    from torchtree.core import parameter as tp
    from torchtree.evolution import tree_height_transform as tht
    from torchtree.evolution import tree_model as tm

    _, topology, n, kind, batched, pattern, chunk, sorted_times = task
    cls = tm.ReparameterizedTimeTreeModel
    tcls = tht.DifferenceNodeHeightTransform if kind == 'shift' else tht.GeneralNodeHeightTransform
    tr.fn(cls.__init__, cls.node_heights.fget, cls.update_node_heights, cls._call, cls.handle_parameter_changed,
          tm.TimeTreeModel.branch_lengths, tm.CallableModel.__call__, tcls._call, tcls._inverse, tcls.log_abs_det_jacobian,
          tp.Parameter.fire_parameter_changed, tp.Parameter.copy_, tp.ViewParameter.tensor.fset,
          tp.ViewParameter.handle_parameter_changed)
    if kind == 'ratio':
        tr.fn(tp.CatParameter.handle_parameter_changed, tp.CatParameter.update)
    tr.bounds['in-place histories'] = (
        'after the initial assignment, ALL sequences of exactly 3 (quick; thorough n>=4) / 4 (thorough, caterpillar n=3) operations that '
        'end in a read (every read of a history is checked, so shorter histories are covered as prefixes), over reads '
        '{branch_lengths(), node_heights, model(), transform.inv(node_heights[n:])} and, per Parameter, the writes {tensor = v; '
        'tensor[...] = v; tensor[..., a:b] = v; tensor.add_(d); tensor.mul_(f); tensor.mul_(0.5).add_(d); tensor[..., a:b].add_(d); '
        'tensor.copy_(v); Parameter.copy_(v); ViewParameter(parameter, a:b).tensor = v}, every in-place one followed by '
        'fire_parameter_changed() (the ViewParameter setter fires itself); models: increments (one Parameter), ratios + root '
        'height as two Parameters joined by from_json in a CatParameter, ONE Parameter passed as ratios_root_height to the public '
        'constructor; no transform.inv call is made except where the history says so; fresh symbols per write. '
        'quick: caterpillar n=3 with sample shapes [] and [2], caterpillar + balanced n=4 with shape []; sampling times: every '
        'ordering for increments and for n=3 / shape [], the single ordering s0<=s1<=... for ratios with n=4 or shape [2]. '
        'thorough: every ordering of the sampling times; length 4 on caterpillar n=3; all n=3 topologies and caterpillar + '
        'balanced n=4 with shapes [] and [2], the other 13 topologies n=4 with the skeleton read-write-read, caterpillar + '
        'balanced n=5 with read-write-read and write-read-read')
    tr.assumptions.add('in-place histories: every in-place write is announced with fire_parameter_changed() before the next read '
                       '(an unannounced in-place edit notifies nobody by design and stays outside); a write never changes the '
                       'sample shape; in-place steps keep the parameters valid (increments and root-height steps positive, '
                       'ratio steps inside (0,1))')
    tr.assumptions.add('in-place histories, increments: max over the two children is built as ite(a<=b, b, a) '
                       '(symtorch/ext_c06.py) instead of one path region per decision; exact on the whole domain')
    hists = ip_histories(kind, n, pattern, chunk)
    label = (f'in-place history {kind} topology={cm.to_newick(topology)} skeleton={pattern} sample shape={[2] if batched else []}'
             + (' sampling times s0<=s1<=...' if sorted_times else '') + (f' part {chunk[0] + 1}/{chunk[1]}' if chunk else ''))
    body = ip_body(topology, n, kind, batched, hists, tr)
    W, tags = ip_variables(n, kind, pattern, batched)
    body.domain = ip_domain(n, tags, sorted_times)
    # increments: products of symbols under nested ite - cvc5 closes these at once, z3 4.8 spends its first slot on them
    ex = Explorer(W, body.domain, body, tr, max_regions=200, timeout=30.0, label=label, deadline=time.time() + 900,
                  solvers=('cvc5', 'z3', 'z3new') if kind == 'shift' else ('z3', 'cvc5', 'z3new'))
    out = ex.run()
    for s in out.region_samples[:1]:
        s['case'] = label
        tr.sample(s)
    extra = {'topology': cm.to_newick(topology), 'n': n, 'kind': kind, 'skeleton': pattern, 'batched': batched, 'chunk': chunk,
             'sorted_times': sorted_times}
    history_verdicts(out, body.state['failed'], lambda vals, focus: ip_replay(topology, n, kind, batched, hists, W, vals, focus),
                     tr, label, extra, IP_READ_NAME)


def inplace_tasks(tier):
    """(topology, n, skeletons, sample shapes); only a skeleton with a read BEFORE a write can see a stale identity-keyed
    memo, W..R skeletons exercise the flags / CatParameter bookkeeping under mixed write kinds"""
    ts = []
    if tier == 'quick':
        cases = [(cm.caterpillar(3), 3, h_patterns(3), (False, True)),
                 (cm.caterpillar(4), 4, h_patterns(3), (False,)), (cm.balanced(4), 4, h_patterns(3), (False,))]
    else:
        cases = [(cm.caterpillar(3), 3, h_patterns(4), (False, True))]
        cases += [(t, 3, h_patterns(3), (False, True)) for t in cm.rooted_topologies(3)]
        cases += [(t, 4, h_patterns(3), (False, True)) for t in (cm.caterpillar(4), cm.balanced(4))]
        cases += [(t, 4, ('RWR',), (False,)) for t in cm.rooted_topologies(4) if t not in (cm.caterpillar(4), cm.balanced(4))]
        cases += [(cm.caterpillar(5), 5, ('RWR', 'WRR'), (False,)), (cm.balanced(5), 5, ('RWR', 'WRR'), (False,))]
    for topo, n, patterns, shapes in cases:
        for kind in ('shift', 'ratio', 'ratio1'):
            for batched in shapes:
                # ratios: every ordering of the sampling times is a path region of update_bounds and every region re-runs
                # every history, although nothing an in-place write touches depends on the ordering; the quick tier
                # keeps all orderings for n=3 / shape [] and one ordering otherwise (increments: no regions at all)
                sorted_times = tier == 'quick' and kind != 'shift' and (n > 3 or batched)
                for pattern in patterns:
                    # the write x write products are the long ones: split them so that no task dominates the wall time
                    m = 1 if kind == 'shift' or sorted_times else {0: 1, 1: 1, 2: 2 if n == 3 else 4}.get(pattern.count('W'), 8)
                    for i in range(m):
                        ts.append(('inplace', topo, n, kind, batched, pattern, (i, m) if m > 1 else None, sorted_times))
    return ts


def history_tasks(tier):
    """(topology, n, history length, shape-changing writes in the alphabet)"""
    if tier == 'quick':
        trees = [(t, 3, 3, True) for t in cm.rooted_topologies(3)] + [(cm.caterpillar(4), 4, 3, True), (cm.balanced(4), 4, 3, True)]
    else:
        trees = [(t, 3, 4, True) for t in cm.rooted_topologies(3)]
        trees += [(t, 4, 4, True) for t in cm.pick_topologies(4, 'quick', quick_max=6)]
        trees += [(t, 4, 3, True) for t in cm.rooted_topologies(4) if (t, 4, 4, True) not in trees]
        trees += [(cm.caterpillar(5), 5, 3, True), (cm.balanced(5), 5, 3, True)]
    ts = []
    for topo, n, length, toggles in trees:
        for kind in ('shift', 'ratio', 'heights'):
            if kind == 'heights' and topo not in (cm.caterpillar(3), cm.balanced(4)):
                continue  # plain TimeTreeModel: the cache logic does not involve the topology
            # increments: every (epoch, sample) in force adds its own max() decisions, the number of path regions is
            # exponential in the number of symbol rows; the shape-changing writes double the rows
            tg = toggles and (kind != 'shift' or n == 3 or (n == 4 and length == 3))
            for pattern in h_patterns(length):
                ts.append(('history', topo, n, kind, pattern, tg))
    return ts


def tasks_for(tier):
    ts = []
    ns = (3, 4) if tier == 'quick' else (3, 4, 5)
    for n in ns:
        topos = cm.rooted_topologies(n) if (n <= 4 or tier == 'thorough') else []
        if tier == 'quick' and n == 4:
            topos = cm.pick_topologies(4, 'quick', quick_max=6)
        if n == 5:
            topos = cm.pick_topologies(5, 'quick', quick_max=20)
        for topo in topos:
            for kind in ('ratio', 'shift'):
                ts.append(('tree', topo, n, kind, False))
                if n <= 3 or (tier == 'thorough' and n <= 4):
                    ts.append(('tree', topo, n, kind, True))
            if n == 3:
                ts.append(('tree', topo, n, 'shift-smooth', False))
                ts.append(('tree', topo, n, 'shift-smooth', True))
    for kind in ('ratio', 'shift'):
        for move in ('cpu', 'to'):
            ts.append(('device', cm.balanced(4), 4, kind, move))
            ts.append(('device', cm.caterpillar(3), 3, kind, move))
    ts = history_tasks(tier) + inplace_tasks(tier) + ts

    def weight(task):
        # longest first (rough): the pool hands tasks out in order and the last ones decide the wall time
        if task[0] == 'history':
            return 10 if (task[2] >= 4 and task[3] == 'shift') else 4
        if task[0] == 'inplace':
            return (8 if task[5].count('W') > 1 else 6) if (task[3] != 'shift' and not task[7]) else 3
        if task[0] == 'tree':
            return 5 if (task[2] >= 4 and task[3] == 'shift') else 1
        return 1

    return sorted(ts, key=lambda task: -weight(task))


def body(chk):
    chk.explanation = ('symbolic execution of the real node-height transforms and time-tree models; sampling-time '
                       'orderings are path regions enumerated until the solver certifies coverage; tip placement, '
                       'parent>=child, branch lengths, the documented recursion, both inverse identities and the '
                       'device/dtype clause are proved for all real parameter values on every region; update histories '
                       '(reads of branch_lengths()/node_heights/model() interleaved with every notifying write route, fresh '
                       'symbols per write, with and without a change of the sample shape) are enumerated up to a bound and '
                       'every read is proved equal to the recursion on the parameters in force (a stale cache still mentions '
                       'the old symbols), with a solver vacuity guard per write; in-place histories do the same for the optimiser '
                       'idiom (the tensor OBJECT of a Parameter is kept and written into: index write, add_/mul_/copy_, Parameter.copy_, '
                       'ViewParameter setter, then fire_parameter_changed()) on increments, on ratios + root height as two Parameters '
                       'and on ONE Parameter given to the public constructor, with transform.inv(node_heights[n:]) as a fourth kind of '
                       'read: the harness keeps a functional copy of every parameter, each read is proved equal to the recursion on '
                       'that copy and to a freshly built model handed the copy (identity-keyed memoisation of the model under test '
                       'behaves as with real tensors because an in-place write keeps the SymTensor object)')
    chk.total.assumptions |= {'transform and history tasks: sampling times are injected as a symbolic tensor after construction; how dates '
                              'become sampling times is decided by the dates sub-check (CrossHair) for symbolic dates',
                              'cuda() is exercised through cpu()/to(dtype): no GPU in the sandbox'}
    pmap(run_task, [('dates', chk.tier)] + list(tasks_for(chk.tier)), chk.total)


if __name__ == '__main__':
    if '--replay' in sys.argv:
        import json

        r = json.load(open(sys.argv[sys.argv.index('--replay') + 1]))
        print('replay:', r['what'])
        sys.exit(1)
    sys.exit(main_for(PID, body))
