"""C14 Variational objectives are exact at the true posterior.

The REAL objective classes (ELBO, multi-sample ELBO, VR, CUBO, KLpq) are built through from_json exactly as
the CLI emits them (joint = JointDistributionModel of torchtree `Distribution` wrappers [+ the Jacobian of
every TransformedParameter in a 'joint.jacobian' model], variational = JointDistributionModel of the
variational `Distribution`s) and executed symbolically:

  * hyper-parameters and data are symbols; the variational parameters are set to the exact conjugate
    posterior as expressions in those symbols (normal-normal, gamma-exponential, gamma-Poisson with symbolic
    integer data, LogNormal prior / LogNormal likelihood through lambda = exp(phi) with the Jacobian term,
    and two-block mean-field products of these);
  * the sampler (torch.distributions.<X>.rsample / sample) is a stub returning FRESH symbols for every call,
    constrained only to the support;
  * solver obligations, for sample shapes [S] and [S,K]:
      L1  per draw:  log p(z_s, data) - log q(z_s) == log Z(data, hyper-parameters)       (closed form)
      L2  every data-dependent decision taken on the run (support checks, max) holds on the whole domain
      L3  objective value == log Z, from L1 with the per-draw weights generalised to variables
          (ELBO with entropy=True is not draw-independent mathematically: there the exact statement is
          value == log Z + mean_s log q(z_s) + H[q], with closed-form log q and H)
      L4  all denominators non-zero / log, lgamma arguments positive
  * freshness: a second evaluation request (after the parameter-changed event the optimiser fires) uses a
    disjoint set of draw symbols, none of the first call's symbols survives in the value or in the cached
    model / variational densities, both densities mention exactly the new draws and the value is the same
    function of the new draws; a back-to-back request without any event is examined as well.

Counterexamples / undecided goals are replayed on the real classes with plain tensors, the sampler patched to
return the draw values, against log Z computed with mpmath (closed form cross-checked by quadrature).
"""
from __future__ import annotations

import contextlib
import json
import math
import os
import sys

if os.environ.get('TORCHTREE_REPO') and os.environ['TORCHTREE_REPO'] != '/repo':
    sys.path.insert(0, os.environ['TORCHTREE_REPO'])  # scratch copy for sensitivity experiments

import torch

import common as cm
import symtorch.ext_c14  # noqa: F401  (remainder handler)
from symtorch import SymTensor, new_vars, tracing
from symtorch.axioms import _addends, ground_axioms
from symtorch.explore import _to_float, prove
from vlib.core import main_for, pmap

PID = 'C14'
CHECK_BACK_TO_BACK = False  # caching until a change event is the CallableModel contract (the optimiser relies on it); only requests separated by an event are examined
C_LOG_SQRT_2PI = math.log(math.sqrt(2 * math.pi))  # the float constant in torch Normal.log_prob
C_HALF_LOG_2PI = 0.5 * math.log(2 * math.pi)  # the float constant in torch Normal.entropy

KINDS = ('normal', 'gamma_exp', 'gamma_poisson', 'lognormal_obs', 'lognormal_factor', 'beta_binomial')
EPS = torch.finfo(torch.float64).eps  # torch clamps Binomial probabilities to [EPS, 1 - EPS]
SAMPLER = {'normal': 'Normal', 'gamma_exp': 'Gamma', 'gamma_poisson': 'Gamma', 'lognormal_obs': 'Normal',
           'lognormal_factor': 'Normal', 'beta_binomial': 'Beta'}
DEFAULTS = {
    'normal': {'m0': [0.1], 's0': [1.5], 's': [0.8], 'y': [0.5, -0.2, 1.1]},
    'gamma_exp': {'a': [2.3], 'b': [1.7], 'y': [0.6, 1.3, 0.2]},
    'gamma_poisson': {'a': [2.3], 'b': [1.7], 'y': [2.0, 0.0, 3.0]},
    'lognormal_obs': {'m0': [0.1], 's0': [1.5], 's': [0.8], 'y': [0.7, 1.9, 1.2]},
    'lognormal_factor': {'m0': [0.1], 's0': [1.5], 's': [0.8], 'y': [0.5, -0.2, 1.1]},
    'beta_binomial': {'a': [2.3], 'b': [1.7], 'N': [5.0], 'y': [2.0, 4.0, 1.0]},
}


# ---------------------------------------------------------------------------------------- JSON (as the CLI)
def P(id_, v):
    return {'id': id_, 'type': 'Parameter', 'tensor': list(v)}


def Dist(id_, dist, x, params):
    return {'id': id_, 'type': 'Distribution', 'distribution': 'torch.distributions.' + dist, 'x': x, 'parameters': params}


def block_json(kind, n, pre):
    """-> (members of the joint, variational Distribution)"""
    D = DEFAULTS[kind]
    if kind == 'normal':
        prior = Dist(pre + 'prior', 'Normal', P(pre + 'x', [0.3]), {'loc': P(pre + 'm0', D['m0']), 'scale': P(pre + 's0', D['s0'])})
        like = Dist(pre + 'like', 'Normal', P(pre + 'y', D['y'][:n]), {'loc': pre + 'x', 'scale': P(pre + 's', D['s'])})
        q = Dist(pre + 'q', 'Normal', pre + 'x', {'loc': P(pre + 'qm', [0.2]), 'scale': P(pre + 'qs', [0.7])})
    elif kind in ('gamma_exp', 'gamma_poisson'):
        prior = Dist(pre + 'prior', 'Gamma', P(pre + 'x', [0.9]), {'concentration': P(pre + 'a', D['a']), 'rate': P(pre + 'b', D['b'])})
        like = Dist(pre + 'like', 'Exponential' if kind == 'gamma_exp' else 'Poisson', P(pre + 'y', D['y'][:n]), {'rate': pre + 'x'})
        q = Dist(pre + 'q', 'Gamma', pre + 'x', {'concentration': P(pre + 'qa', [2.0]), 'rate': P(pre + 'qb', [2.0])})
    elif kind == 'beta_binomial':
        prior = Dist(pre + 'prior', 'Beta', P(pre + 'x', [0.4]), {'concentration1': P(pre + 'a', D['a']), 'concentration0': P(pre + 'b', D['b'])})
        like = Dist(pre + 'like', 'Binomial', P(pre + 'y', D['y'][:n]), {'total_count': P(pre + 'N', D['N']), 'probs': pre + 'x'})
        q = Dist(pre + 'q', 'Beta', pre + 'x', {'concentration1': P(pre + 'qa', [2.0]), 'concentration0': P(pre + 'qb', [2.0])})
    else:
        lam = {'id': pre + 'lam', 'type': 'TransformedParameter', 'transform': 'torch.distributions.ExpTransform',
               'x': P(pre + 'x', [0.2])}
        prior = Dist(pre + 'prior', 'LogNormal', lam, {'loc': P(pre + 'm0', D['m0']), 'scale': P(pre + 's0', D['s0'])})
        if kind == 'lognormal_obs':  # y_i ~ LogNormal(phi, s)
            like = Dist(pre + 'like', 'LogNormal', P(pre + 'y', D['y'][:n]), {'loc': pre + 'x', 'scale': P(pre + 's', D['s'])})
        else:  # factors LogNormal(lambda ; y_i, s): densities in lambda itself
            like = Dist(pre + 'like', 'LogNormal', pre + 'lam', {'loc': P(pre + 'y', D['y'][:n]), 'scale': P(pre + 's', D['s'])})
        q = Dist(pre + 'q', 'Normal', pre + 'x', {'loc': P(pre + 'qm', [0.2]), 'scale': P(pre + 'qs', [0.7])})
    return [prior, like], q


def blocks_of(fam):
    ks = fam.split('+')
    return [(k, '' if len(ks) == 1 else 'ab'[i] + '_') for i, k in enumerate(ks)]


def model_json(fam, n, objective, oparams, shape):
    from torchtree.cli.jacobians import create_jacobians

    members, qs = [], []
    for kind, pre in blocks_of(fam):
        m, q = block_json(kind, n, pre)
        members += m
        qs.append(q)
    js = [{'id': 'joint', 'type': 'JointDistributionModel', 'distributions': members}]
    pid = 'joint'
    jac = create_jacobians(js)
    if jac:  # exactly what torchtree/cli/advi.py emits
        js.append({'id': 'joint.jacobian', 'type': 'JointDistributionModel', 'distributions': ['joint'] + jac})
        pid = 'joint.jacobian'
    js.append({'id': 'var', 'type': 'JointDistributionModel', 'distributions': qs})
    o = {'id': 'objective', 'type': objective, 'samples': list(shape), 'joint': pid, 'variational': 'var'}
    o.update(oparams)
    js.append(o)
    return js


def build_all(fam, n, objective, oparams, shape):
    import torchtree.distributions.distributions  # noqa: F401  (class registration, as the CLI's plugin loader does)
    import torchtree.distributions.joint_distribution  # noqa: F401
    import torchtree.variational  # noqa: F401

    dic = {}
    obj = None
    for js in model_json(fam, n, objective, oparams, shape):
        obj, _ = cm.build(js, dic)
    return obj, dic


# ---------------------------------------------------------------------------------------- sampler stub
@contextlib.contextmanager
def stubbed_sampler(make):
    """torch.distributions.{Normal,Gamma}.{rsample,sample} -> make(dist, method, sample_shape)"""
    import torch.distributions as D

    saved = {}
    for cls in (D.Normal, D.Gamma, D.Beta):  # the variational families used
        for meth in ('rsample', 'sample'):
            saved[(cls, meth)] = cls.__dict__.get(meth)

            def f(self, sample_shape=torch.Size(), _m=meth):
                return make(self, _m, torch.Size(sample_shape))

            setattr(cls, meth, f)
    try:
        yield
    finally:
        for (cls, meth), old in saved.items():
            if old is None:
                delattr(cls, meth)
            else:
                setattr(cls, meth, old)


def generic(kind, i, k):
    """generic witness / default value of the i-th element of the k-th draw"""
    u = ((i + 1) * 0.6180339887 + 0.137 * k) % 1.0
    if SAMPLER[kind] == 'Normal':
        return round(-0.9 + 2.3 * u, 6)
    if SAMPLER[kind] == 'Beta':
        return round(0.15 + 0.7 * u, 6)
    return round(0.25 + 1.9 * u, 6)


# ---------------------------------------------------------------------------------------- symbolic side
def sid(x):
    return int(x._ids.reshape(-1)[0])


def symbolic_block(kind, n, pre, dic, d, V, dom):
    """Symbolise hyper-parameters and data, set the variational parameters to the posterior.
    -> dict(logZ=node, logq=fn(z SymTensor)->SymTensor, H=node, qparams=[Parameter])"""

    def S(key, name=None):
        st = cm.symbolize(dic[pre + key], pre + (name or key))
        for i in st._ids.reshape(-1).tolist():
            V[d.args[i][0]] = i
        return st

    y = S('y')
    if kind in ('normal', 'lognormal_obs', 'lognormal_factor'):
        m0, s0, s = S('m0'), S('s0'), S('s')
        prec_w = float(1 / s0._v ** 2 + n / s._v ** 2)
        dic[pre + 'qs'].tensor = torch.tensor([prec_w ** -0.5], dtype=torch.float64)
        sn = S('qs', 'sn')
        # posterior sd as a symbol tied to the hyper-parameters by 1/sn^2 == 1/s0^2 + n/s^2, sn > 0.  The relation is
        # written with the very denominators 2*scale^2 that Normal.log_prob divides by (one shared inverse each), which
        # makes it linear for the solver
        I0, I1, I3 = 1 / (2 * s0 ** 2), 1 / (2 * s ** 2), 1 / (2 * sn ** 2)
        dom += [d.lt(0, sid(s0)), d.lt(0, sid(s)), d.lt(0, sid(sn)), d.eq(sid(I3), sid(I0 + n * I1))]
        if kind == 'normal':
            data = y
            shift, extra = 0.0, 0.0
        elif kind == 'lognormal_obs':
            dom += [d.lt(0, i) for i in y._ids.tolist()]
            data = y.log()
            shift, extra = 0.0, -data.sum()  # each LogNormal(y_i; phi, s) = N(log y_i; phi, s) / y_i
        else:
            data = y
            shift, extra = -float(n), 0.0  # each factor contributes exp(-phi); the Jacobian cancels the prior's
        qm = (2 * sn ** 2) * (m0 * I0 + data.sum() * I1 + shift / 2)
        dic[pre + 'qm'].tensor = qm
        logZ = (-n * C_LOG_SQRT_2PI - n * s.log() - s0.log() + sn.log() - (data ** 2).sum() * I1
                - m0 ** 2 * I0 + qm ** 2 * I3 + extra)

        def logq(z):
            return -(z - qm) ** 2 * I3 - sn.log() - C_LOG_SQRT_2PI

        H = 0.5 + C_HALF_LOG_2PI + sn.log()
        qparams = [dic[pre + 'qm'], dic[pre + 'qs']]
    elif kind == 'beta_binomial':
        a, b, N = S('a'), S('b'), S('N')
        d.uf_eval.setdefault('mod1', symtorch.ext_c14._mod1)
        dom += [d.lt(0, sid(a)), d.lt(0, sid(b)), d.eq(d.uf('mod1', sid(N)), 0)]
        for i in y._ids.tolist():  # integer counts 0 <= y_i <= N
            dom += [d.eq(d.uf('mod1', i), 0), d.le(0, i), d.le(i, sid(N))]
        qa, qb = a + y.sum(), b + n * N - y.sum()
        dic[pre + 'qa'].tensor = qa
        dic[pre + 'qb'].tensor = qb

        def lbeta(u, v):
            return torch.lgamma(u) + torch.lgamma(v) - torch.lgamma(u + v)

        logZ = (torch.lgamma(N + 1) * n - torch.lgamma(y + 1).sum() - torch.lgamma(N - y + 1).sum() + lbeta(qa, qb) - lbeta(a, b))

        def logq(z):
            return (qa - 1) * z.log() + (qb - 1) * (1 - z).log() - lbeta(qa, qb)

        H = (lbeta(qa, qb) - (qa - 1) * torch.digamma(qa) - (qb - 1) * torch.digamma(qb) + (qa + qb - 2) * torch.digamma(qa + qb))
        qparams = [dic[pre + 'qa'], dic[pre + 'qb']]
    else:
        a, b = S('a'), S('b')
        dom += [d.lt(0, sid(a)), d.lt(0, sid(b))] + [d.le(0, i) for i in y._ids.tolist()]
        if kind == 'gamma_exp':
            qa, qb = a + n, b + y.sum()
            logZ = a * b.log() - torch.lgamma(a) + torch.lgamma(qa) - qa * qb.log()
        else:
            for i in y._ids.tolist():  # integer data: the atom the Poisson support check evaluates
                d.uf_eval.setdefault('mod1', symtorch.ext_c14._mod1)
                dom.append(d.eq(d.uf('mod1', i), 0))
            qa, qb = a + y.sum(), b + n
            logZ = a * b.log() - torch.lgamma(a) + torch.lgamma(qa) - qa * qb.log() - torch.lgamma(y + 1).sum()
        dic[pre + 'qa'].tensor = qa
        dic[pre + 'qb'].tensor = qb

        def logq(z):
            return qa * qb.log() + (qa - 1) * z.log() - qb * z - torch.lgamma(qa)

        H = qa - qb.log() + torch.lgamma(qa) + (1.0 - qa) * torch.digamma(qa)
        qparams = [dic[pre + 'qa'], dic[pre + 'qb']]
    return {'logZ': logZ, 'logq': logq, 'H': H, 'qparams': qparams}


def unpack(task):
    """task = (family, n, objective, json options, constructor samples[, call-time samples]).
    -> family, n, objective, options, constructor shape, effective shape, keyword arguments of the request"""
    fam, n, objective, oparams, shape = task[:5]
    ctor = tuple(shape)
    call = tuple(task[5]) if len(task) > 5 and task[5] else None
    kw = {'samples': torch.Size(call)} if call else {}
    return fam, n, objective, oparams, ctor, (call or ctor), kw


def task_label(task):
    fam, n, objective, oparams, ctor, shape, kw = unpack(task)
    if kw:
        op = ''.join(f' {k}={v}' for k, v in sorted(oparams.items()))
        return f'{fam} n={n} {objective}{op} constructed samples={list(ctor)} called samples={list(shape)}'
    op = ''.join(f' {k}={v}' for k, v in sorted(oparams.items()))
    return f'{fam} n={n} {objective}{op} samples={list(shape)}'


def signature(objective, oparams, shape, what, override=False):
    if override:  # constructed with one shape, called with samples=<another>
        what = 'call-time-samples-override'
    kind = '[S]' if len(shape) == 1 else '[S,K]'
    name = objective + ('(entropy)' if oparams.get('entropy') else '')
    return f'{name}:{kind}:{what}'


def log_axioms(d, roots, mapping, guard):
    """Ground instances log(N * E) == log N + log E / log(c) for the sums that collapse once the per-draw
    weights are all equal (`mapping`: weight -> common value).  Each instance is guarded by `guard`
    (the conjunction of the weight equalities), under which it is a theorem of real analysis."""
    out = []
    for nnode in d.topo(list(roots)):
        if d.ops[nnode] != 'uf' or d.args[nnode][0] != 'log':
            continue
        x = d.args[nnode][1]
        x2 = d.substitute([x], dict(mapping))[0]
        terms = {}
        const = 0
        for c, t in _addends(d, x2):
            if t is None:
                const += c
            else:
                terms[t] = terms.get(t, 0) + c
        terms = {t: c for t, c in terms.items() if c != 0}
        if not terms and const > 0:
            rhs = d.log(d.const(const))
        elif len(terms) == 1 and const == 0:
            (e, c), = terms.items()
            if c <= 0 or not (d.ops[e] == 'uf' and d.args[e][0] == 'exp'):
                continue
            rhs = d.add(d.log(d.const(c)), d.args[e][1])
        else:
            continue
        out.append(d.or_(d.not_(guard), d.eq(nnode, rhs)))
    return out


def binary_logit_axioms(d, roots):
    """torch's Binomial.log_prob evaluates N*log(1+exp(-|l|)) with l = log(P) - log(1-P).  Instances of
         0 < P < 1  =>  (l >= 0 => log(1+exp(-|l|)) == -log P)  and  (l <= 0 => log(1+exp(-|l|)) == -log(1-P))
    (1 + (1-P)/P = 1/P and 1 + P/(1-P) = 1/(1-P)) for every such term that occurs."""
    out = []
    for X in d.topo(list(roots)):
        if d.ops[X] != 'uf' or d.args[X][0] != 'log' or d.ops[d.args[X][1]] != 'add':
            continue
        p0, p1 = d.args[d.args[X][1]]
        if p0 != 1:
            p0, p1 = p1, p0
        if p0 != 1 or d.ops[p1] != 'uf' or d.args[p1][0] != 'exp':
            continue
        m = d.args[p1][1]
        if d.ops[m] != 'mul' or d.ops[d.args[m][0]] != 'const' or d.cval(d.args[m][0]) != -1 or d.ops[d.args[m][1]] != 'ite':
            continue
        l_ = d.args[d.args[m][1]][1]
        if d.ops[l_] != 'add':
            continue
        for u, v in (d.args[l_], d.args[l_][::-1]):
            if (d.ops[u] == 'uf' and d.args[u][0] == 'log' and d.ops[v] == 'mul' and d.ops[d.args[v][0]] == 'const'
                    and d.cval(d.args[v][0]) == -1 and d.ops[d.args[v][1]] == 'uf' and d.args[d.args[v][1]][0] == 'log'):
                lP, lQ = u, d.args[v][1]
                Pn, Qn = d.args[lP][1], d.args[lQ][1]
                if Qn != d.add(1, d.neg(Pn)):
                    continue
                guard = d.and_(d.lt(0, Pn), d.lt(Pn, 1))
                out.append(d.or_(d.not_(guard), d.and_(d.or_(d.not_(d.le(0, l_)), d.eq(X, d.neg(lP))),
                                                       d.or_(d.not_(d.le(l_, 0)), d.eq(X, d.neg(lQ))))))
    return out


def float_log_assumptions(d, objective, counts):
    """The code subtracts the FLOAT constant log(K) (math.log(K) in VR, torch.tensor(float(K)).log() in ELBO);
    the real-number identity needs it to be the real log K: one hypothesis per sample count K that occurs."""
    out = []
    for K in sorted(set(counts)):
        if K < 2:
            continue
        cf = float(torch.tensor(float(K), dtype=torch.float64).log()) if objective == 'ELBO' else math.log(K)
        out.append(d.eq(d.log(d.const(K)), d.const(cf)))
    return out


def abstract(d, amap, formulas):
    return d.substitute(list(formulas), dict(amap))


def run_task(task, tr):
    from torchtree.core.container import Container
    from torchtree.core.model import CallableModel
    from torchtree.core.parameter import TransformedParameter
    from torchtree.distributions.distributions import Distribution
    from torchtree.distributions.joint_distribution import JointDistributionModel

    fam, n, objective, oparams, ctor, shape, kw = unpack(task)
    label = task_label(task)
    tr.bounds['models'] = ('normal-normal (known variance), gamma-exponential, gamma-Poisson and beta-binomial (symbolic integer '
                           'data), LogNormal/LogNormal through lambda=exp(phi) with the Jacobian term (data as observations and as '
                           'factors in lambda), two-block mean-field products; n <= 2 observations quick / 3 thorough; '
                           'all hyper-parameters, data and draws symbolic')
    tr.bounds['samples'] = 'sample shapes [S] and [S,K], S,K in {1,2,3}, given to the constructor or as a call-time samples= override of a different constructor shape ([S]->[S\'], [S,K]->[S\',K\'], [S]<->[S,K]); VR alpha in {0,1/2,2} quick (+ -1,1/4,3 thorough); CUBO n in {2,3}'
    tr.stubs.add('torch.distributions.Normal/Gamma/Beta .rsample/.sample: every call returns a tensor of fresh symbols z<k>[...] of '
                 'shape sample_shape + batch_shape, constrained only to the support (Gamma: z > 0; Beta: eps <= z <= 1 - eps)')
    tr.assumptions.add('the float constants log(K) (math.log(K), torch.tensor(float(K)).log()) and log(sqrt(2 pi)) in the code '
                       'are read as the real numbers log K, log sqrt(2 pi)')
    tr.assumptions.add('supplied lemma instances (theorems of real analysis): exp/log/sqrt ground axioms; log(N*E) = log N + log E for the '
                       'sums of equal terms; for the Binomial log-density 0<P<1 => log(1+exp(-|l|)) = -log P (l>=0) / -log(1-P) (l<=0) '
                       'with l = log P - log(1-P); lgamma/digamma are uninterpreted (no Gamma recurrence is needed)')
    tr.assumptions.add('integer data of the Poisson / Binomial models: "y is an integer" is the uninterpreted atom mod1(y) == 0; the '
                       'density identity proved does not use integrality')
    with tracing() as t:
        d = t.dag
        obj, dic = build_all(fam, n, objective, dict(oparams), ctor)
        tr.fn(type(obj)._call, CallableModel.__call__, Distribution.rsample, Distribution.sample, Distribution.log_prob,
              Distribution.entropy, Distribution._sample_shape, JointDistributionModel.log_prob,
              JointDistributionModel.rsample, JointDistributionModel.sample, JointDistributionModel.entropy,
              Container._sample_shape, Container.callables, TransformedParameter.__call__, type(obj).from_json,
              Distribution.from_json, JointDistributionModel.from_json)
        V, dom = {}, []
        blocks = []
        for kind, pre in blocks_of(fam):
            info = symbolic_block(kind, n, pre, dic, d, V, dom)
            info['kind'], info['pre'] = kind, pre
            blocks.append(info)
        L = 0
        for b in blocks:
            L = d.add(L, sid(b['logZ']))
        calls = []

        def make(dist, meth, sample_shape):
            k = len(calls)
            full = dist._extended_shape(sample_shape)
            kind = blocks[k % len(blocks)]['kind']
            wit = torch.tensor([generic(kind, i, k) for i in range(max(1, math.prod(full)))], dtype=torch.float64).reshape(full)
            z = new_vars(f'z{k}', wit)
            calls.append({'cls': type(dist).__name__, 'meth': meth, 'sample_shape': tuple(sample_shape), 'z': z})
            return z

        def zdom(call, kind):
            return [d.lt(0, i) for i in call['z']._ids.reshape(-1).tolist()] if SAMPLER[kind] == 'Gamma' else []

        ctx = {'task': task, 'label': label, 'tr': tr, 'd': d, 'V': V}
        with stubbed_sampler(make):
            try:
                r1 = obj(**kw)
            except Exception as e:  # the real code raised on this configuration: confirm concretely
                wit = {nm: d.vals[i] for nm, i in V.items()}
                ok, detail = replay_value(task, wit)
                sig = signature(objective, oparams, shape, 'mixes-samples' if objective == 'KLpq' and len(shape) == 2 else 'raises', override=bool(kw))
                if ok:
                    tr.witness_runs += 1
                    tr.violation(sig, f'{label}: {detail}', {'kind': 'value', 'task': list(task), 'label': label, 'values': wit})
                else:
                    tr.inconc(f'{label}: symbolic run raised {type(e).__name__}: {e} but the concrete run does not ({detail})')
                return
            nb = len(blocks)
            c1 = calls[:]
            lp, lq = obj.p(), obj.q()  # cached values used inside the objective
            snap1 = (list(t.pcs), list(t.denominators), list(t.domains))
            bt1 = block_terms(dic, blocks, shape)
            # ---- second evaluation request, after the event the optimiser fires on the variational parameters
            for b in blocks:
                for p_ in b['qparams']:
                    p_.fire_parameter_changed()
            r2 = obj(**kw)
            c2 = calls[len(c1):]
            lp2, lq2 = obj.p(), obj.q()
            snap2 = (t.pcs[len(snap1[0]):], t.denominators[len(snap1[1]):], t.domains[len(snap1[2]):])
            bt2 = block_terms(dic, blocks, shape)
            # ---- back-to-back request without any event
            obj(**kw)
            c3 = calls[len(c1) + len(c2):]
        tr.witness_runs += 1
        tr.ops_checked += t.nchecked
        tr.regions += 1
        if t.concretized:
            tr.inconc(f'{label}: concretised {t.concretized[:2]}')
            return
        Vh = dict(V)  # hyper-parameters and data
        allz = {d.args[i][0] for c in calls for i in c['z']._ids.reshape(-1).tolist()}
        z1 = {d.args[i][0] for c in c1 for i in c['z']._ids.reshape(-1).tolist()}
        z2 = {d.args[i][0] for c in c2 for i in c['z']._ids.reshape(-1).tolist()}
        ok_calls = (len(c1) == nb and all(c['sample_shape'] == shape for c in c1)
                    and all(c['meth'] == ('sample' if objective == 'KLpq' else 'rsample') for c in c1))
        if not ok_calls:  # e.g. a call-time samples= override that is not honoured: confirm on the real classes
            wit = {nm: d.vals[i] for nm, i in V.items()}
            ok, detail = replay_value(task, wit)
            if ok:
                tr.violation(signature(objective, oparams, shape, 'draw-shape', override=bool(kw)), f'{label}: {detail}',
                             {'kind': 'value', 'task': list(task), 'label': label, 'values': wit})
            else:
                tr.inconc(f'{label}: unexpected sampler calls {[(c["cls"], c["meth"], c["sample_shape"]) for c in c1]} ({detail})')
            return
        ctx.update(t=t, blocks=blocks, L=L, dom=dom, Vh=Vh)
        if not analyse(ctx, 'first request', r1, lp, lq, c1, snap1, bt1):
            return
        if any(v != 'refuted' for v in ctx.get('vac', [])):
            tr.notes.append(f'{label}: satisfiability of the hypotheses undecided ({ctx["vac"]})')
        r1id = sid(r1)
        # ------------------------------------------------------------------ freshness of the second request
        r2id = sid(r2) if isinstance(r2, SymTensor) else None
        ren = {}
        for a_, b_ in zip(c1, c2):
            for i, j in zip(a_['z']._ids.reshape(-1).tolist(), b_['z']._ids.reshape(-1).tolist()):
                ren[i] = j
        facts = [
            ('second request draws once per variational block with the requested shape',
             len(c2) == nb and all(c['sample_shape'] == shape for c in c2)),
            ('draw symbols of the two requests are disjoint', not (z1 & z2) and len(z2) == len(z1)),
            ('no draw of the first request survives in the second value', r2id is not None and not (set(d.variables([r2id])) & z1)),
            ('model and variational densities of the second request mention exactly the new draws',
             isinstance(lp2, SymTensor) and isinstance(lq2, SymTensor)
             and set(d.variables(lp2._ids.reshape(-1).tolist())) & allz == z2
             and set(d.variables(lq2._ids.reshape(-1).tolist())) & allz == z2),
        ]
        same_fn = r2id is not None and len(ren) == len(z1) and d.substitute([r1id], ren)[0] == r2id
        tr.obligation(f'{label}: second value is the first value with the draws renamed', nontrivial=False)
        for fl, okf in facts:
            tr.obligation(f'{label}:{fl}', nontrivial=False)
            if not okf:
                wit = {nm: d.vals[i] for nm, i in V.items()}
                ok, detail = replay_fresh(task, wit, fire=True)
                if ok:
                    tr.violation(signature(objective, oparams, shape, 'stale-draws', override=bool(kw)), f'{label}: {fl} fails: {detail}',
                                 {'kind': 'fresh', 'fire': True, 'task': list(task), 'label': label, 'values': wit})
                else:
                    tr.inconc(f'{label}: "{fl}" fails symbolically but the concrete run is fresh ({detail})')
                return
        if not same_fn:
            # a tie (all weights are equal) was broken differently, e.g. in CUBO's max: prove the second request from scratch
            if not analyse(ctx, 'second request', r2, lp2, lq2, c2, snap2, bt2):
                return
        # back-to-back request
        tr.obligation(f'{label}: back-to-back request draws again', nontrivial=False)
        if CHECK_BACK_TO_BACK and not c3:
            wit = {nm: d.vals[i] for nm, i in V.items()}
            ok, detail = replay_fresh(task, wit, fire=False)
            if ok:
                tr.violation(f'{objective}:repeat-call:cached-no-fresh-draws', f'{label}: {detail}',
                             {'kind': 'fresh', 'fire': False, 'task': list(task), 'label': label, 'values': wit})
            else:
                tr.inconc(f'{label}: back-to-back request did not draw symbolically but does concretely ({detail})')


def block_terms(dic, blocks, shape):
    """two-block models: per block, the cached log densities of its own model terms (prior, likelihood, Jacobian) and of
    its variational factor, reduced to the sample shape -> [(P_b, Q_b)] (None for one block / unexpected shapes)"""
    if len(blocks) < 2:
        return None
    out = []
    try:
        for b in blocks:
            pre = b['pre']
            tot = None
            for key in ('prior', 'like', 'lam'):
                m = dic.get(pre + key)
                if m is None:
                    continue
                v = m().reshape(tuple(shape) + (-1,)).sum(-1)
                tot = v if tot is None else tot + v
            out.append((tot, dic[pre + 'q']().reshape(tuple(shape) + (-1,)).sum(-1)))
    except Exception:
        return None
    return out


def split_lemma(ctx, d, hyp0, i, entropy, target_i, blocks, bt, qcb):
    """per-draw identity of a two-block model from one identity per block (each has a single non-linear posterior
    relation) plus the re-association  whole == sum of blocks;  True when all three steps are proved"""
    tr = ctx['tr']
    Ts, hy, atoms = [], [], [target_i]
    for b, (Pb, Qb), qc in zip(blocks, bt, qcb):
        Lb = sid(b['logZ'])
        if entropy:
            T = int(Pb._ids.reshape(-1)[i])
            g = d.eq(T, d.add(Lb, qc[i]))
            atoms += [T, qc[i], Lb]
        else:
            T = int((Pb - Qb)._ids.reshape(-1)[i])
            g = d.eq(T, Lb)
            atoms += [T, Lb]
        st, _, _ = prove(d, hyp0 + ground_axioms(d, [g]) + binary_logit_axioms(d, [g]), g, timeout=60.0, tr=tr,
                         label=f'draw {i}: block {b["pre"]} identity', parallel=True)
        if st != 'proved':
            return False
        Ts.append(T)
        hy.append(g)
    tot = 0
    for T in Ts:
        tot = d.add(tot, T)
    gc = d.eq(target_i, tot)
    st, _, _ = prove(d, [], gc, timeout=60.0, tr=tr, label=f'draw {i}: whole == sum of the blocks', parallel=True)
    if st != 'proved':
        return False
    return gc, hy, atoms


def analyse(ctx, which, r1, lp, lq, c1, snap, bt=None):
    """obligations L1-L4 for one evaluation request; False when something was reported"""
    tr, d, t, task, label, blocks, L = ctx['tr'], ctx['d'], ctx['t'], ctx['task'], ctx['label'], ctx['blocks'], ctx['L']
    fam, n, objective, oparams, ctor, shape, kw = unpack(task)
    pcs, dens, doms = snap
    nb = len(blocks)
    V = dict(ctx['Vh'])
    hyp0 = list(ctx['dom'])
    for k, c in enumerate(c1):  # draws of this request, under the names the replay uses (z0, z1, ...)
        kind = blocks[k % nb]['kind']
        for i in c['z']._ids.reshape(-1).tolist():
            nm = d.args[i][0]
            V[f'z{k}' + nm[nm.index('['):]] = i
            if SAMPLER[kind] == 'Gamma':
                hyp0.append(d.lt(0, i))
            if SAMPLER[kind] == 'Beta':
                hyp0 += [d.le(d.const(EPS), i), d.le(i, d.const(1 - EPS))]
    ctx['V'] = V
    if not (isinstance(lp, SymTensor) and isinstance(lq, SymTensor) and isinstance(r1, SymTensor)):
        tr.inconc(f'{label}: densities are not symbolic')
        return False
    r1id = sid(r1)
    entropy = bool(oparams.get('entropy')) and len(shape) == 1 and objective == 'ELBO'
    shape_ok = tuple(lp.shape) == shape and tuple(lq.shape) == shape and r1.dim() == 0
    if not shape_ok:
        decide(ctx, f'{which}: model and variational log densities have the sample shape and the objective is a scalar', hyp0, d.FALSE,
               signature(objective, oparams, shape, 'mixes-samples' if objective == 'KLpq' else 'shape', override=bool(kw)), kind='value')
        return False
    # -------------------------------------------------------------- L1 per-draw identities
    w = lp - lq
    wflat = w._ids.reshape(-1).tolist()
    pflat = lp._ids.reshape(-1).tolist()
    lqc = None
    qcb = []
    for b, c in zip(blocks, c1):  # one draw tensor per block, shape sample_shape + [1]
        term = b['logq'](c['z']).reshape(shape)
        qcb.append(term._ids.reshape(-1).tolist())
        lqc = term if lqc is None else lqc + term
    qcflat = lqc._ids.reshape(-1).tolist()
    lemmas = []
    failed = False
    for i in range(len(wflat)):
        if entropy:
            g = d.eq(pflat[i], d.add(L, qcflat[i]))
            gl = f'{which}: draw {i}: log p(z, data) == log Z + log q_closed(z)'
        else:
            g = d.eq(wflat[i], L)
            gl = f'{which}: draw {i}: log p(z, data) - log q(z) == log Z'
        st = None
        if bt is not None:
            sp = split_lemma(ctx, d, hyp0, i, entropy, pflat[i] if entropy else wflat[i], blocks, bt, qcb)
            if sp:
                gc, hy_b, ats = sp
                am = {a_: t.fresh('blk', d.vals[a_]) for a_ in dict.fromkeys(ats) if d.ops[a_] != 'const'}
                ab = abstract(d, am, [g, gc] + hy_b)
                st, _, _ = prove(d, ab[1:], ab[0], timeout=30.0, tr=tr, label=gl, parallel=True)
        if st != 'proved':
            st = decide(ctx, gl, hyp0 + ground_axioms(d, [g]) + binary_logit_axioms(d, [g]), g,
                        signature(objective, oparams, shape, 'weight-differs-from-logZ', override=bool(kw)), kind='weights')
        lemmas.append(g)
        failed |= st != 'proved'
        if i == 0 and st == 'proved':
            # non-vacuity: the hypotheses used above (domain, posterior relation, axiom instances) are satisfiable
            stv, _, _ = prove(d, hyp0 + ground_axioms(d, [g]) + binary_logit_axioms(d, [g]), d.FALSE, timeout=20.0, tr=tr,
                              label='hypotheses satisfiable', parallel=True)
            if stv == 'proved':
                tr.inconc(f'{label}: the hypotheses of the per-draw identity are contradictory (vacuous proof)')
                return False
            ctx.setdefault('vac', []).append(stv)
    tr.sample({'case': label, 'log Z': d.to_str(L, 4)[:300], 'value': d.to_str(r1id, 3)[:300],
               'draws': sorted(x for x in V if x.startswith('z'))[:6], 'path_conditions': [d.to_str(c, 3)[:80] for c in pcs[:4]]})
    if failed:
        return False
    # ------------------------------------------------------------------ generalisation of the per-draw weights
    atoms = (pflat + qcflat if entropy else wflat) + [L]
    amap = {}
    for a_ in atoms:  # one fresh variable per per-draw weight and one for log Z
        if a_ not in amap and d.ops[a_] != 'const':
            amap[a_] = t.fresh('abs', d.vals[a_])
    lem_ab = abstract(d, amap, lemmas)
    clean = True
    # ---- L2 every decision taken on the witness holds on the whole domain (single path region)
    for c in pcs:
        c_ab = abstract(d, amap, [c])[0]
        hy = (lem_ab if c_ab != c else hyp0)
        st = decide(ctx, f'{which}: decision taken on the run holds everywhere: {d.to_str(c, 3)[:120]}', hy + ground_axioms(d, [c_ab]), c_ab,
                    signature(objective, oparams, shape, 'path-condition', override=bool(kw)), kind='value')
        clean &= st == 'proved'
    # ---- L3 the value
    if entropy:
        H = 0
        for b in blocks:
            H = d.add(H, sid(b['H']))
        mean_q = 0
        for i in qcflat:
            mean_q = d.add(mean_q, i)
        target = d.add(d.add(L, d.div(mean_q, d.const(len(qcflat)))), H)
        tl = f'{which}: value == log Z + mean_s log q_closed(z_s) + H_closed[q]'
    else:
        target = L
        tl = f'{which}: value == log Z'
    goal = d.eq(r1id, target)
    g_ab = abstract(d, amap, [goal])[0]
    Lv = amap.get(L, L)
    mapping = {amap[a_]: Lv for a_ in wflat if a_ in amap} if not entropy else {}
    flo = float_log_assumptions(d, objective, [shape[0], shape[-1], shape[0] * shape[-1]])
    hy = lem_ab + log_axioms(d, [g_ab], mapping, d.and_(*lem_ab)) + flo
    hy += ground_axioms(d, [g_ab] + hy)
    sig = signature(objective, oparams, shape, 'value-differs-from-logZ', override=bool(kw))
    st, r, _ = prove(d, hy, g_ab, timeout=30.0, tr=tr, label=tl, parallel=True)
    if st == 'proved':
        stv, _, _ = prove(d, hy, d.FALSE, timeout=20.0, tr=tr, label='hypotheses satisfiable', parallel=True)
        if stv == 'proved':
            tr.inconc(f'{label}: the hypotheses of "{tl}" are contradictory (vacuous proof)')
            return False
        ctx.setdefault('vac', []).append(stv)
    if st != 'proved':
        # characterise: is it a multiple of log Z ?
        for mult, name in ((shape[0], 'returns-S-times-logZ'), (shape[0] * shape[-1], 'returns-SK-times-logZ')):
            if mult > 1 and not entropy:
                g2 = abstract(d, amap, [d.eq(r1id, d.mul(d.const(mult), L))])[0]
                st2, _, _ = prove(d, hy + ground_axioms(d, [g2]), g2, timeout=30.0, tr=tr, label=name, parallel=True)
                if st2 == 'proved':
                    sig = signature(objective, oparams, shape, name, override=bool(kw))
                    tl += f' [the solver proves value == {mult} * log Z instead]'
                    break
        if objective == 'KLpq' and len(shape) == 2:
            sig = signature(objective, oparams, shape, 'mixes-samples', override=bool(kw))
        # replay at the witness point (the generalised query has no model over the real inputs)
        settle(ctx, tl, 'unknown' if st != 'refuted' else 'refuted-abstract', None, sig, 'value')
        clean = False
    # ---- L4 well-definedness
    obl = [d.not_(d.eq(b_, 0)) for b_ in dens]
    obl += [d.lt(0, x) if k_ == 'pos' else d.le(0, x) for k_, x in doms]
    if obl:
        allok = d.and_(*obl)
        st = decide(ctx, f'{which}: every denominator is non-zero and every log/lgamma argument is positive',
                    hyp0 + lemmas + ground_axioms(d, [allok]), allok, signature(objective, oparams, shape, 'well-defined', override=bool(kw)), kind='value')
        clean &= st == 'proved'
    return clean


def decide(ctx, glabel, hyps, goal, sig, kind):
    st, r, _ = prove(ctx['d'], hyps, goal, timeout=30.0, get_values=list(ctx['V'].values()), tr=ctx['tr'], label=glabel, parallel=True)
    if st == 'unknown':  # a loaded machine: one retry with a long budget before anything is called undecided
        st, r, _ = prove(ctx['d'], hyps, goal, timeout=240.0, get_values=list(ctx['V'].values()), tr=ctx['tr'], label=glabel, parallel=True)
    if st != 'proved':
        settle(ctx, glabel, st, r, sig, kind)
    return st


def settle(ctx, glabel, st, r, sig, kind):
    """verdict policy for a goal that was not proved: replay the model, then the witness"""
    tr, d, V, task, label = ctx['tr'], ctx['d'], ctx['V'], ctx['task'], ctx['label']
    rp = replay_weights if kind == 'weights' else replay_value
    tries = []
    if st == 'refuted' and r is not None and getattr(r, 'values', None):
        tries.append({nm: _to_float(r.values[i]) for nm, i in V.items() if i in r.values})
    tries.append({nm: d.vals[i] for nm, i in V.items()})
    detail = ''
    for vals in tries:
        try:
            ok, detail = rp(task, vals)
        except Exception as e:  # a model point outside what the real constructors accept
            ok, detail = False, f'replay raised {type(e).__name__}: {e}'
        if ok:
            tr.violation(sig, f'{label}: {glabel} fails: {detail}', {'kind': kind, 'task': list(task), 'label': label, 'values': vals})
            return
    if st.startswith('refuted'):
        tr.inconc(f'{label}: counterexample for "{glabel}" did not reproduce on the real code ({detail})')
    else:
        tr.inconc(f'{label}: "{glabel}" undecided by the solver portfolio and the witness point agrees ({detail})')


# ---------------------------------------------------------------------------------------- concrete side (replays)
def getv(vals, name, default):
    v = vals.get(name, default)
    try:
        v = float(v)
    except Exception:
        return float(default)
    return v if math.isfinite(v) else float(default)


def concrete_block(kind, n, pre, vals):
    """-> (tensors for the Parameters incl. the numeric posterior, mp log Z, mp log joint(z), mp log q(z), mp H, support)"""
    import mpmath as mp

    mp.mp.dps = 40
    D = DEFAULTS[kind]
    y = [getv(vals, f'{pre}y[{i}]', D['y'][i]) for i in range(n)]
    T = {}
    if kind in ('normal', 'lognormal_obs', 'lognormal_factor'):
        m0 = getv(vals, pre + 'm0[0]', D['m0'][0])
        s0 = abs(getv(vals, pre + 's0[0]', D['s0'][0])) or D['s0'][0]
        s = abs(getv(vals, pre + 's[0]', D['s'][0])) or D['s'][0]
        if kind == 'lognormal_obs':
            y = [abs(v) or 1.0 for v in y]
        M0, S0, S_ = mp.mpf(m0), mp.mpf(s0), mp.mpf(s)
        Y = [mp.mpf(v) for v in y]
        data = [mp.log(v) for v in Y] if kind == 'lognormal_obs' else Y
        prec = 1 / S0 ** 2 + n / S_ ** 2
        sn = 1 / mp.sqrt(prec)
        shift = -n if kind == 'lognormal_factor' else 0
        qm = (M0 / S0 ** 2 + sum(data) / S_ ** 2 + shift) / prec
        c = mp.log(mp.sqrt(2 * mp.pi))
        logZ = (-n * c - n * mp.log(S_) - mp.log(S0) + mp.log(sn) - sum(v ** 2 for v in data) / (2 * S_ ** 2) - M0 ** 2 / (2 * S0 ** 2)
                + qm ** 2 / (2 * sn ** 2))
        if kind == 'lognormal_obs':
            logZ -= sum(data)

        def lnorm(x, m, sd):
            return -(x - m) ** 2 / (2 * sd ** 2) - mp.log(sd) - c

        def logjoint(z):  # density in the unconstrained coordinate z (= x or phi)
            if kind == 'normal':
                return lnorm(z, M0, S0) + sum(lnorm(v, z, S_) for v in Y)
            if kind == 'lognormal_obs':
                return lnorm(z, M0, S0) + sum(lnorm(mp.log(v), z, S_) - mp.log(v) for v in Y)
            return lnorm(z, M0, S0) + sum(lnorm(z, v, S_) - z for v in Y)

        T = {'m0': [m0], 's0': [s0], 's': [s], 'y': y, 'qm': [float(qm)], 'qs': [float(sn)]}
        logq = lambda z: lnorm(z, qm, sn)  # noqa: E731
        H = mp.mpf(1) / 2 + mp.log(2 * mp.pi) / 2 + mp.log(sn)
        support = (-mp.inf, mp.inf)
        centre = qm
    elif kind == 'beta_binomial':
        a = abs(getv(vals, pre + 'a[0]', D['a'][0])) or D['a'][0]
        b = abs(getv(vals, pre + 'b[0]', D['b'][0])) or D['b'][0]
        N = float(max(0, round(getv(vals, pre + 'N[0]', D['N'][0]))))
        y = [float(min(N, max(0, round(v)))) for v in y]
        A, B, NN = mp.mpf(a), mp.mpf(b), mp.mpf(N)
        Y = [mp.mpf(v) for v in y]
        qa, qb = A + sum(Y), B + n * NN - sum(Y)

        def lbeta(u, v):
            return mp.loggamma(u) + mp.loggamma(v) - mp.loggamma(u + v)

        lbin = sum(mp.loggamma(NN + 1) - mp.loggamma(v + 1) - mp.loggamma(NN - v + 1) for v in Y)
        logZ = lbin + lbeta(qa, qb) - lbeta(A, B)

        def logjoint(z):
            return (A - 1) * mp.log(z) + (B - 1) * mp.log(1 - z) - lbeta(A, B) + lbin + sum(v * mp.log(z) + (NN - v) * mp.log(1 - z) for v in Y)

        T = {'a': [a], 'b': [b], 'N': [N], 'y': y, 'qa': [float(qa)], 'qb': [float(qb)]}
        logq = lambda z: (qa - 1) * mp.log(z) + (qb - 1) * mp.log(1 - z) - lbeta(qa, qb)  # noqa: E731
        H = lbeta(qa, qb) - (qa - 1) * mp.digamma(qa) - (qb - 1) * mp.digamma(qb) + (qa + qb - 2) * mp.digamma(qa + qb)
        support = (0, 1)
        centre = qa / (qa + qb)
    else:
        a = abs(getv(vals, pre + 'a[0]', D['a'][0])) or D['a'][0]
        b = abs(getv(vals, pre + 'b[0]', D['b'][0])) or D['b'][0]
        if kind == 'gamma_poisson':
            y = [float(max(0, round(v))) for v in y]
        else:
            y = [abs(v) for v in y]
        A, B = mp.mpf(a), mp.mpf(b)
        Y = [mp.mpf(v) for v in y]
        if kind == 'gamma_exp':
            qa, qb = A + n, B + sum(Y)
            logZ = A * mp.log(B) - mp.loggamma(A) + mp.loggamma(qa) - qa * mp.log(qb)

            def logjoint(z):
                return A * mp.log(B) + (A - 1) * mp.log(z) - B * z - mp.loggamma(A) + sum(mp.log(z) - z * v for v in Y)
        else:
            qa, qb = A + sum(Y), B + n
            logZ = A * mp.log(B) - mp.loggamma(A) + mp.loggamma(qa) - qa * mp.log(qb) - sum(mp.loggamma(v + 1) for v in Y)

            def logjoint(z):
                return (A * mp.log(B) + (A - 1) * mp.log(z) - B * z - mp.loggamma(A)
                        + sum(v * mp.log(z) - z - mp.loggamma(v + 1) for v in Y))
        T = {'a': [a], 'b': [b], 'y': y, 'qa': [float(qa)], 'qb': [float(qb)]}
        logq = lambda z: qa * mp.log(qb) + (qa - 1) * mp.log(z) - qb * z - mp.loggamma(qa)  # noqa: E731
        H = qa - mp.log(qb) + mp.loggamma(qa) + (1 - qa) * mp.digamma(qa)
        support = (0, mp.inf)
        centre = qa / qb
    return {'T': T, 'logZ': logZ, 'logjoint': logjoint, 'logq': logq, 'H': H, 'support': support, 'centre': centre}


_QUAD_CACHE = {}


def quadrature_logZ(cb):
    import mpmath as mp

    lo, hi = cb['support']
    c = cb['centre']
    ref = cb['logjoint'](c)
    if hi == 1:
        pts = [0, c / 2, c, (1 + c) / 2, 1]
    else:
        pts = [lo, c / 2 if lo == 0 else c - 3, c, 2 * c if lo == 0 else c + 3, hi]
    val = mp.quad(lambda z: mp.exp(cb['logjoint'](z) - ref), pts)
    return mp.log(val) + ref


def real_setup(task, vals, perturb=False):
    """real objects on plain tensors with q at the numeric posterior; -> obj, dic, blocks(concrete), draw maker"""
    fam, n, objective, oparams, ctor, shape, kw = unpack(task)
    obj, dic = build_all(fam, n, objective, dict(oparams), ctor)
    cbs = []
    for kind, pre in blocks_of(fam):
        cb = concrete_block(kind, n, pre, vals)
        cb['kind'], cb['pre'] = kind, pre
        for k, v in cb['T'].items():
            tv = torch.tensor(v, dtype=torch.float64)
            if perturb and k in ('qm', 'qa'):
                tv = tv * 1.3 + 0.21
            dic[pre + k].tensor = tv
        cbs.append(cb)
    return obj, dic, cbs


def draw_maker(task, vals, cbs, log):
    fam, n, objective, oparams, ctor, shape, kw = unpack(task)

    def make(dist, meth, sample_shape):
        k = len(log)
        kind = cbs[k % len(cbs)]['kind']
        full = dist._extended_shape(sample_shape)
        import itertools

        idx = list(itertools.product(*[range(s) for s in full]))
        out = []
        for i, ix in enumerate(idx):
            v = getv(vals, f'z{k}[' + ','.join(map(str, ix)) + ']', generic(kind, i, k))
            if SAMPLER[kind] == 'Gamma' and v <= 0 or SAMPLER[kind] == 'Beta' and not (0 < v < 1):
                v = generic(kind, i, k)
            out.append(v)
        z = torch.tensor(out, dtype=torch.float64).reshape(full)
        log.append({'meth': meth, 'sample_shape': tuple(sample_shape), 'z': z})
        return z

    return make


def expected_value(task, cbs, log):
    """closed-form expectation (mpmath): log Z, or for ELBO(entropy) log Z + mean log q(z) + H"""
    import mpmath as mp

    fam, n, objective, oparams, ctor, shape, kw = unpack(task)
    logZ = sum(cb['logZ'] for cb in cbs)
    for cb in cbs:
        key = (cb['kind'], n, tuple(sorted((k, tuple(v)) for k, v in cb['T'].items())))
        if key not in _QUAD_CACHE:
            _QUAD_CACHE[key] = quadrature_logZ(cb)
        if abs(_QUAD_CACHE[key] - cb['logZ']) > mp.mpf(10) ** -12 * max(1, abs(cb['logZ'])):
            raise RuntimeError(f'oracle self-check failed: closed form {cb["logZ"]} vs quadrature {_QUAD_CACHE[key]}')
    if objective == 'ELBO' and oparams.get('entropy') and len(shape) == 1:
        tot = mp.mpf(0)
        for cb, c in zip(cbs, log):
            zs = [mp.mpf(v) for v in c['z'].reshape(-1).tolist()]
            tot += sum(cb['logq'](z) for z in zs) / len(zs) + cb['H']
        return logZ + tot, 'log Z + mean log q(z) + H[q]'
    return logZ, 'log Z'


def replay_value(task, vals):
    """(mismatch?, detail): objective value on the real classes vs the mpmath oracle"""
    fam, n, objective, oparams, ctor, shape, kw = unpack(task)
    obj, dic, cbs = real_setup(task, vals)
    log = []
    with stubbed_sampler(draw_maker(task, vals, cbs, log)):
        try:
            r = obj(**kw)
        except Exception as e:
            return True, f'{type(obj).__name__}() raises {type(e).__name__}: {str(e)[:160]}'
    if len(log) != len(cbs) or any(c['sample_shape'] != shape for c in log):
        return True, (f'{type(obj).__name__}({"samples=" + str(list(shape)) if kw else ""}) asked the sampler for shapes '
                      f'{[list(c["sample_shape"]) for c in log]}, not once per variational block with the requested {list(shape)}')
    want, wl = expected_value(task, cbs, log)
    if r.dim() != 0:
        return True, f'value has shape {tuple(r.shape)}'
    got = float(r)
    if not math.isfinite(got) or abs(got - float(want)) > 5e-7 * max(1.0, abs(float(want))):
        return True, (f'{type(obj).__name__} returned {got!r} but {wl} = {float(want)!r} '
                      f'(ratio {got / float(want):.6g}; posterior set exactly, draws {[c["z"].reshape(-1).tolist() for c in log]})')
    return False, f'agree ({got!r})'


def replay_weights(task, vals):
    """(mismatch?, detail): log p - log q at the draws vs log Z"""
    import mpmath as mp

    fam, n, objective, oparams, ctor, shape, kw = unpack(task)
    obj, dic, cbs = real_setup(task, vals)
    log = []
    mk = draw_maker(task, vals, cbs, log)
    with stubbed_sampler(mk):
        obj.q.rsample(torch.Size(shape))
    lp, lq = obj.p(), obj.q()
    logZ = float(sum(cb['logZ'] for cb in cbs))
    if oparams.get('entropy'):
        want = torch.zeros(tuple(shape), dtype=torch.float64)
        for cb, c in zip(cbs, log):
            want = want + torch.tensor([float(cb['logq'](mp.mpf(v))) for v in c['z'].reshape(-1).tolist()],
                                       dtype=torch.float64).reshape(tuple(shape))
        w = lp - want
    else:
        w = lp - lq
    if tuple(w.shape) != tuple(shape):
        return True, f'log p - log q has shape {tuple(w.shape)} for samples {list(shape)}'
    if not torch.allclose(w, torch.full_like(w, logZ), rtol=1e-9, atol=1e-9):
        return True, f'log p(z,data) - log q(z) = {w.reshape(-1).tolist()} but log Z = {logZ}'
    return False, 'agree'


def replay_fresh(task, vals, fire):
    """(not fresh?, detail).  q is moved OFF the posterior so that the value depends on the draws."""
    fam, n, objective, oparams, ctor, shape, kw = unpack(task)
    obj, dic, cbs = real_setup(task, vals, perturb=True)
    log = []
    with stubbed_sampler(draw_maker(task, vals, cbs, log)):
        v1 = obj(**kw)
        n1 = len(log)
        if fire:
            for kind, pre in blocks_of(fam):
                for k in (('qm', 'qs') if SAMPLER[kind] == 'Normal' else ('qa', 'qb')):  # noqa: E501
                    dic[pre + k].fire_parameter_changed()
        v2 = obj(**kw)
        n2 = len(log) - n1
        big = torch.Size([3] * len(shape))
        v3 = obj(samples=big) if not fire else None
        n3 = len(log) - n1 - n2
    # reference: a fresh instance that only ever sees the draws of the second request
    obj_b, dic_b, cbs_b = real_setup(task, vals, perturb=True)
    log_b = [None] * n1
    with stubbed_sampler(draw_maker(task, vals, cbs_b, log_b)):
        ref = obj_b(**kw)
    if n2 == 0:
        return True, (f'two consecutive {type(obj).__name__}() requests: the sampler ran {n1} time(s) for the first and 0 times for '
                      f'the second, which returned the cached value {float(v2)!r} (first {float(v1)!r}; a fresh evaluation on new draws '
                      f'gives {float(ref)!r})' + (f'; a third request with samples={list(big)} also drew {n3} time(s) and returned {float(v3)!r}'
                                                  if v3 is not None else ''))
    if abs(float(v2) - float(ref)) > 1e-12 * max(1.0, abs(float(ref))):
        return True, f'second request returned {float(v2)!r}; the same draws on a fresh instance give {float(ref)!r}'
    return False, f'fresh ({float(v1)!r} then {float(v2)!r})'


# ---------------------------------------------------------------------------------------- task lists
OVERRIDE_OBJECTIVES = [('ELBO', {}), ('ELBO', {'entropy': True}), ('KLpq', {}), ('CUBO', {'n': 2.0}), ('VR', {'alpha': 0.5})]
OVERRIDES_QUICK = [((2,), (3,)), ((3,), (1,)), ((2, 2), (2, 3)), ((2, 3), (3, 2)), ((2,), (2, 3)), ((2, 2), (3,))]
OVERRIDES_THOROUGH = OVERRIDES_QUICK + [((1,), (2,)), ((1, 1), (2, 2)), ((3, 1), (1, 3)), ((2, 3), (2, 1)), ((3,), (3, 2)),
                                        ((1, 2), (2,)), ((2, 2), (2, 2))]


def tasks_for(tier):
    ts = []
    shapes1 = [(1,), (2,), (3,)]
    shapes2 = [(s, k) for s in (1, 2, 3) for k in (1, 2, 3)]
    base = [('ELBO', {}), ('ELBO', {'entropy': True}), ('KLpq', {}), ('CUBO', {'n': 2.0}),
            ('VR', {'alpha': 0.0}), ('VR', {'alpha': 0.5}), ('VR', {'alpha': 2.0})]
    more = [('CUBO', {'n': 3.0}), ('VR', {'alpha': -1.0}), ('VR', {'alpha': 0.25}), ('VR', {'alpha': 3.0})]
    multi = [('ELBO', {}), ('KLpq', {}), ('CUBO', {'n': 2.0}), ('VR', {'alpha': 0.5})]
    if tier == 'quick':
        for kind in KINDS:
            for o, op in base:
                for sh in shapes1:
                    ts.append((kind, 2, o, op, sh))
            for o, op in multi:
                for sh in ((1, 2), (2, 1), (2, 2), (2, 3), (3, 2)) if kind in ('normal', 'gamma_exp') else ((2, 2), (2, 3), (3, 1)):
                    ts.append((kind, 1 if sh != (2, 2) else 2, o, op, sh))
        # constructed with one shape, called with samples=<another> (the convergence monitor's idiom)
        for kind, pairs in (('normal', OVERRIDES_QUICK), ('gamma_exp', [((2, 2), (2, 3)), ((2,), (2, 3)), ((3,), (2,))]),
                            ('lognormal_obs', [((2, 2), (2, 3))])):
            for o, op in OVERRIDE_OBJECTIVES:
                for ctor, call in pairs:
                    if not (op.get('entropy') and len(call) == 2):
                        ts.append((kind, 2 if kind == 'normal' else 1, o, op, ctor, call))
        for fam in ('normal+gamma_exp', 'lognormal_obs+gamma_poisson', 'beta_binomial+lognormal_factor'):
            for o, op in [('ELBO', {}), ('ELBO', {'entropy': True}), ('KLpq', {}), ('VR', {'alpha': 0.5})]:
                ts.append((fam, 1, o, op, (2,)))
    else:
        for kind in KINDS:
            for n in (1, 2, 3):
                for o, op in base + more:
                    for sh in shapes1:
                        ts.append((kind, n, o, op, sh))
                    if not op.get('entropy') and n <= 2:
                        for sh in shapes2:
                            ts.append((kind, n, o, op, sh))
            ts.append((kind, 1, 'ELBO', {'entropy': True}, (2, 2)))  # the flag is ignored by the multi-sample branch
        for kind in KINDS:
            for n in (1, 2):
                for o, op in OVERRIDE_OBJECTIVES:
                    for ctor, call in OVERRIDES_THOROUGH:
                        if not (op.get('entropy') and len(call) == 2) and (n == 1 or (ctor, call) in OVERRIDES_QUICK):
                            ts.append((kind, n, o, op, ctor, call))
        ts.append(('normal+gamma_exp', 1, 'ELBO', {}, (2, 2), (2, 3)))
        ts.append(('beta_binomial+lognormal_obs', 1, 'VR', {'alpha': 0.5}, (3,), (2,)))
        for i, ka in enumerate(KINDS):
            for kb in KINDS[i:]:
                for o, op in [('ELBO', {}), ('ELBO', {'entropy': True}), ('KLpq', {}), ('CUBO', {'n': 2.0}), ('VR', {'alpha': 0.5})]:
                    ts.append((f'{ka}+{kb}', 1, o, op, (2,)))
                ts.append((f'{ka}+{kb}', 1, 'ELBO', {}, (2, 2)))
                ts.append((f'{ka}+{kb}', 2, 'VR', {'alpha': 2.0}, (3,)))
    return ts


def body(chk):
    chk.explanation = ('the real objective classes, built through from_json as the CLI emits them, are executed on symbolic '
                       'hyper-parameters, data and sampler draws with the variational parameters set to the symbolic conjugate '
                       'posterior; the solver proves log p - log q == log Z per draw (ring identity in the uninterpreted atoms '
                       'log(.), lgamma(.)), then objective == log Z from the per-draw identities, plus freshness of the draws '
                       'between evaluation requests (disjoint symbols, renaming invariance)')
    chk.total.bounds['outside'] = ('dense multivariate normal family (needs a Cholesky factor: not polynomial), score-function surrogate '
                                   '(ELBO score=True), KLpqImportance and SELBO (gradient surrogates / mixtures) are not covered; '
                                   'beta-binomial: torch clamps Binomial probabilities to [eps, 1-eps], the identity is exact (and '
                                   'proved) for draws inside that interval only')
    pmap(run_task, tasks_for(chk.tier), chk.total)


def do_replay(path):
    r = json.load(open(path))
    rp = r['replay']
    task = rp['task']
    task = (task[0], int(task[1]), task[2], dict(task[3]), tuple(task[4])) + ((tuple(task[5]),) if len(task) > 5 and task[5] else ())
    kind = rp.get('kind', 'value')
    if kind == 'fresh':
        ok, detail = replay_fresh(task, rp['values'], fire=rp.get('fire', False))
    elif kind == 'weights':
        ok, detail = replay_weights(task, rp['values'])
    else:
        ok, detail = replay_value(task, rp['values'])
    print(f"replay {r['signature']}: {task_label(task)}")
    print(('REPRODUCED: ' if ok else 'not reproduced: ') + detail)
    return 1 if ok else 0


if __name__ == '__main__':
    if '--replay' in sys.argv:
        sys.exit(do_replay(sys.argv[sys.argv.index('--replay') + 1]))
    sys.exit(main_for(PID, body))
