"""C07 Every change of variables reports its true log-Jacobian and inverse.

For each transform the real forward map is traced on symbolic x; its Jacobian is
obtained by symbolic differentiation of the trace (independent of the
hand-written log_abs_det_jacobian), the determinant is expanded, and
exp(reported) == |det J| is decided by the solver (exp-lifted), plus
inv(f(x)) == x, plus TransformedParameter() / ReparameterizedTimeTreeModel()
return that expression for the *current* value after an update.
"""
from __future__ import annotations

import itertools
import sys
import time

import torch

import common as cm
from symtorch import SymTensor, cur, from_ids, new_vars, symgrad
from symtorch.axioms import ground_axioms
from symtorch.explore import Explorer, Goal, triage
from vlib.core import main_for, pmap

PID = 'C07'


# ------------------------------------------------------------- symbolic helpers
def jacobian_ids(y, x):
    """J[i][j] = d y_i / d x_j as node ids (true derivative: autograd stops ignored)."""
    d = cur().dag
    yi = y._ids.reshape(-1).tolist()
    xi = x._ids.reshape(-1).tolist()
    return [d.grad(a, xi, honour_stops=False) for a in yi]


def det_leibniz(d, M, survivors=None):
    n = len(M)
    total = 0
    for perm in itertools.permutations(range(n)):
        term = 1
        for i, j in enumerate(perm):
            term = d.mul(term, M[i][j])
            if term == 0:
                break
        if term == 0:
            continue
        if survivors is not None:
            survivors.append([M[i][j] for i, j in enumerate(perm)])
        inv = sum(1 for a in range(n) for b in range(a + 1, n) if perm[a] > perm[b])
        total = d.add(total, term if inv % 2 == 0 else d.neg(term))
    return total


def exp_of(d, node):
    """exp(node) with the exponential pushed through sums, integer multiples and logs."""
    op = d.ops[node]
    a = d.args[node]
    if node == 0:
        return 1
    if op == 'add':
        return d.mul(exp_of(d, a[0]), exp_of(d, a[1]))
    if op == 'mul' and d.ops[a[0]] == 'const':
        c = d.cval(a[0])
        if c.denominator == 1 and abs(c) <= 32:
            return d.ipow(exp_of(d, a[1]), int(c))
    if op == 'uf' and a[0] == 'log':
        return a[1]
    if op == 'stop':
        return exp_of(d, a[0])
    return d.exp(node)


def dabs(d, x):
    return d.ite(d.le(0, x), x, d.neg(x))


def log_factors(d, node):
    """reported = sum_i c_i * term_i  ->  list of exp(c_i*term_i) factors"""
    from symtorch.axioms import _addends

    out = []
    for c, t_ in _addends(d, node):
        if t_ is None:
            if c != 0:
                out.append(d.exp(d.const(c)))
            continue
        out.append(exp_of(d, d.mul(d.const(c), t_)))
    return out


def split_det_goals(d, case, rep_id, M, sig):
    """If the determinant is a single product of Jacobian entries (triangular up to a permutation) and the
    reported value is a sum of as many terms, prove factor-by-factor and close with an abstract
    |prod a_i| == prod |a_i| lemma instance.  Returns list[Goal] or None."""
    surv = []
    det = det_leibniz(d, M, surv)
    if len(surv) != 1:
        return None
    entries = surv[0]
    facs = log_factors(d, rep_id)
    facs = [f for f in facs if f != 1]
    ents = [e for e in entries if e != 1]
    if len(facs) != len(ents):
        return None
    goals = []
    # pair factors with entries: candidates are those agreeing at the witness; the solver picks among them
    for k, f in enumerate(facs):
        cands = [e for e in ents if abs(abs(d.vals[e]) - d.vals[f]) <= 1e-9 * max(1.0, abs(d.vals[f]))]
        if not cands:
            return None
        gs = [d.eq(f, dabs(d, e)) for e in cands]
        goals.append(Goal(f'{case.name}: factor {k} of exp(reported) == |Jacobian entry|', gs[0],
                          hyps=ground_axioms(d, gs, rounds=4), signature=sig, alts=gs[1:]))
    # each entry must be used: multiset agreement at the witness is checked, symbolic pairing by the solver
    if sorted(round(abs(d.vals[e]), 9) for e in ents) != sorted(round(d.vals[f], 9) for f in facs):
        return None
    pairs = [(f, e) for f, e in zip(facs, ents)]
    # abstract lemma |prod a_i| == prod |a_i| (proved over fresh variables), instantiated with the entries
    t = cur()
    fgoals = list(goals)
    avars = [t.fresh('absJ', d.vals[e]) for _, e in pairs]
    prod = 1
    pabs = 1
    for a in avars:
        prod = d.mul(prod, a)
        pabs = d.mul(pabs, dabs(d, a))
    goals.append(Goal(f'{case.name}: |product of entries| == product of |entries| (abstracted)',
                      d.eq(dabs(d, prod), pabs), signature=sig))
    eprod = 1
    eabs = 1
    for e in ents:
        eprod = d.mul(eprod, e)
        eabs = d.mul(eabs, dabs(d, e))
    inst = d.eq(dabs(d, eprod), eabs)
    fprod = 1
    for f in facs:
        fprod = d.mul(fprod, f)
    # assembly: product of reported factors == |det| given the proved factor identities (sound bijection check)
    asm = Goal(f'{case.name}: exp(reported log|det J|) == |det J| (assembled from the factor identities)',
               d.eq(fprod, dabs(d, det)), hyps=[inst], signature=sig)
    asm.hyp_goals = fgoals
    goals.append(asm)
    return goals


# ------------------------------------------------------------- cases
class Case:
    def __init__(self, name, dim, make, domain=None, elementwise=False, has_inverse=True, has_logdet=True,
                 ydim=None, guards=False, fns=(), sig=None):
        self.name = name
        self.dim = dim
        self.make = make  # make(V) -> transform   (called inside the trace)
        self.domain = domain or (lambda d, V: [])
        self.elementwise = elementwise
        self.has_inverse = has_inverse
        self.has_logdet = has_logdet
        self.guards = guards
        self.fns = fns
        self.sig = sig or name
        self.extra_inputs = {}


def simple_cases():
    from torch.distributions import transforms as T

    from torchtree.distributions import transforms as tt

    pos = lambda d, V: [d.lt(0, V[k]) for k in V if k.startswith('x')]  # noqa
    cs = []
    for dim in (1, 3):
        cs.append(Case(f'CumSumTransform[{dim}]', dim, lambda V: tt.CumSumTransform(),
                       fns=(tt.CumSumTransform._call, tt.CumSumTransform._inverse, tt.CumSumTransform.log_abs_det_jacobian),
                       sig='CumSumTransform'))
        cs.append(Case(f'CumSumExpTransform[{dim}]', dim, lambda V: tt.CumSumExpTransform(),
                       fns=(tt.CumSumExpTransform._call, tt.CumSumExpTransform._inverse,
                            tt.CumSumExpTransform.log_abs_det_jacobian), sig='CumSumExpTransform'))
        cs.append(Case(f'CumSumSoftPlusTransform[{dim}]', dim, lambda V: tt.CumSumSoftPlusTransform(),
                       fns=(tt.CumSumSoftPlusTransform._call, tt.CumSumSoftPlusTransform._inverse,
                            tt.CumSumSoftPlusTransform.log_abs_det_jacobian), sig='CumSumSoftPlusTransform'))
    cs.append(Case('SoftPlusTransform', 2, lambda V: tt.SoftPlusTransform(), elementwise=True,
                   fns=(tt.SoftPlusTransform._call, tt.SoftPlusTransform._inverse,
                        tt.SoftPlusTransform.log_abs_det_jacobian)))
    cs.append(Case('LogTransform', 2, lambda V: tt.LogTransform(), domain=pos, elementwise=True,
                   fns=(tt.LogTransform._call, tt.LogTransform._inverse, tt.LogTransform.log_abs_det_jacobian)))
    cs.append(Case('TrilExpDiagonalTransform', 3, lambda V: tt.TrilExpDiagonalTransform(), has_logdet=False,
                   fns=(tt.TrilExpDiagonalTransform._call, tt.TrilExpDiagonalTransform._inverse)))
    cs.append(Case('torch.ExpTransform', 2, lambda V: T.ExpTransform(), elementwise=True,
                   fns=(T.ExpTransform._call, T.ExpTransform._inverse, T.ExpTransform.log_abs_det_jacobian)))
    cs.append(Case('torch.SigmoidTransform', 2, lambda V: T.SigmoidTransform(), elementwise=True, guards=True,
                   has_inverse=False,
                   fns=(T.SigmoidTransform._call, T.SigmoidTransform._inverse, T.SigmoidTransform.log_abs_det_jacobian)))
    def affine(V):
        if V is None:
            return T.AffineTransform(loc=torch.tensor(1.5, dtype=torch.float64), scale=torch.tensor(-2.0, dtype=torch.float64))
        return T.AffineTransform(loc=cm.var_tensor(V, ['loc'])[0], scale=cm.var_tensor(V, ['scale'])[0])

    cs.append(Case('torch.AffineTransform', 2, affine, elementwise=True,
                   domain=lambda d, V: [d.not_(d.eq(V['scale'], 0))],
                   fns=(T.AffineTransform._call, T.AffineTransform._inverse, T.AffineTransform.log_abs_det_jacobian)))
    for dim in (1, 2):
        cs.append(Case(f'torch.StickBreakingTransform[{dim}]', dim, lambda V: T.StickBreakingTransform(), guards=True,
                       has_inverse=False,
                       fns=(T.StickBreakingTransform._call, T.StickBreakingTransform._inverse,
                            T.StickBreakingTransform.log_abs_det_jacobian), sig='torch.StickBreakingTransform'))
    return {c.name: c for c in cs}


def tp_histories():
    """read / write histories on a TransformedParameter: [pre-reads] ; update ; [one accessor] ; call ; read tensor,
    plus two-update histories (the accessor between the updates is what differs)"""
    out = []
    readers = [(), ('read:tensor',), ('read:shape',), ('read:requires_grad',), ('read:sample_shape',)]
    for pre in ((), ('call',), ('call', 'read:tensor')):
        for upd in ('set:p', 'set:tp', 'inplace:p'):
            for rd in readers:
                out.append(pre + (upd,) + rd + ('call', 'read:tensor'))
    for upd1, upd2 in (('set:p', 'inplace:p'), ('inplace:p', 'set:p'), ('set:tp', 'set:p')):
        for rd in readers[1:3]:
            out.append(('call', upd1) + rd + ('call', upd2) + rd + ('call', 'read:tensor'))
    return out


def tp_history_check(make_tf, hist, xs, fresh_vals, elementwise):
    """the same history on the real classes with plain tensors; oracle = torch.autograd at the current value"""
    import torch.autograd.functional as AF
    from torchtree.core.parameter import Parameter, TransformedParameter

    def want_logdet(tf, x):
        J = AF.jacobian(lambda z: tf(z), x)
        if elementwise:
            return torch.diagonal(J).abs().log()
        return torch.linalg.slogdet(J.reshape(-1, x.numel())[: x.numel()])[1]

    tf = make_tf()
    p = Parameter('p', torch.tensor(xs, dtype=torch.float64))
    tp = TransformedParameter('tp', p, make_tf())
    k = 0
    for step, op in enumerate(hist):
        try:
            if op == 'call':
                got = tp()
                want = want_logdet(tf, p.tensor.detach().clone())
                if got.numel() != want.numel() or not torch.allclose(got.reshape(-1).to(torch.float64), want.reshape(-1), rtol=1e-7, atol=1e-9):
                    return True, (f'history {list(hist)} step {step}: TransformedParameter() = {got.tolist()} but the autograd '
                                  f'log-Jacobian at the current value x = {p.tensor.tolist()} is {want.tolist()}')
            elif op == 'read:tensor':
                got = tp.tensor
                want = tf(p.tensor.detach().clone())
                if got.shape != want.shape or not torch.allclose(got, want, rtol=1e-7, atol=1e-9):
                    return True, (f'history {list(hist)} step {step}: TransformedParameter.tensor = {got.tolist()} but '
                                  f'forward(current x) = {want.tolist()}')
            elif op == 'read:shape':
                _ = tp.shape
            elif op == 'read:requires_grad':
                _ = tp.requires_grad
            elif op == 'read:sample_shape':
                _ = tp.sample_shape
            else:
                fresh = torch.tensor(fresh_vals[k % len(fresh_vals)], dtype=torch.float64)
                k += 1
                if op == 'set:p':
                    p.tensor = fresh
                elif op == 'set:tp':
                    tp.tensor = tf(fresh)
                else:
                    p.tensor[...] = fresh
                    p.fire_parameter_changed()
        except Exception as e:
            return True, f'history {list(hist)} step {step} ({op}) raised {type(e).__name__}: {e}'
    return False, 'agree'


def run_case(case, t, V, W, tree_ctx=None):
    """Generic obligations for one transform on one witness.  Returns list[Goal]."""
    from torchtree.core.parameter import Parameter, TransformedParameter
    from torchtree.distributions import transforms as tt

    d = t.dag
    t.ignore_numeric_guards = case.guards
    goals = []
    xn = [f'x{j}' for j in range(case.dim)]
    x = cm.var_tensor(V, xn)
    tf = case.make(V) if tree_ctx is None else tree_ctx['transform']
    # the CumSumExp log-Jacobian calls torch.autograd.functional.jacobian: answered symbolically
    saved = tt.jacobian

    def sym_jacobian(f, inp):
        y_ = f(inp)
        J_ = [d.grad(a, inp._ids.reshape(-1).tolist(), honour_stops=True) for a in y_._ids.reshape(-1).tolist()]
        return from_ids(torch.tensor(J_, dtype=torch.int64).reshape(tuple(y_.shape) + tuple(inp.shape)))

    tt.jacobian = sym_jacobian
    try:
        y = tf(x)
        J = jacobian_ids(y, x)
        yflat = y._ids.reshape(-1).tolist()
        if case.has_logdet:
            rep = tf.log_abs_det_jacobian(x, y)
            rep_ids = (rep._ids.reshape(-1).tolist() if isinstance(rep, SymTensor)
                       else [d.const(float(v)) for v in rep.reshape(-1).tolist()])
            if case.elementwise:
                off = [J[i][j] for i in range(len(J)) for j in range(case.dim) if i != j]
                gs = [d.eq(o, 0) for o in off]
                if len(rep_ids) != case.dim:
                    goals.append(Goal(f'{case.name}: log-Jacobian has one entry per element', d.FALSE,
                                      signature=f'{case.sig}:log_abs_det_jacobian'))
                else:
                    for i in range(case.dim):
                        gs.append(d.eq(exp_of(d, rep_ids[i]), dabs(d, J[i][i])))
                goal = d.and_(*gs)
            else:
                if len(rep_ids) != 1:
                    goals.append(Goal(f'{case.name}: log-Jacobian is one number per sample', d.FALSE,
                                      signature=f'{case.sig}:log_abs_det_jacobian'))
                    goal = None
                else:
                    M = [row for row in J[:case.dim]]  # (simplex-valued maps: first dim coordinates)
                    sg = split_det_goals(d, case, rep_ids[0], M, f'{case.sig}:log_abs_det_jacobian') if case.dim > 1 else None
                    if sg is not None:
                        goals.extend(sg)
                        goal = None
                    else:
                        det = det_leibniz(d, M)
                        goal = d.eq(exp_of(d, rep_ids[0]), dabs(d, det))
            if goal is not None:
                goals.append(Goal(f'{case.name}: exp(reported log|det J|) == |det of the differentiated forward map|',
                                  goal, hyps=ground_axioms(d, [goal], rounds=4),
                                  signature=f'{case.sig}:log_abs_det_jacobian'))
        else:
            try:
                tf.log_abs_det_jacobian(x, y)
                goals.append(Goal(f'{case.name}: log-Jacobian unexpectedly implemented', d.FALSE,
                                  signature=f'{case.sig}:log_abs_det_jacobian-implemented'))
            except NotImplementedError:
                pass
        if case.has_inverse:
            back = tf.inv(y)
            bi = back._ids.reshape(-1).tolist()
            if len(bi) != case.dim:
                goals.append(Goal(f'{case.name}: inverse shape', d.FALSE, signature=f'{case.sig}:inverse'))
            else:
                goal = d.and_(*[d.eq(a, b) for a, b in zip(bi, x._ids.tolist())])
                goals.append(Goal(f'{case.name}: inv(forward(x)) == x', goal,
                                  hyps=ground_axioms(d, [goal], rounds=4), signature=f'{case.sig}:inverse'))
        # TransformedParameter(): the log-Jacobian for the *current* value, over read / write HISTORIES: every getter
        # (tensor, shape, requires_grad, sample_shape) consumes the dirty flag, so a value memoised by __call__ must be
        # dropped whichever accessor runs first after an update
        if case.has_logdet and tree_ctx is None:
            def ids_of(v):
                return (v._ids.reshape(-1).tolist() if isinstance(v, SymTensor)
                        else [d.const(float(q)) for q in v.reshape(-1).tolist()])

            for hist in tp_histories():
                if 'set:tp' in hist and not case.has_inverse:
                    continue
                p = Parameter('p', cm.var_tensor(V, xn))
                tp = TransformedParameter('tp', p, case.make(V))
                gs = []
                nfresh = 0
                for op in hist:
                    if op == 'call':
                        got = tp()
                        cur_x = p.tensor
                        y_cur = tf(cur_x)
                        want = tf.log_abs_det_jacobian(cur_x, y_cur)
                        gi, wi = ids_of(got), ids_of(want)
                        gs.append(d.and_(*[d.eq(a, b) for a, b in zip(gi, wi)]) if len(gi) == len(wi) else d.FALSE)
                    elif op == 'read:tensor':
                        tv = ids_of(tp.tensor)
                        yv = ids_of(tf(p.tensor))
                        gs.append(d.and_(*[d.eq(a, b) for a, b in zip(tv, yv)]) if len(tv) == len(yv) else d.FALSE)
                    elif op == 'read:shape':
                        if tuple(tp.shape) != tuple(tf(p.tensor).shape):
                            gs.append(d.FALSE)
                    elif op == 'read:requires_grad':
                        _ = tp.requires_grad
                    elif op == 'read:sample_shape':
                        _ = tp.sample_shape
                    else:
                        fresh = cm.var_tensor(V, [f'{"zu"[nfresh % 2]}{j}' for j in range(case.dim)])
                        nfresh += 1
                        if op == 'set:p':
                            p.tensor = fresh
                        elif op == 'set:tp':
                            tp.tensor = tf(fresh)  # assignment in constrained space
                        elif op == 'inplace:p':
                            p.tensor[...] = fresh
                            p.fire_parameter_changed()
                        else:
                            raise KeyError(op)
                hname = ' ; '.join(hist)
                goal = d.and_(*gs)
                goals.append(Goal(f'{case.name}: TransformedParameter history [{hname}]: every tp() == log-Jacobian at the current '
                                  f'value and every tp.tensor == forward(current x)', goal,
                                  hyps=ground_axioms(d, [goal], rounds=3),
                                  signature=f'TransformedParameter.history:{case.sig}'))
    finally:
        tt.jacobian = saved
    return goals


# ------------------------------------------------------------- replay (autograd oracle)
def numeric_check(make_tf, xvals, has_inverse, has_logdet, elementwise, ydim_crop=True):
    import torch.autograd.functional as AF

    x = torch.tensor(xvals, dtype=torch.float64)
    if (x.abs() > 300).any():
        return False, 'counterexample at an overflowing magnitude (outside float range)'
    tf = make_tf()
    try:
        y = tf(x)
        J = AF.jacobian(lambda z: tf(z), x)
    except Exception as e:
        return True, f'forward raised {type(e).__name__}: {e}'
    if has_logdet:
        try:
            rep = tf.log_abs_det_jacobian(x, y)
        except Exception as e:
            return True, f'log_abs_det_jacobian raised {type(e).__name__}: {e}'
        if elementwise:
            want = torch.diagonal(J).abs().log()
            if rep.shape != want.shape or not torch.allclose(rep.to(torch.float64), want, rtol=1e-7, atol=1e-9):
                return True, f'reported {rep.tolist()} but autograd log|dy/dx| = {want.tolist()} at x={xvals}'
        else:
            Jm = J.reshape(-1, x.numel())[: x.numel()]
            want = torch.linalg.slogdet(Jm)[1]
            if rep.numel() != 1 or not torch.allclose(rep.reshape(()).to(torch.float64), want, rtol=1e-7, atol=1e-9):
                return True, f'reported {rep.tolist()} but autograd log|det J| = {float(want)} at x={xvals}'
    if has_inverse:
        try:
            back = tf.inv(y)
        except Exception as e:
            return True, f'inverse raised {type(e).__name__}: {e}'
        if back.shape != x.shape or not torch.allclose(back, x, rtol=1e-7, atol=1e-9):
            return True, f'inv(forward(x)) = {back.tolist()} != x = {xvals}'
    return False, 'agree with autograd'


def simple_task(name, tr):
    case = simple_cases()[name]
    tr.fn(*case.fns)
    from torchtree.core.parameter import TransformedParameter

    tr.fn(TransformedParameter.__call__, TransformedParameter._apply_transform, TransformedParameter.handle_parameter_changed)
    W = {f'x{j}': 0.4 + 0.35 * j for j in range(case.dim)}
    W.update({f'z{j}': -0.3 + 0.45 * j if 'Log' not in name else 0.8 + 0.3 * j for j in range(case.dim)})
    W.update({f'u{j}': 0.25 + 0.3 * j for j in range(case.dim)})
    if 'Affine' in name:
        W.update({'loc': 1.5, 'scale': -2.0})

    def domain(d, V):
        cs = case.domain(d, V)
        if 'LogTransform' in name:
            cs += [d.lt(0, V[k]) for k in V if k.startswith(('z', 'u'))]
        return cs

    ex = Explorer(W, domain, lambda t, V, Wt: run_case(case, t, V, Wt), tr, max_regions=20, timeout=40.0,
                  label=name, check_defined=False)
    out = ex.run()
    for s in out.region_samples[:1]:
        s['case'] = name
        tr.sample(s)
    if case.guards:
        tr.assumptions.add('torch clamps to finfo.tiny / 1-eps inside Sigmoid/StickBreaking are numerical guards and are '
                           'treated as the identity (they only act beyond |x| ~ 700)')

    def rp(vals):
        xs = [vals.get(f'x{j}', W[f'x{j}']) for j in range(case.dim)]
        ok, det = numeric_check(lambda: case.make(None), xs, case.has_inverse, case.has_logdet, case.elementwise)
        if ok:
            return ok, det
        zs = [vals.get(f'z{j}', W[f'z{j}']) for j in range(case.dim)]
        ok, det = numeric_check(lambda: case.make(None), zs, case.has_inverse, case.has_logdet, case.elementwise)
        if ok or not case.has_logdet:
            return ok, det
        us = [vals.get(f'u{j}', W[f'u{j}']) for j in range(case.dim)]
        for hist in tp_histories():
            if 'set:tp' in hist and not case.has_inverse:
                continue
            ok, det = tp_history_check(lambda: case.make(None), hist, xs, [zs, us], case.elementwise)
            if ok:
                return ok, det
        return False, det

    triage(out, rp, tr, name, {'transform': name})


# ------------------------------------------------------------- tree transforms
def tree_task(task, tr):
    from torchtree.evolution import tree_height_transform as tht
    from torchtree.evolution import tree_model as tm
    import C06

    _, topology, n, kind = task
    cls = tht.GeneralNodeHeightTransform if kind == 'ratio' else tht.DifferenceNodeHeightTransform
    tr.fn(cls._call, cls._inverse, cls.log_abs_det_jacobian, tm.ReparameterizedTimeTreeModel._call)
    label = f'{kind} node-height transform topology={cm.to_newick(topology)}'
    dim = n - 1
    case = Case(label, dim, None, sig=cls.__name__)

    def body(t, V, W):
        d = t.dag
        tree, dic = C06.build_model(topology, n, kind)
        C06.set_sampling_times(tree, V, n)
        goals = run_case(case, t, V, W, tree_ctx={'transform': tree.transform})
        # ReparameterizedTimeTreeModel() == log-Jacobian at the current parameter value, before and after an update
        xs = cm.var_tensor(V, [f'x{j}' for j in range(dim)])
        zs = cm.var_tensor(V, [f'z{j}' for j in range(dim)])

        def assign(v):
            if kind == 'ratio':
                dic['tree.ratios'].tensor = v[:-1]
                dic['tree.root_height'].tensor = v[-1:]
            else:
                dic['tree.shifts'].tensor = v

        gs = []
        for v in (xs, zs):
            assign(v)
            got = tree()
            want = tree.transform.log_abs_det_jacobian(v, tree.transform(v))
            gi = got._ids.reshape(-1).tolist() if isinstance(got, SymTensor) else [d.const(float(q)) for q in got.reshape(-1).tolist()]
            wi = want._ids.reshape(-1).tolist() if isinstance(want, SymTensor) else [d.const(float(q)) for q in want.reshape(-1).tolist()]
            gs.append(d.and_(*[d.eq(a, b) for a, b in zip(gi, wi)]) if len(gi) == len(wi) else d.FALSE)
        goals.append(Goal('ReparameterizedTimeTreeModel() == node-height log-Jacobian at the current value (before/after update)',
                          d.and_(*gs), signature=f'ReparameterizedTimeTreeModel._call:{kind}'))
        # the same model driven by ONE Parameter that is updated in place (optimiser idiom): heights and Jacobian must follow
        from torchtree.core.parameter import Parameter
        from torchtree.evolution.tree_model import ReparameterizedTimeTreeModel

        single = Parameter('single', cm.var_tensor(V, [f'x{j}' for j in range(dim)]))
        if kind == 'ratio':
            tm2 = ReparameterizedTimeTreeModel('tree2', tree.tree, tree._taxa, ratios_root_height=single)
        else:
            tm2 = ReparameterizedTimeTreeModel('tree2', tree.tree, tree._taxa, shifts=single)
        C06.set_sampling_times(tm2, V, n)
        _ = tm2()
        _ = tm2.node_heights
        single.tensor[...] = zs
        single.fire_parameter_changed()
        got_h = tm2.node_heights._ids[n:].tolist()
        got_j = tm2()
        want_h = tree.transform(zs)._ids.tolist()
        want_j = tree.transform.log_abs_det_jacobian(zs, tree.transform(zs))
        gj = got_j._ids.reshape(-1).tolist() if isinstance(got_j, SymTensor) else [d.const(float(q)) for q in got_j.reshape(-1).tolist()]
        wj = want_j._ids.reshape(-1).tolist() if isinstance(want_j, SymTensor) else [d.const(float(q)) for q in want_j.reshape(-1).tolist()]
        goals.append(Goal('single-Parameter tree model after an in-place update + fire_parameter_changed: heights and log-Jacobian follow the new value',
                          d.and_(*([d.eq(a, b) for a, b in zip(got_h, want_h)] + [d.eq(a, b) for a, b in zip(gj, wj)])),
                          signature=f'ReparameterizedTimeTreeModel:in-place-update:{kind}'))
        return goals

    def domain(d, V):
        cs = [d.le(0, V[f's{i}']) for i in range(n)]
        for pre in ('x', 'z'):
            if kind == 'ratio':
                for j in range(dim - 1):
                    cs += [d.lt(0, V[f'{pre}{j}']), d.lt(V[f'{pre}{j}'], 1)]
                cs += [d.lt(V[f's{i}'], V[f'{pre}{dim-1}']) for i in range(n)]
            else:
                cs += [d.lt(0, V[f'{pre}{j}']) for j in range(dim)]
        return cs

    W = {f's{i}': 0.3 * i for i in range(n)}
    for pre, off in (('x', 0.0), ('z', 0.07)):
        for j in range(dim):
            W[f'{pre}{j}'] = (0.3 + 0.1 * j + off) if kind == 'ratio' else (0.7 + 0.2 * j + off)
        if kind == 'ratio':
            W[f'{pre}{dim-1}'] = 5.0 + off
    ex = Explorer(W, domain, body, tr, max_regions=100, timeout=40.0, label=label, check_defined=False,
                  deadline=time.time() + 900)
    out = ex.run()
    tr.bounds['tree transforms'] = 'all rooted topologies n<=3 (quick) / n<=4 (thorough), symbolic sampling times'
    for s in out.region_samples[:1]:
        s['case'] = label
        tr.sample(s)

    def rp(vals):
        tree, dic = C06.build_model(topology, n, kind)
        tree.sampling_times = torch.tensor([vals.get(f's{i}', 0.0) for i in range(n)], dtype=torch.float64)
        if hasattr(tree.transform, 'update_bounds'):
            tree.transform.update_bounds()
        xs = [vals.get(f'x{j}', W[f'x{j}']) for j in range(dim)]
        ok, det = numeric_check(lambda: tree.transform, xs, True, True, False)
        if ok:
            return ok, det
        # history replay: one Parameter updated in place (optimiser idiom)
        from torchtree.core.parameter import Parameter
        from torchtree.evolution.tree_model import ReparameterizedTimeTreeModel

        zs = [vals.get(f'z{j}', W[f'z{j}']) for j in range(dim)]
        single = Parameter('single', torch.tensor(xs, dtype=torch.float64))
        kw = {'ratios_root_height': single} if kind == 'ratio' else {'shifts': single}
        tm2 = ReparameterizedTimeTreeModel('tree2', tree.tree, tree._taxa, **kw)
        tm2.sampling_times = tree.sampling_times
        if hasattr(tm2.transform, 'update_bounds'):
            tm2.transform.update_bounds()
        _ = tm2()
        _ = tm2.node_heights
        single.tensor[...] = torch.tensor(zs, dtype=torch.float64)
        single.fire_parameter_changed()
        got_h = tm2.node_heights[n:]
        got_j = tm2()
        zt = torch.tensor(zs, dtype=torch.float64)
        want_h = tree.transform(zt)
        want_j = tree.transform.log_abs_det_jacobian(zt, want_h)
        if not torch.allclose(got_h, want_h, rtol=1e-9, atol=1e-12) or not torch.allclose(got_j, want_j, rtol=1e-9, atol=1e-12):
            return True, (f'after an in-place update + fire_parameter_changed the tree model reports heights {got_h.tolist()} / '
                          f'log-Jacobian {float(got_j)} but the current parameter gives {want_h.tolist()} / {float(want_j)}')
        return False, 'agree'

    triage(out, rp, tr, label, {'topology': cm.to_newick(topology), 'kind': kind})


# ------------------------------------------------------------- rate transform
def rate_task(task, tr):
    from torchtree.evolution.rate_transform import LogDifferenceRateTransform
    import C06

    _, topology, n = task
    tr.fn(LogDifferenceRateTransform._call, LogDifferenceRateTransform.log_abs_det_jacobian)
    label = f'LogDifferenceRateTransform topology={cm.to_newick(topology)}'
    dim = 2 * n - 2

    def mk():
        tree, dic = C06.build_model(topology, n, 'ratio')
        return LogDifferenceRateTransform(tree)

    case = Case(label, dim, lambda V: mk(), domain=lambda d, V: [d.lt(0, V[k]) for k in V], has_inverse=False,
                sig='LogDifferenceRateTransform')
    W = {f'x{j}': 0.6 + 0.25 * j for j in range(dim)}
    W.update({f'z{j}': 0.9 + 0.15 * j for j in range(dim)})
    W.update({f'u{j}': 0.5 + 0.2 * j for j in range(dim)})
    ex = Explorer(W, case.domain, lambda t, V, Wt: run_case(case, t, V, Wt), tr, max_regions=5, timeout=60.0,
                  label=label, check_defined=False)
    out = ex.run()
    for s in out.region_samples[:1]:
        s['case'] = label
        tr.sample(s)

    def rp(vals):
        xs = [vals.get(f'x{j}', W[f'x{j}']) for j in range(dim)]
        return numeric_check(mk, xs, False, True, False)

    triage(out, rp, tr, label, {'topology': cm.to_newick(topology)})


def run_task(task, tr):
    if task[0] == 'simple':
        simple_task(task[1], tr)
    elif task[0] == 'tree':
        tree_task(task, tr)
    else:
        rate_task(task, tr)


def tasks_for(tier):
    ts = [('simple', name) for name in simple_cases()]
    ns = (3,) if tier == 'quick' else (3, 4)
    for n in ns:
        for topo in cm.rooted_topologies(n):
            for kind in ('ratio', 'shift'):
                ts.append(('tree', topo, n, kind))
    # 5 taxa: topologies where a node's parent index is not increasing with the node index
    for topo in ([((0, 1), ((2, 3), 4)), (((0, 1), 2), (3, 4))] if tier == 'quick' else cm.pick_topologies(5, 'quick', quick_max=12) + [((0, 1), ((2, 3), 4))]):
        ts.append(('tree', topo, 5, 'ratio'))
    ts.append(('rate', cm.caterpillar(3), 3))
    if tier == 'thorough':
        ts.append(('rate', cm.mirror(cm.caterpillar(3)), 3))
        ts.append(('rate', cm.balanced(4), 4))
    return ts


def body(chk):
    chk.explanation = ('the forward map of every shipped transform is traced symbolically and differentiated by the '
                       'engine (independently of the hand-written log_abs_det_jacobian); the solver decides '
                       'exp(reported) == |det J| and inv(f(x)) == x for all points of the domain, and that '
                       'TransformedParameter() / ReparameterizedTimeTreeModel() return that value for the current '
                       'parameter after an update')
    chk.total.assumptions |= {'exp/log uninterpreted with ground instances of their algebraic laws; softplus(x) = log(1+exp x)',
                              'torch SigmoidTransform / StickBreakingTransform: log-Jacobian and TransformedParameter clauses only; their '
                              'inverse needs log(1 - sigmoid(x)) identities the ground-axiom normaliser cannot close (outside the claim)',
                              'TrilExpDiagonalTransform: inverse only (its log-Jacobian raises NotImplementedError, reported as such); '
                              'ConvexCombinationTransform / LinearTransform / RescaledRateTransform are not bijective maps with an inverse and are outside the claim'}
    chk.total.bounds['dims'] = 'vector transforms at dimension 1..3; determinant by Leibniz expansion'
    pmap(run_task, tasks_for(chk.tier), chk.total)


if __name__ == '__main__':
    if '--replay' in sys.argv:
        import json

        r = json.load(open(sys.argv[sys.argv.index('--replay') + 1]))
        print('replay:', r['what'])
        sys.exit(1)
    sys.exit(main_for(PID, body))
