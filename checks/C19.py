"""C19 Every configuration the CLI emits is runnable and targets the right density.

The quantifier over the whole option space is NOT decided by a solver (that would
need symbolic execution of the builders on symbolic options); an explicitly
enumerated grid of torchtree-cli configurations is generated with the real
`torchtree.cli.cli.main()`.  For each configuration

 (1) concrete by-products: the emitted JSON is loaded with the real
     process_objects (references, loggers, samplers, operators), the density
     handed to the sampler/optimiser and its gradient are finite at the initial
     point, and initial values requested through options are the values of the
     constrained parameters;
 (2) solver clause, for ALL unconstrained parameter values: the emitted JSON is
     loaded inside a symbolic trace, every base Parameter is replaced by symbols,
     and   handed() == joint() + sum_{T in EXPECTED} log|det J_T|(x_T)
     is decided, where EXPECTED is derived by walking the JSON (which priors
     have which random variable), independently of cli/jacobians.py, and
     log|det J_T| comes from symbolic differentiation of the traced forward map
     of T (machinery of C07).  Lemma chaining: per transform
     exp(reported log-Jacobian) == |det J| on fresh x, its instantiation at the
     graph's x_T, the sum assembly (abstracted, linear: "counted exactly once")
     and the exp-lifted product assembly.
"""
from __future__ import annotations

import contextlib
import copy
import importlib
import io
import itertools
import json
import math
import os
import shutil
import subprocess
import sys
import tempfile
import traceback

import torch

import common as cm
import C07
from symtorch import SymTensor, cur, from_ids, new_vars
from symtorch.axioms import ground_axioms
from symtorch.explore import Explorer, Goal, _to_float
from vlib.core import main_for, pmap

PID = 'C19'

FASTA = {'A_2010': 'ACGTACGTACGTAA', 'B_2011': 'ACGTACGAACGAAC', 'C_2012': 'ACTTACGAAGGATC'}
NEWICK = '((A_2010:0.1,B_2011:0.2):0.1,C_2012:0.3);'
# branch lengths consistent with the sampling dates (tip heights 2, 1, 0): internal node heights 2.5 and 4.0
NEWICK_TIMED = '((A_2010:0.5,B_2011:1.5):1.5,C_2012:4.0);'
CLI_EXE = '/venv/bin/torchtree-cli'
SOLVERS = tuple(os.environ.get('C19_SOLVERS', 'z3new,z3,cvc5').split(','))


# =================================================================== data / CLI
def make_data(tmp):
    with open(os.path.join(tmp, 'a.fa'), 'w') as f:
        for k, v in FASTA.items():
            f.write(f'>{k}\n{v}\n')
    with open(os.path.join(tmp, 't.nwk'), 'w') as f:
        f.write(NEWICK + '\n')
    with open(os.path.join(tmp, 't2.nwk'), 'w') as f:
        f.write(NEWICK_TIMED + '\n')


def register_all():
    from torchtree.core.utils import package_contents

    for m in package_contents('torchtree'):
        importlib.import_module(m)


def argv_of(sub, groups, tmp):
    """groups: tuples of option tokens; the pseudo group ('@tree', file) selects the input tree file."""
    tree = 't.nwk'
    for g in groups:
        if g[0] == '@tree':
            tree = g[1]
    a = [sub, '-i', os.path.join(tmp, 'a.fa'), '-t', os.path.join(tmp, tree), '--stem', os.path.join(tmp, 'out')]
    for g in groups:
        if g[0] != '@tree':
            a += list(g)
    return a


def opts_str(groups):
    return ' '.join(('-t ' + g[1]) if g[0] == '@tree' else ' '.join(g) for g in groups) or '(defaults)'


def run_cli(argv):
    """Run the real CLI entry point in-process.  Returns (json_list, None) or (None, reason) when the CLI itself
    rejects the options (argparse error / sys.exit != 0).  Python exceptions propagate."""
    from torchtree.cli import cli

    old = sys.argv
    old_dtype = torch.get_default_dtype()
    sys.argv = ['torchtree-cli'] + list(argv)
    out, err = io.StringIO(), io.StringIO()
    try:
        # the executable runs with torch's float32 default: the unconstrained initial values are computed in float32
        torch.set_default_dtype(torch.float32)
        with contextlib.redirect_stdout(out), contextlib.redirect_stderr(err):
            cli.main()
    except SystemExit as e:
        if e.code not in (0, None):
            lines = err.getvalue().strip().splitlines()
            return None, f'exit {e.code}: {lines[-1] if lines else ""}'
    finally:
        sys.argv = old
        torch.set_default_dtype(old_dtype)
    return json.loads(out.getvalue()), None


def load_objects(js):
    """What torchtree.torchtree.main does with the file (minus running the Runnables)."""
    from torchtree.core.utils import expand_plates, process_objects, remove_comments

    js = copy.deepcopy(js)
    remove_comments(js)
    expand_plates(js)
    dic = {}
    import logging

    logging.disable(logging.CRITICAL)  # failures are reported through the exception, not through the root logger
    try:
        with contextlib.redirect_stdout(io.StringIO()):  # (the convergence monitor of Optimizer prints a table header)
            for element in js:
                process_objects(element, dic)
    finally:
        logging.disable(logging.NOTSET)
    return dic


# =================================================================== independent walk of the emitted JSON
def registry(js):
    reg = {}

    def rec(o):
        if isinstance(o, list):
            for e in o:
                rec(e)
        elif isinstance(o, dict):
            if 'id' in o and 'type' in o:
                reg.setdefault(o['id'], o)
            for v in o.values():
                rec(v)

    rec(js)
    return reg


def resolve(o, reg):
    if isinstance(o, str):
        return reg.get(o)
    return o


def base_parameters(o, reg, out, seen=None):
    """ids of the plain `Parameter` objects below a JSON object (inline or by reference)."""
    seen = set() if seen is None else seen
    if isinstance(o, list):
        for e in o:
            base_parameters(e, reg, out, seen)
    elif isinstance(o, str):
        if o in reg and o not in seen:
            base_parameters(reg[o], reg, out, seen)
    elif isinstance(o, dict):
        if 'id' in o and 'type' in o:
            if o['id'] in seen:
                return
            seen.add(o['id'])
            if o['type'] == 'Parameter':
                out.append(o['id'])
                return
            if o['type'] in ('Taxa', 'Alignment', 'SitePattern'):
                return
        for k, v in o.items():
            if k not in ('id', 'type', 'newick', 'sequences', 'transform', 'distribution'):
                base_parameters(v, reg, out, seen)


def handed_density(js):
    """(id of the density handed to the sampler/optimiser, ids of the parameters it moves, kind of runnable)"""
    for o in js:
        if isinstance(o, dict) and o.get('type') == 'MCMC':
            params = []
            for op in o.get('operators', []):
                p = op.get('parameters', [])
                params += [p] if isinstance(p, str) else list(p)
            return o['joint'], params, 'MCMC'
    for o in js:
        if isinstance(o, dict) and o.get('type') == 'Optimizer':
            loss = o['loss']
            if isinstance(loss, dict):
                return loss['joint'], None, 'Optimizer:' + loss.get('type', '?')
            return loss, list(o.get('parameters', [])), 'Optimizer'
    return None, None, None


def random_variable_keys(obj):
    """Which attribute of a prior object is its random variable (None: not a prior)."""
    t = obj.get('type', '')
    if t in ('Distribution', 'CTMCScale', 'GMRF', 'GMRFGammaIntegrated', 'ScaleMixtureNormal', 'MultivariateNormal'):
        return ['x']
    if 'Coalescent' in t or t in ('BirthDeathModel', 'BDSKModel', 'CompoundGammaDirichletPrior'):
        return ['tree_model']
    return None


def transform_chain(o, reg, out, why):
    """TransformedParameters (and the node-height transform of a reparameterised tree) between the random variable
    of a prior and the base parameters: all of their log-Jacobians are needed to express the prior density over
    the unconstrained parameters."""
    o = resolve(o, reg)
    if isinstance(o, list):
        for e in o:
            transform_chain(e, reg, out, why)
        return
    if not isinstance(o, dict):
        return
    t = o.get('type')
    if t == 'TransformedParameter':
        out.setdefault(o['id'], []).append(why)
        transform_chain(o.get('x'), reg, out, why)
    elif t == 'ViewParameter':
        transform_chain(o.get('parameter'), reg, out, why)
    elif t == 'CatParameter':
        transform_chain(o.get('parameters'), reg, out, why)
    elif t == 'ReparameterizedTimeTreeModel':
        out.setdefault(o['id'], []).append(why)
        for k in ('ratios', 'root_height', 'shifts'):
            if k in o:
                transform_chain(o[k], reg, out, why)
    elif t == 'UnRootedTreeModel':
        transform_chain(o.get('branch_lengths'), reg, out, why)
    elif t == 'TimeTreeModel':
        transform_chain(o.get('internal_heights'), reg, out, why)


def expected_jacobians(joint_js, reg):
    """id -> [prior ids] for every transform whose output carries a prior; also the list of priors found."""
    out = {}
    priors = []
    unknown = []

    def rec(o):
        o = resolve(o, reg)
        if not isinstance(o, dict):
            return
        t = o.get('type')
        if t == 'JointDistributionModel':
            for e in o.get('distributions', []):
                rec(e)
            return
        if t in ('TreeLikelihoodModel', 'PoissonTreeLikelihood'):
            return
        keys = random_variable_keys(o)
        if keys is None:
            unknown.append(f"{o.get('id')}:{t}")
            return
        priors.append(o['id'])
        for k in keys:
            if k in o:
                transform_chain(o[k], reg, out, o['id'])

    rec(joint_js)
    return out, priors, unknown


def included_terms(handed_id, reg):
    h = reg.get(handed_id)
    if handed_id == 'joint':
        return [], True
    if h is None or h.get('type') != 'JointDistributionModel':
        return None, False
    ids = [e if isinstance(e, str) else e.get('id') for e in h.get('distributions', [])]
    has_joint = 'joint' in ids
    return [i for i in ids if i != 'joint'], has_joint


def positive_support_parameters(js, reg):
    """ADVI with --distribution LogNormal/Gamma/Weibull keeps a positive parameter constrained and moves it with a
    variational factor whose support is (0, inf): such a base Parameter ranges over the positive reals only."""
    out = set()
    var = reg.get('variational')
    for o in (var or {}).get('distributions', []) if isinstance(var, dict) else []:
        o = resolve(o, reg)
        if isinstance(o, dict) and str(o.get('distribution', '')).split('.')[-1] in ('LogNormal', 'Gamma', 'Weibull'):
            if isinstance(o.get('x'), str):
                out.add(o['x'])
    return out


def make_plan(js):
    reg = registry(js)
    handed, moved, kind = handed_density(js)
    joint_js = reg.get('joint')
    base = []
    base_parameters(joint_js, reg, base)
    exp, priors, unknown = expected_jacobians(joint_js, reg)
    inc, has_joint = included_terms(handed, reg) if handed else (None, False)
    return {'handed': handed, 'moved': moved, 'runnable': kind, 'base': base,
            'positive': sorted(positive_support_parameters(js, reg) & set(base)), 'expected': exp, 'priors': priors,
            'unknown_priors': unknown, 'included': inc, 'has_joint': has_joint}


# =================================================================== pieces of the real graph
def transform_pieces(obj):
    """(transform, current input tensor x_T, reported log-Jacobian) of a TransformedParameter / reparameterised tree."""
    from torchtree.core.parameter import TransformedParameter
    from torchtree.evolution.tree_model import ReparameterizedTimeTreeModel

    if isinstance(obj, TransformedParameter):
        return obj.transform, obj.x.tensor, obj()
    if isinstance(obj, ReparameterizedTimeTreeModel):
        return obj.transform, obj._internal_heights.tensor, obj()
    return None


def p_name(i, j, S):
    return f'P{i}{j}' if S <= 4 else f'P{i}_{j}'


def p_witness(S=4):
    def mk(i, j):
        def f(t, *rest):
            s = t + 0.37 + 0.01 * sum(rest)
            raw = [0.05 + 0.9 * ((math.sin(12.9898 * s * (i * S + jj + 1)) * 43758.5453) % 1.0) for jj in range(S)]
            return raw[j] / sum(raw)

        return f

    return {p_name(i, j, S): mk(i, j) for i in range(S) for j in range(S)}


def install_p_stub(subst):
    """P_ij(t; model parameters) uninterpreted (the identity does not depend on P); the number of states is the
    model's own (4 nucleotides, 20 amino acids, 60..64 codons)."""
    S = int(subst.frequencies.shape[-1])
    cur().dag.uf_eval.update(p_witness(S))

    def p_t(branch_lengths):
        d = cur().dag
        extra = []
        for nm in ('kappa', 'alpha', 'beta', 'rates', 'frequencies'):
            v = getattr(subst, nm, None)
            if isinstance(v, SymTensor):
                extra += v._ids.reshape(-1).tolist()
        ids = branch_lengths._ids
        out = [[[d.uf(p_name(i, j, S), b, *extra) for j in range(S)] for i in range(S)] for b in ids.reshape(-1).tolist()]
        return from_ids(torch.tensor(out, dtype=torch.int64).reshape(tuple(ids.shape) + (S, S)))

    subst.p_t = p_t


def flat_ids(d, x):
    if isinstance(x, SymTensor):
        return x._ids.reshape(-1).tolist()
    return [d.const(float(v)) for v in torch.as_tensor(x).reshape(-1).tolist()]


def dsum(d, ids):
    s = 0
    for i in ids:
        s = d.add(s, i)
    return s


def dprod(d, ids):
    p = 1
    for i in ids:
        p = d.mul(p, i)
    return p


class _Case:
    def __init__(self, name):
        self.name = name


def transform_domain(tf, d, xf):
    """Domain of the forward map in the transform's own coordinates (hypothesis of the per-transform lemma; its
    instance at the graph's x_T is a separate obligation)."""
    from torchtree.evolution.tree_height_transform import GeneralNodeHeightTransform

    from torchtree.distributions.transforms import LogTransform

    xi = xf._ids.reshape(-1).tolist()
    if isinstance(tf, LogTransform):
        return [d.lt(0, x) for x in xi]
    if isinstance(tf, GeneralNodeHeightTransform):
        cs = []
        for r in xi[:-1]:
            cs += [d.lt(0, r), d.lt(r, 1)]
        # the root is above its lower bound = the youngest possible height given the sampling dates
        cs.append(d.lt(d.const(float(tf._bounds[-1])), xi[-1]))
        return cs
    return []


def grouped_det_goals(d, name, rep_id, M, xcols, sig):
    """Triangular (up to a permutation) Jacobian whose reported log-determinant has SEVERAL addends per row
    (stick breaking: -x_i + logsigmoid(x_i) + log y_i): the exp-lifted factors are grouped per row - variable
    factors by the last x coordinate they mention, constant factors by agreement at the witness - and the solver
    proves  prod(group_r) == |J[r][perm r]|  row by row, then the assembly.  The grouping is only a proof hint:
    every identity is decided by the solver.  Returns (goals, lhs node) or None."""
    n = len(M)
    perms = [p for p in itertools.permutations(range(n)) if all(M[i][p[i]] != 0 for i in range(n))]
    if len(perms) != 1:
        return None
    perm = perms[0]
    ents = [M[r][perm[r]] for r in range(n)]
    det = C07.det_leibniz(d, M)
    facs = [f for f in C07.log_factors(d, rep_id) if f != 1]
    colname = {d.args[x][0]: j for j, x in enumerate(xcols)}
    row_of_col = {perm[r]: r for r in range(n)}
    groups = [[] for _ in range(n)]
    consts = []
    for f in facs:
        vs = [colname[v] for v in d.variables([f]) if v in colname]
        if vs:
            groups[row_of_col[max(vs)]].append(f)
        else:
            consts.append(f)

    def val(ids):
        p = 1.0
        for i in ids:
            p *= d.vals[i]
        return p

    if len(consts) > 6:
        return None
    found = None
    for assign in itertools.product(range(n), repeat=len(consts)):
        ok = True
        for r in range(n):
            p = val(groups[r] + [c for c, a in zip(consts, assign) if a == r])
            if abs(p - abs(d.vals[ents[r]])) > 1e-9 * max(1.0, abs(p)):
                ok = False
                break
        if ok:
            found = assign
            break
    if found is None:
        return None
    for c, a in zip(consts, found):
        groups[a].append(c)
    goals = []
    rows = []
    for r in range(n):
        g = d.eq(dprod(d, groups[r]), C07.dabs(d, ents[r]))
        rows.append(Goal(f'{name}: row {r}: product of the exp-lifted addends of the reported log|det J| that belong to x[{perm[r]}] '
                         f'== |J[{r}][{perm[r]}]|', g, hyps=ground_axioms(d, [g], rounds=4), signature=sig))
    goals.extend(rows)
    t = cur()
    avars = [t.fresh('absJ', d.vals[e]) for e in ents]
    goals.append(Goal(f'{name}: |product of entries| == product of |entries| (abstracted)',
                      d.eq(C07.dabs(d, dprod(d, avars)), dprod(d, [C07.dabs(d, a) for a in avars])), signature=sig))
    lhs = dprod(d, facs)
    absdet = C07.dabs(d, det)
    goals.append(Goal(f'{name}: |det J| == |product of the entries of the single surviving Leibniz term|',
                      d.eq(absdet, C07.dabs(d, dprod(d, ents))), signature=sig))
    detfact = goals[-1]
    # assembly on abstracted atoms (factors, |entries|, |det|): a monomial identity given the row identities
    av = {e: t.fresh('absE', abs(d.vals[e])) for e in ents}
    fv = {f: (f if d.ops[f] == 'const' else t.fresh('fac', d.vals[f])) for f in facs}
    dv = t.fresh('absdet', abs(d.vals[det]))
    hy = [d.eq(dprod(d, [fv[f] for f in groups[r]]), av[ents[r]]) for r in range(n)]  # row identities
    hy.append(d.eq(dv, dprod(d, [av[e] for e in ents])))  # |det| = |prod e| = prod |e|
    asm = Goal(f'{name}: exp(reported log|det J|) == |det J| (assembled from the row identities; factors, |entries| and |det| '
               f'abstracted)', d.eq(dprod(d, [fv[f] for f in facs]), dv), hyps=hy, signature=sig)
    asm.deps = list(rows) + [goals[-2], detfact]
    goals.append(asm)
    return goals, lhs


def run_lemma_goals(d, goals, tr, cache, timeout=30.0):
    """Discharge the per-transform lemma goals WITHOUT the path conditions of the surrounding run (they are statements
    about fresh variables).  Goal.hyp_goals: proved formulation used as hypothesis; Goal.deps: must be proved.
    Sets g.status in {'proved','refuted','unknown','dep'}; identical obligations are decided once per configuration."""
    from symtorch.explore import prove

    for g in goals:
        deps = list(getattr(g, 'deps', [])) + list(g.hyp_goals)
        if any(getattr(h, 'status', None) != 'proved' for h in deps):
            g.status = 'dep'
            continue
        hyps = list(g.hyps) + [h.proved_node for h in g.hyp_goals]
        g.status = 'unknown'
        for node in [g.node] + list(g.alts):
            key = (d.to_str(node, 10 ** 6), tuple(sorted(d.to_str(h, 10 ** 6) for h in hyps)))
            if key in cache:
                st = cache[key]
            else:
                st, r, _ = prove(d, hyps, node, timeout=timeout, tr=tr, label=g.label, parallel=True)
                cache[key] = st
            if st == 'proved':
                g.status = 'proved'
                g.proved_node = node
                break
            if st == 'refuted':
                g.status = 'refuted'


def lemma_for(t, T, tf, x_act):
    """Per-transform lemma on FRESH x (witness = the graph's current x_T, so the same branches are taken):
    exp(reported log|det J|(x)) == |det of the symbolically differentiated forward map|(x)."""
    d = t.dag
    n0 = len(t.pcs)
    n0d = len(t.domains)
    xf = new_vars(f'x@{T}', x_act._v.detach().clone() if isinstance(x_act, SymTensor) else x_act.detach().clone())
    yf = tf(xf)
    rep = tf.log_abs_det_jacobian(xf, yf)
    lem_pcs = list(t.pcs[n0:])
    for c in lem_pcs:
        t._pcset.discard(c)
    del t.pcs[n0:]
    log_args = [x for kind, x in t.domains[n0d:] if kind == 'pos']
    dim = xf.numel()
    if not isinstance(yf, SymTensor):
        raise RuntimeError(f'{T}: forward map did not stay symbolic')
    J = C07.jacobian_ids(yf, xf)
    rep_ids = flat_ids(d, rep)
    dom = transform_domain(tf, d, xf)
    hyps = dom + lem_pcs
    sig = f'transform:{type(tf).__name__}:log_abs_det_jacobian'
    goals = []
    name = f'{T} [{type(tf).__name__}, dim {dim}]'
    elementwise = len(J) == dim and len(rep_ids) == dim and all(J[i][j] == 0 for i in range(dim) for j in range(dim) if i != j)
    if elementwise:
        lhs_f = [C07.exp_of(d, r) for r in rep_ids]
        D_f = [C07.dabs(d, J[i][i]) for i in range(dim)]
        goal = d.and_(*[d.eq(a, b) for a, b in zip(lhs_f, D_f)])
        goals.append(Goal(f'{name}: exp(reported log|dy_i/dx_i|) == |d forward_i / d x_i| for every element (fresh x)',
                          goal, hyps=hyps + ground_axioms(d, [goal], rounds=4), signature=sig, info={'kind': 'lemma', 'T': T}))
        lhs, D = dprod(d, lhs_f), dprod(d, D_f)
    else:
        M = [row for row in J[:dim]]
        if len(rep_ids) != 1 or len(J) < dim:
            goals.append(Goal(f'{name}: log-Jacobian is one number', d.FALSE, signature=sig, info={'kind': 'lemma', 'T': T}))
            return None
        det = C07.det_leibniz(d, M)
        D = C07.dabs(d, det)
        sg = C07.split_det_goals(d, _Case(name), rep_ids[0], M, sig) if dim > 1 else None
        if sg is not None:
            for g in sg:
                g.hyps = list(g.hyps) + hyps
                g.info = {'kind': 'lemma', 'T': T}
            goals.extend(sg)
            lhs = dprod(d, [f for f in C07.log_factors(d, rep_ids[0]) if f != 1])
        elif dim > 1 and (gg := grouped_det_goals(d, name, rep_ids[0], M, xf._ids.reshape(-1).tolist(), sig)) is not None:
            for g in gg[0]:
                g.hyps = list(g.hyps) + hyps
                g.info = {'kind': 'lemma', 'T': T}
            goals.extend(gg[0])
            lhs = gg[1]
        else:
            lhs = C07.exp_of(d, rep_ids[0])
            goal = d.eq(lhs, D)
            goals.append(Goal(f'{name}: exp(reported log|det J|) == |det of the differentiated forward map| (fresh x)',
                              goal, hyps=hyps + ground_axioms(d, [goal], rounds=4), signature=sig,
                              info={'kind': 'lemma', 'T': T}))
    if log_args:
        pos = d.and_(*[d.lt(0, a) for a in log_args])
        goals.append(Goal(f'{name}: every log argument of the reported log-Jacobian is positive on the domain', pos,
                          hyps=hyps + ground_axioms(d, [pos], rounds=3), signature=sig + ':log-domain',
                          info={'kind': 'lemma', 'T': T}))
    return {'goals': goals, 'lhs': lhs, 'D': D, 'xf': xf, 'rep_ids': rep_ids, 'side': dom + lem_pcs, 'unit': D == 1}


# =================================================================== concrete oracle (replay)
def numeric_logdet(obj):
    """log|det J| of the forward map of T at its current input, by autograd + slogdet (independent of the
    hand-written log_abs_det_jacobian)."""
    import torch.autograd.functional as AF
    from torchtree.core.parameter import TransformedParameter

    if isinstance(obj, TransformedParameter):
        tf, x = obj.transform, obj.x.tensor.detach().clone()
    else:
        tf, x = obj.transform, obj._internal_heights.tensor.detach().clone()
    n = x.numel()
    J = AF.jacobian(lambda z: tf(z.reshape(x.shape)).reshape(-1), x.reshape(-1))
    return float(torch.linalg.slogdet(J.reshape(-1, n)[:n])[1])


def vnames(pid, shape):
    """Name of the solver variable E > 0 standing for exp(unconstrained value): the universally quantified real u is
    written u = log(E) (a bijection (0,inf) -> R), which keeps the path regions semi-algebraic."""
    return ['exp:' + nm for nm in cm.names_shaped(pid, shape)]


def set_values(dic, plan_base, vals, positive=()):
    for pid in plan_base:
        p = dic[pid]
        cur_t = p.tensor.detach().clone().to(torch.float64)
        names = vnames(pid, tuple(cur_t.shape))
        flat = cur_t.reshape(-1).tolist()
        back = (lambda v: v) if pid in positive else math.log  # positive parameter: the variable is the value itself
        new = [back(vals[nm]) if (nm in vals and vals[nm] > 0) else flat[k] for k, nm in enumerate(names)]
        p.tensor = torch.tensor(new, dtype=torch.float64).reshape(cur_t.shape)


def replay_density(js, plan, vals):
    """Real objects, plain tensors, real p_t: handed() - joint() against sum of autograd log-dets over EXPECTED.
    Returns (mismatch, detail, per-id log-dets)."""
    register_all()
    dic = load_objects(js)
    set_values(dic, plan['base'], vals, plan.get('positive', ()))
    handed = float(dic[plan['handed']]())
    joint = float(dic['joint']())
    lds = {}
    for T in set(plan['expected']) | set(plan['included'] or []):
        obj = dic.get(T)
        try:
            lds[T] = numeric_logdet(obj)
        except Exception:
            try:
                lds[T] = float(torch.as_tensor(obj()).sum())
            except Exception:
                lds[T] = float('nan')
    want = joint + sum(lds[T] for T in plan['expected'])
    tol = 1e-8 * max(1.0, abs(want), abs(handed))
    mismatch = not (abs(handed - want) <= tol)
    detail = (f'handed {plan["handed"]}() = {handed:.12g}, joint() = {joint:.12g}, sum of autograd log|det J| over '
              f'{sorted(plan["expected"])} = {want - joint:.12g}: difference {handed - want:.6g}')
    return mismatch, detail, lds


def structural_diff(plan, unit, const_zero=()):
    inc = plan['included'] or []
    exp = plan['expected']
    items = []
    for T in sorted(exp):
        if T in unit:
            continue
        c = inc.count(T)
        if c == 0:
            items.append(('jacobian-missing', T))
        elif c > 1:
            items.append(('jacobian-counted-twice', T))
    for T in sorted(set(inc)):
        if T in const_zero:
            continue  # non-bijective deterministic function reporting the constant 0: listing it changes nothing
        if T not in exp:
            items.append(('jacobian-for-parameter-without-prior', T))
        elif T in unit and inc.count(T) > 1:
            pass
    return items


# =================================================================== one configuration
def fail_signature(sub, groups, stage, exc, tmp=None):
    """`cli:<sub>:<smallest failing options>:<stage>-fails:<exception>`; <sub> is `*` when the same options fail in the
    same way under all four sub-commands (defect in the shared model-building code)."""
    if tmp is not None:
        same = 0
        for other in SUBS:
            try:
                js, rej = run_cli(argv_of(other, groups, tmp))
                if js is None:
                    break
                st, ex, _, _ = concrete_stage(js, make_plan(js))
            except Exception as e:
                st, ex = 'build', type(e).__name__
            if st == stage and ex == exc:
                same += 1
        if same == len(SUBS):
            sub = '*'
    return f'cli:{sub}:{opts_str(groups)}:{stage}-fails:{exc}'


def move_to_variational_mean(js, dic):
    """ADVI never evaluates the model at the tensors written in the file: the parameters are overwritten by draws
    from the variational distribution.  Its initial point is taken to be the mean (loc) of the initial Normal factors."""
    reg = registry(js)
    var = reg.get('variational')
    moved = 0
    for o in (var or {}).get('distributions', []) if isinstance(var, dict) else []:
        o = resolve(o, reg)
        if not isinstance(o, dict) or not str(o.get('distribution', '')).endswith('Normal'):
            continue
        x, loc = o.get('x'), (o.get('parameters') or {}).get('loc')
        loc_id = loc.get('id') if isinstance(loc, dict) else loc
        if isinstance(x, str) and x in dic and isinstance(loc_id, str) and loc_id in dic:
            want = dic[loc_id].tensor.detach().clone()
            if str(o['distribution']).endswith('LogNormal'):
                want = want.exp()  # factor placed on the positive parameter itself: exp(loc) is its median
            if want.shape == dic[x].tensor.shape:
                dic[x].tensor = want
                moved += 1
    return moved


def concrete_stage(js, plan):
    """Returns (stage, exception type name, message, objects) - stage None when nothing failed."""
    try:
        dic = load_objects(js)
        if str(plan['runnable']).startswith('Optimizer:'):
            move_to_variational_mean(js, dic)
    except Exception as e:
        return 'load', type(e).__name__, f'{e} [{traceback.format_exc().strip().splitlines()[-1][:160]}]', None
    if plan['handed'] is None:
        return None, None, None, dic  # (advi --iter 0: only a Sampler / Logger is emitted)
    if plan['handed'] not in dic:
        return 'load', 'NoTargetDensity', f'unknown target {plan["handed"]}', None
    try:
        moved = plan['moved'] if plan['moved'] is not None else plan['base']
        for pid in plan['base']:
            dic[pid].requires_grad = True
        v = dic[plan['handed']]()
        if v.numel() != 1 or not bool(torch.isfinite(v).all()):
            return 'eval', 'NonFiniteDensity', f'{plan["handed"]}() = {v.tolist()} at the initial point', None
        v.reshape(()).backward()
        for pid in plan['base']:
            g = dic[pid].tensor.grad
            if g is None:
                if pid in moved:
                    return 'eval', 'NoGradient', f'no gradient reaches {pid}', None
                continue
            if not bool(torch.isfinite(g).all()):
                # not fatal for the solver clause: the objects exist and evaluate
                return 'eval', 'NonFiniteGradient', f'd {plan["handed"]} / d {pid} = {g.tolist()} at the initial point', load_objects(js)
    except Exception as e:
        return 'eval', type(e).__name__, f'{e}', None
    return None, None, None, dic


def minimise(sub, groups, tmp, stage, exc):
    """Smallest sub-list of option groups with the same failure (greedy), for a readable signature."""
    register_all()
    cur_g = list(groups)
    changed = True
    while changed:
        changed = False
        for k in range(len(cur_g)):
            trial = cur_g[:k] + cur_g[k + 1:]
            try:
                js, rej = run_cli(argv_of(sub, trial, tmp))
                if js is None:
                    continue
                st, ex, _, _ = concrete_stage(js, make_plan(js))
            except Exception as e:
                st, ex = 'build', type(e).__name__
            if st == stage and ex == exc:
                cur_g = trial
                changed = True
                break
    return cur_g


def regression_oracle():
    """Root-to-tip regression in exact double arithmetic, written independently of tree_regression.py:
    (rate, root height) for the first input tree and the dates in the taxon names."""
    dates = {'A_2010': 2010.0, 'B_2011': 2011.0, 'C_2012': 2012.0}
    dist = {'A_2010': 0.1 + 0.1, 'B_2011': 0.2 + 0.1, 'C_2012': 0.3}
    ts = [dates[k] for k in dates]
    ds = [dist[k] for k in dates]
    n = len(ts)
    mt, md = sum(ts) / n, sum(ds) / n
    slope = sum((t - mt) * (x - md) for t, x in zip(ts, ds)) / sum((t - mt) ** 2 for t in ts)
    root_date = mt - md / slope
    return slope, max(ts) - root_date


def read_initial(dic, reader):
    """The constrained value at the initial point, read back from the loaded object graph."""
    if reader.startswith('param:'):
        return dic[reader[6:]].tensor.detach().to(torch.float64).reshape(-1)
    tree = dic['tree']
    if reader == 'root_height':
        return tree.node_heights.detach().to(torch.float64).reshape(-1)[-1:]
    if reader == 'node_heights':
        return tree.node_heights.detach().to(torch.float64).reshape(-1)[tree.taxa_count:]
    if reader == 'blens_sorted':
        return torch.sort(tree.branch_lengths().detach().to(torch.float64).reshape(-1))[0]
    raise KeyError(reader)


def check_initial_values(dic, wants, label, tr, sub, groups, tmp):
    """wants: (option, reader, expected[, rtol[, kind]]); expected is a list of numbers or, for the reader
    'root_height' with kind 'same-as', the option groups of a reference configuration whose root height must agree."""
    rp = {'sub': sub, 'groups': [list(g) for g in groups], 'kind': 'initial', 'wants': [list(w) for w in wants]}
    for w in wants:
        option, reader, expected = w[0], w[1], w[2]
        rtol = w[3] if len(w) > 3 else 2e-6  # the CLI computes the unconstrained values in float32
        kind = w[4] if len(w) > 4 else 'not-honoured'
        sig = f'cli:{sub}:initial-value-{kind}:{option}'
        try:
            got = read_initial(dic, reader)
        except Exception as e:
            tr.violation(sig, f'torchtree-cli {label}: {option}: the requested value cannot be read back ({reader}): {type(e).__name__}: {e}', rp)
            continue
        how = ''
        if expected and isinstance(expected[0], (tuple, list)):
            # relational: the value an option asks for must not depend on the tree prior family
            ref_groups = tuple(tuple(g) for g in expected)
            js2, rej = run_cli(argv_of(sub, ref_groups, tmp))
            if js2 is None:
                tr.inconc(f'{label}: reference configuration {opts_str(ref_groups)} rejected ({rej})')
                continue
            want = read_initial(load_objects(js2), reader)
            how = f' (value obtained with the reference configuration "{opts_str(ref_groups)}")'
        else:
            want = torch.tensor(expected, dtype=torch.float64).reshape(-1)
            want = want.expand_as(got) if want.numel() == 1 else want
        if got.shape != want.shape or not torch.allclose(got, want, rtol=rtol, atol=1e-9):
            tr.violation(sig, f'torchtree-cli {label}: {option} asks for {reader.replace("param:", "")} = {want.tolist()}{how} but the '
                              f'loaded object graph has {got.tolist()} at the initial point', rp)


def run_config(task, tr):
    _, sub, groups, wants, tmp, solver = task
    from torchtree import torchtree as ttmain
    from torchtree.cli import advi, cli, evolution, hmc, jacobians, map as climap, mcmc, utils
    from torchtree.core.parameter import TransformedParameter
    from torchtree.distributions.joint_distribution import JointDistributionModel
    from torchtree.evolution.tree_model import ReparameterizedTimeTreeModel

    register_all()
    label = f'{sub} {opts_str(groups)}'
    builder = {'hmc': hmc.build_hmc, 'advi': advi.build_advi, 'map': climap.build_optimizer, 'mcmc': mcmc.build_mcmc}[sub]
    tr.fn(cli.main, builder, evolution.create_evolution_joint, evolution.create_evolution_priors, evolution.create_tree_model,
          evolution.create_coalesent, evolution.create_substitution_model, evolution.create_site_model,
          evolution.create_branch_model, evolution.check_arguments, utils.make_unconstrained, utils.remove_constraints,
          jacobians.create_jacobians, ttmain.main, JointDistributionModel.log_prob, TransformedParameter.__call__,
          ReparameterizedTimeTreeModel._call)
    if sub == 'advi':
        tr.fn(advi.create_meanfield, advi.create_variational_model, advi.create_advi, advi.create_sampler)
    if sub == 'hmc':
        tr.fn(hmc.create_hmc, hmc.create_hmc_operator)
    if sub == 'mcmc':
        tr.fn(mcmc.create_mcmc)
    rp = {'sub': sub, 'groups': [list(g) for g in groups]}
    # ---------------------------------------------------------------- build
    try:
        js, rejected = run_cli(argv_of(sub, groups, tmp))
    except Exception as e:
        mg = minimise(sub, groups, tmp, 'build', type(e).__name__)
        tr.violation(fail_signature(sub, mg, 'build', type(e).__name__, tmp),
                     f'torchtree-cli {label}: the builder raised {type(e).__name__}: {e}', dict(rp, kind='run'))
        return
    if js is None:
        tr.notes.append(f'{label}: rejected by the CLI itself ({rejected}) - outside the claim')
        return
    tr.witness_runs += 1
    with open(os.path.join(tmp, f'cfg_{os.getpid()}_{abs(hash(label)) % 10**8}.json'), 'w') as f:
        json.dump(js, f)
    plan = make_plan(js)
    # ---------------------------------------------------------------- (1) concrete by-products
    if wants:
        # values written in the file (for ADVI they parameterise the variational factors' means); read before anything
        # is evaluated so that a family whose density cannot be evaluated still has its initial values checked
        try:
            loaded = load_objects(js)
        except Exception:
            loaded = None  # reported as a load failure below
        if loaded is not None:
            check_initial_values(loaded, wants, label, tr, sub, groups, tmp)
    if solver == 'values':
        tr.notes.append(f'{label}: initial values only (density of this family is outside C19: see C08)')
        return
    stage, exc, msg, dic = concrete_stage(js, plan)
    if stage is not None:
        mg = minimise(sub, groups, tmp, stage, exc)
        tr.violation(fail_signature(sub, mg, stage, exc, tmp),
                     f'torchtree-cli {label} is accepted by the CLI but the emitted JSON fails at {stage}: {exc}: {msg} '
                     f'(smallest failing option set: {opts_str(mg)})', dict(rp, kind='run'))
        if dic is None:
            return
    if plan['handed'] is None:
        tr.notes.append(f'{label}: no sampler/optimiser is emitted (nothing is handed a density); loading only')
        return
    if plan['moved'] is not None and sorted(plan['moved']) != sorted(plan['base']):
        extra = sorted(set(plan['moved']) - set(plan['base']))
        lack = sorted(set(plan['base']) - set(plan['moved']))
        if not (sub == 'mcmc' and all(x.endswith('theta.log') for x in lack) and not extra):
            tr.notes.append(f'{label}: parameters moved by the sampler differ from the base parameters of joint: extra {extra}, not moved {lack}')
    if plan['unknown_priors']:
        tr.inconc(f'{label}: component(s) of joint of a type the JSON walk does not classify: {plan["unknown_priors"]}')
        return
    if not plan['has_joint'] or plan['included'] is None:
        tr.violation(f'cli:{sub}:handed-density-lacks-joint', f'{label}: the density handed over ({plan["handed"]}) does not contain "joint"',
                     dict(rp, kind='run'))
        return
    if solver:
        solver_stage(sub, groups, label, js, plan, dic, tr)


# =================================================================== (2) the solver clause
def solver_stage(sub, groups, label, js, plan, dic0, tr):
    base = {}
    W = {}
    for k, pid in enumerate(plan['base']):
        v = dic0[pid].tensor.detach().to(torch.float64)
        shape = tuple(v.shape)
        names = vnames(pid, shape)
        base[pid] = (shape, names)
        for i, (nm, x) in enumerate(zip(names, v.reshape(-1).tolist())):
            # generic witness: the CLI's initial point moved off its symmetric values
            off = 0.05 + 0.0625 * ((3 * i + k) % 5)
            W[nm] = float(f'{(x * math.exp(off) if pid in plan["positive"] else math.exp(x + off)):.6g}')
    terms = list(plan['expected']) + [T for T in dict.fromkeys(plan['included']) if T not in plan['expected']]
    state = {'cache': {}, 'lemma_failures': {}, 'pc_cache': {}, 'tf_classes': set()}
    tr.stubs.add('substitution_model.p_t replaced by an uninterpreted matrix function P_ij(t; model parameters) '
                 '(the identity does not depend on P; replays use the real p_t)')
    tr.stubs.add('torch.autograd.functional.jacobian inside CumSumExpTransform.log_abs_det_jacobian is answered by the engine\'s symbolic '
                 'reverse differentiation of the traced function (as in C07)')
    tr.assumptions.add('torch clamps to finfo.tiny / 1-eps inside Sigmoid/StickBreaking are numerical guards and are treated as '
                       'the identity (they only act beyond |x| ~ 700)')

    def body(t, V, Wt):
        from torchtree.distributions import transforms as tt

        saved = tt.jacobian

        def sym_jacobian(f, inp):
            # torch.autograd.functional.jacobian (used by CumSumExpTransform.log_abs_det_jacobian): answered by the
            # engine's reverse differentiation of f traced on fresh leaves (honouring autograd stops, as in C07),
            # instantiated at the actual input
            dd = t.dag
            z = new_vars(f'jac_in!{next(t.fresh_counter)}', inp._v.detach().clone())
            y_ = f(z)
            zi = z._ids.reshape(-1).tolist()
            J_ = [dd.grad(a, zi, honour_stops=True) for a in y_._ids.reshape(-1).tolist()]
            flat = dd.substitute([x for row in J_ for x in row], dict(zip(zi, inp._ids.reshape(-1).tolist())))
            return from_ids(torch.tensor(flat, dtype=torch.int64).reshape(tuple(y_.shape) + tuple(inp.shape)))

        tt.jacobian = sym_jacobian
        try:
            return body_(t, V, Wt)
        finally:
            tt.jacobian = saved

    def body_(t, V, Wt):
        d = t.dag
        state['last_witness'] = dict(Wt)
        t.ignore_numeric_guards = True
        d.uf_eval.update(p_witness())
        dic = load_objects(js)
        from torchtree.evolution.substitution_model.abstract import SubstitutionModel

        for pid, (shape, names) in base.items():
            if pid in plan['positive']:
                dic[pid].tensor = cm.var_tensor(V, names).reshape(shape)  # positive parameter moved on (0, inf)
            else:
                dic[pid].tensor = torch.log(cm.var_tensor(V, names)).reshape(shape)  # u = log(E), E > 0
        for o in list(dic.values()):
            if isinstance(o, SubstitutionModel):
                install_p_stub(o)
        H = dic[plan['handed']]()
        Jn = dic['joint']()
        hi, ji = flat_ids(d, H), flat_ids(d, Jn)
        goals = []
        if len(hi) != 1 or len(ji) != 1:
            goals.append(Goal('handed density and joint are single numbers', d.FALSE, signature=f'cli:{sub}:density-shape',
                              info={'kind': 'shape'}))
            return goals
        hi, ji = hi[0], ji[0]
        R = {}
        L = {}
        unit = set()
        for T in terms:
            pcs = transform_pieces(dic.get(T))
            if pcs is None:
                # something else was added to the handed density: its value is a term without a lemma
                R[T] = flat_ids(d, dic[T]())
                continue
            tf, x_act, rep_act = pcs
            state['tf_classes'].add(type(tf))
            R[T] = flat_ids(d, rep_act)
            if not getattr(tf, 'bijective', False) and all(d.ops[r] == 'const' and d.vals[r] == 0 for r in R[T]):
                # a deterministic re-parameterisation that is no change of variables (ConvexCombinationTransform: scale
                # invariant, no inverse) and reports 0: a constant term that may be listed or not; there is no square
                # determinant to compare it with
                unit.add(T)
                state.setdefault('const_zero', set()).add(T)
                tr.assumptions.add('transforms declared non-bijective (torch Transform.bijective False, e.g. ConvexCombinationTransform) that '
                                   'report log|det J| = 0 are treated as deterministic functions: their term is the constant 0 and carries no '
                                   'determinant obligation')
                continue
            lm = lemma_for(t, T, tf, x_act)
            if lm is None:
                continue
            run_lemma_goals(d, lm['goals'], tr, state['cache'])
            bad = [g for g in lm['goals'] if g.status != 'proved']
            if bad:
                state['lemma_failures'].setdefault(T, (bad[0].status, bad[0].label, bad[0].signature, dict(Wt)))
                continue
            L[T] = lm
            if lm['unit']:
                unit.add(T)
            # instantiation at the graph's x_T
            xa = flat_ids(d, x_act)
            mapping = dict(zip(lm['xf']._ids.reshape(-1).tolist(), xa))
            inst = d.substitute(list(lm['rep_ids']) + list(lm['side']) + [lm['lhs'], lm['D']], mapping)
            nrep = len(lm['rep_ids'])
            irep, iside, (ilhs, iD) = inst[:nrep], inst[nrep:nrep + len(lm['side'])], inst[-2:]
            same = d.and_(*[d.eq(a, b) for a, b in zip(irep, R[T])]) if len(irep) == len(R[T]) else d.FALSE
            side = d.and_(*iside) if iside else d.TRUE
            g2 = d.and_(same, side)
            gi = Goal(f'{T}: the log-Jacobian term of the real graph is the lemma\'s expression at x_T, and x_T lies in the '
                      f'lemma\'s domain/region', g2, hyps=ground_axioms(d, [g2], rounds=3),
                      signature=f'cli:{sub}:transform-instance:{T}', info={'kind': 'instance', 'T': T})
            goals.append(gi)
            lm['inst_eq'] = d.eq(ilhs, iD)
            lm['ilhs'], lm['iD'] = ilhs, iD
            lm['deps'] = [gi]
        state['unit'] = set(unit)
        state['have_lemma'] = set(L)
        # ---- sum assembly (abstracted: linear in the joint value and the log-Jacobian terms)
        atoms = [ji] + [r for T in terms for r in R[T]]
        exp_sum = dsum(d, [r for T in plan['expected'] for r in R[T]])
        inc_sum = dsum(d, [r for T in plan['included'] for r in R[T]])
        f_exp, f_inc = cm.abstracted(d, atoms, [d.eq(hi, d.add(ji, exp_sum)), d.eq(hi, d.add(ji, inc_sum))])
        goals.append(Goal('handed() == joint() + sum of the log-Jacobian terms LISTED in the emitted handed density '
                          '(joint value and terms abstracted)', f_inc, signature=f'cli:{sub}:handed-density-not-the-sum-of-its-terms',
                          info={'kind': 'listed'}))
        goals.append(Goal('handed() == joint() + sum over EXPECTED of the log-Jacobian terms, each exactly once '
                          '(joint value and terms abstracted)', f_exp, signature=f'cli:{sub}:density', info={'kind': 'assembly'}))
        # ---- exp-lifted product assembly: exp(sum of terms) == prod |det J_T|(x_T)
        ET = [T for T in plan['expected'] if T in L]
        if ET and len(ET) == len(plan['expected']):
            hyps = [L[T]['inst_eq'] for T in ET]
            goal = d.eq(dprod(d, [L[T]['ilhs'] for T in ET]), dprod(d, [L[T]['iD'] for T in ET]))
            res = cm.abstracted(d, [L[T]['ilhs'] for T in ET] + [L[T]['iD'] for T in ET], hyps + [goal])
            g4 = Goal('exp(sum over EXPECTED of log-Jacobian terms) == product over EXPECTED of |det J_T|(x_T) '
                      '(from the instantiated lemmas)', res[-1], hyps=res[:-1], signature=f'cli:{sub}:product-assembly',
                      info={'kind': 'product'})
            for T in ET:
                g4.hyp_goals += L[T]['deps']
            goals.append(g4)
        # ---- path conditions that hold for ALL parameter values (argument validation of torch.distributions,
        # positivity tests, ...) are proved once as such and are then not part of the region description
        from symtorch.explore import prove

        valid = []
        for c in list(t.pcs):
            key = d.to_str(c, 10 ** 6)
            st = state['pc_cache'].get(key)
            if st is None:
                st, _, _ = prove(d, ground_axioms(d, [c], rounds=3), c, timeout=8.0, tr=tr, solvers=SOLVERS,
                                 label='path condition holds for all parameter values')
                state['pc_cache'][key] = st
            if st == 'proved':
                valid.append(c)
        for c in valid:
            t.pcs.remove(c)
            t._pcset.discard(c)
        for g in goals:
            if (g.info or {}).get('kind') == 'instance':
                g.hyps = list(g.hyps) + valid
        state['valid_pcs'] = max(state.get('valid_pcs', 0), len(valid))
        return goals

    ex = Explorer(W, lambda d, V: [d.lt(0, V[n]) for n in sorted(V)], body, tr, max_regions=40, timeout=40.0, closure_timeout=40.0, label=label,
                  check_defined=False, solvers=SOLVERS)
    rp = {'sub': sub, 'groups': [list(g) for g in groups], 'kind': 'density'}
    try:
        out = ex.run()
    except Exception as e:
        # the real code raised while evaluating the densities at a point of the (unconstrained) domain
        wit = state.get('last_witness', dict(W))
        raised = replay_raises(js, plan, wit)
        if raised is not None:
            tr.violation(f'cli:{sub}:density-raises:{raised[0]}',
                         f'torchtree-cli {label}: evaluating {plan["handed"]}() on the real objects at unconstrained values '
                         f'(exp of) { {k: round(v, 4) for k, v in list(wit.items())[:8]} } raises {raised[0]}: {raised[1][:300]}',
                         dict(rp, values=wit, kind='raises'))
        else:
            tr.inconc(f'{label}: symbolic run raised {type(e).__name__}: {str(e)[:300]} (not reproduced on plain tensors)')
        return
    tr.bounds['solver clause'] = ('per configuration: all real values of every base (unconstrained) Parameter below "joint"; path '
                                  'regions enumerated with a coverage certificate')
    unit = state.get('unit', set())
    for cls in state['tf_classes']:
        tr.fn(cls._call, cls.log_abs_det_jacobian)
    diff = structural_diff(plan, unit, state.get('const_zero', set()))
    tr.sample({'configuration': label, 'handed': plan['handed'], 'runnable': plan['runnable'], 'EXPECTED (from the JSON walk)': sorted(plan['expected']),
               'listed in handed density': plan['included'], 'unit-Jacobian transforms': sorted(unit),
               'priors': plan['priors'], 'regions': out.regions, 'coverage certificate': out.closed, 'path conditions valid everywhere': state.get('valid_pcs', 0),
               'symbols': len(W)}, limit=400)
    def report_assembly(vals, how):
        mismatch, detail, lds = replay_density(js, plan, vals)
        if not mismatch:
            return False, detail
        n = 0
        if plan['handed'] == 'joint' and diff and all(k == 'jacobian-missing' for k, _ in diff):
            miss = [T for _, T in diff if abs(lds.get(T, 0.0)) > 1e-12]
            if miss:
                tr.violation(f'cli:{sub}:jacobian-missing:ALL',
                             f'torchtree-cli {label}: the {plan["runnable"]} moves the unconstrained parameters but is handed the constrained '
                             f'density "joint" itself: the log-Jacobians of {miss} (all carry priors) are missing; {detail} ({how})',
                             dict(rp, values=vals))
                return True, detail
        for kind, T in diff:
            if abs(lds.get(T, 0.0)) > 1e-12:
                n += 1
                why = {'jacobian-missing': f'a prior is placed on it ({", ".join(plan["expected"].get(T, []))}) but its log-Jacobian is not part of {plan["handed"]}',
                       'jacobian-counted-twice': f'its log-Jacobian is listed {plan["included"].count(T)} times in {plan["handed"]}',
                       'jacobian-for-parameter-without-prior': f'its log-Jacobian is part of {plan["handed"]} although no prior in "joint" has it (or anything built from it) as random variable'}[kind]
                tr.violation(f'cli:{sub}:{kind}:{T}',
                             f'torchtree-cli {label}: transform {T}: {why}; log|det J| = {lds[T]:.6g} at the replayed point ({how}); {detail}',
                             dict(rp, values=vals, term=T))
        if n == 0:
            tr.violation(f'cli:{sub}:density-mismatch', f'torchtree-cli {label}: {detail} ({how})', dict(rp, values=vals))
        return True, detail

    for T, (status, glabel, gsig, wit) in state['lemma_failures'].items():
        ok, detail = replay_transform(js, plan, T, wit)
        if ok:
            tr.violation(gsig, f'torchtree-cli {label}: {glabel}: {status}; real objects: {detail}', dict(rp, values=wit, term=T, kind='transform'))
        else:
            tr.inconc(f'{label}: lemma "{glabel}" {status} by the solver portfolio; the real transform agrees with autograd at the witness ({detail})')
    seen = set()
    for g, model, k, wit in out.failed:
        kind = (g.info or {}).get('kind')
        vals = {a: _to_float(b) for a, b in model.items() if b is not None}
        if kind in ('assembly', 'listed', 'shape'):
            if kind in seen:
                continue
            seen.add(kind)
            if kind == 'assembly':
                ok, detail = report_assembly(wit, 'witness of the refuted region')
                if not ok:
                    tr.inconc(f'{label}: "{g.label}" refuted by the solver but the real objects agree at the witness ({detail})')
            else:
                mismatch, detail, _ = replay_listed(js, plan, wit)
                if mismatch:
                    tr.violation(g.signature, f'torchtree-cli {label}: {g.label} fails: {detail}', dict(rp, values=wit, kind='listed'))
                else:
                    tr.inconc(f'{label}: "{g.label}" refuted but not reproduced ({detail})')
        else:
            T = (g.info or {}).get('T')
            ok, detail = replay_transform(js, plan, T, vals) if vals else (False, '')
            if ok:
                wit = vals
            else:
                ok, detail = replay_transform(js, plan, T, wit)
            if ok:
                tr.violation(g.signature, f'torchtree-cli {label}: {g.label} fails: {detail}', dict(rp, values=wit, term=T, kind='transform'))
            else:
                tr.inconc(f'{label}: solver counterexample for "{g.label}" did not reproduce on the real code ({detail})')
    for sig, detail, wit in out.unknown:
        if sig == f'cli:{sub}:density':
            ok, det2 = report_assembly(wit, 'solver undecided; witness point')
            if ok:
                continue
        tr.inconc(f'{label}: {sig} undecided ({detail})')
    # structural findings must be explained by a refuted assembly; the converse is checked here
    if diff and not any((g.info or {}).get('kind') == 'assembly' for g, *_ in out.failed) and not tr.inconclusive:
        ok, detail = report_assembly(dict(W), 'structural difference; initial witness')
        if not ok:
            tr.notes.append(f'{label}: structural difference {diff} without numeric effect ({detail})')


def replay_raises(js, plan, vals):
    register_all()
    try:
        dic = load_objects(js)
        set_values(dic, plan['base'], vals, plan.get('positive', ()))
        dic[plan['handed']]()
        dic['joint']()
    except Exception as e:
        return type(e).__name__, str(e)
    return None


def replay_listed(js, plan, vals):
    register_all()
    dic = load_objects(js)
    set_values(dic, plan['base'], vals, plan.get('positive', ()))
    handed = float(dic[plan['handed']]())
    want = float(dic['joint']()) + sum(float(torch.as_tensor(dic[T]()).sum()) for T in plan['included'])
    return abs(handed - want) > 1e-8 * max(1.0, abs(want)), f'handed() = {handed:.12g} but joint() + listed terms = {want:.12g}'


def replay_transform(js, plan, T, vals):
    register_all()
    dic = load_objects(js)
    set_values(dic, plan['base'], vals, plan.get('positive', ()))
    obj = dic.get(T)
    if obj is None:
        return False, 'no such object'
    try:
        rep = float(torch.as_tensor(obj()).sum())
        want = numeric_logdet(obj)
    except Exception as e:
        return True, f'raised {type(e).__name__}: {e}'
    return abs(rep - want) > 1e-8 * max(1.0, abs(want)), f'{T}() = {rep:.12g}, autograd log|det J| = {want:.12g}'


# =================================================================== executable vs in-process
def run_exe(task, tr):
    _, sub, groups, tmp = task
    register_all()
    argv = argv_of(sub, groups, tmp)
    label = f'{sub} {opts_str(groups)}'
    js, rej = run_cli(argv)
    p = subprocess.run([CLI_EXE] + argv, capture_output=True, text=True, timeout=300)
    if p.returncode != 0 or js is None:
        if (p.returncode != 0) != (js is None):
            tr.inconc(f'{label}: executable exit code {p.returncode} but in-process result {"rejected" if js is None else "accepted"}')
        return
    tr.witness_runs += 1
    if json.loads(p.stdout) != js:
        tr.inconc(f'{label}: JSON printed by {CLI_EXE} differs from the JSON of the in-process cli.main()')
    tr.notes.append(f'{label}: {CLI_EXE} and in-process cli.main() print the same JSON')


def run_task(task, tr):
    if task[0] == 'exe':
        run_exe(task, tr)
    else:
        run_config(task, tr)


# =================================================================== grid
def groups_for(model, C, inv, clock, heights, coal, extra=()):
    g = [('-m', model), ('-C', str(C))]
    if inv:
        g.append(('-I',))
    if clock:
        g.append(('--clock', clock))
        if heights != 'ratio':
            g.append(('--heights', heights))
    if coal:
        g.append(('--coalescent', coal) + (('--grid', '3', '--cutoff', '5.0') if coal == 'skygrid' else ()))
    return tuple(g) + tuple(extra)


SUBS = ('hmc', 'advi', 'map', 'mcmc')
MODELS = ('JC69', 'HKY', 'GTR')
CLOCKS = (None, 'strict', 'ucln')
COALS = (None, 'constant', 'skyride', 'skygrid')


def full_grid():
    out = []
    for sub, model, C, inv, clock, coal in itertools.product(SUBS, MODELS, (1, 4), (False, True), CLOCKS, COALS):
        for heights in (('ratio', 'shift') if clock else ('ratio',)):
            out.append((sub, groups_for(model, C, inv, clock, heights, coal), ()))
    return out


# models outside the full factorial: every sub-command x {time tree + constant coalescent, unrooted tree}
EXTRA_MODELS = ('K80', 'SYM', 'SRD06', 'LG', 'WAG', 'MG94')


def extra_model_configs(subs, models=EXTRA_MODELS):
    out = []
    for sub in subs:
        for model in models:
            extra = (('--genetic_code', '0'),) if model == 'MG94' else ()
            out.append((sub, groups_for(model, 1, False, 'strict', 'ratio', 'constant', extra), ()))
            out.append((sub, groups_for(model, 4 if model != 'MG94' else 1, model not in ('MG94',), None, 'ratio', None, extra), ()))
    return out


def init_configs(subs):
    out = []
    for sub in subs:
        out.append((sub, groups_for('HKY', 1, False, 'strict', 'ratio', 'constant',
                                    (('--rate_init', '0.002'), ('--root_height_init', '5.0'), ('--coalescent_init', '7.5'),
                                     ('-f', '0.1,0.2,0.3,0.4'))),
                    (('--rate_init', 'param:branchmodel.rate', [0.002]), ('--root_height_init', 'root_height', [5.0]),
                     ('--coalescent_init', 'param:coalescent.theta', [7.5]),
                     ('-f', 'param:substmodel.frequencies', [0.1, 0.2, 0.3, 0.4]))))
        out.append((sub, groups_for('JC69', 1, False, None, 'ratio', None, (('--brlens_init', '0.05'),)),
                    (('--brlens_init', 'param:tree.blens', [0.05]),)))
        out.append((sub, groups_for('JC69', 1, False, 'strict', 'shift', 'constant', (('--rate', '0.003'),)),
                    (('--rate', 'param:branchmodel.rate', [0.003]),)))
    return out


# tree-prior families; those with numeric options of their own (--grid/--cutoff) first
FAMILIES = {
    'skygrid': ('--coalescent', 'skygrid', '--grid', '3', '--cutoff', '5.0'),
    'skyglide': ('--coalescent', 'skyglide', '--grid', '3', '--cutoff', '5.0'),
    'piecewise-constant': ('--coalescent', 'piecewise-constant', '--grid', '3', '--cutoff', '5.0'),
    'piecewise-linear': ('--coalescent', 'piecewise-linear', '--grid', '3', '--cutoff', '5.0'),
    'piecewise-exponential': ('--coalescent', 'piecewise-exponential', '--grid', '3', '--cutoff', '5.0'),
    'bdsk': ('--birth-death', 'bdsk', '--grid', '3'),
    'bd-constant': ('--birth-death', 'constant'),
    'constant': ('--coalescent', 'constant'),
    'exponential': ('--coalescent', 'exponential'),
    'skyride': ('--coalescent', 'skyride'),
}


def initial_value_options(family, heights, full):
    """(option groups, wants) for every initial-value option the CLI documents, to be combined with one family."""
    ref = lambda extra: tuple(groups_for('HKY', 1, False, 'strict', heights, 'constant')) + tuple(extra)  # noqa
    opts = [
        ((('--root_height_init', '7.5'),), (('--root_height_init', 'root_height', [7.5]),)),
        ((('--root_height_init', '3.5'),), (('--root_height_init', 'root_height', [3.5]),)),
        ((('--rate_init', '0.002'),), (('--rate_init', 'param:branchmodel.rate', [0.002]),)),
        ((('--rate', '0.003'),), (('--rate', 'param:branchmodel.rate', [0.003]),)),
        ((('-f', '0.1,0.2,0.3,0.4'),), (('-f', 'param:substmodel.frequencies', [0.1, 0.2, 0.3, 0.4]),)),
        ((('--heights_init', 'tree'), ('@tree', 't2.nwk')), (('--heights_init tree', 'node_heights', [2.5, 4.0], 1e-5),)),
        # the regression's root height must be the one obtained with any other tree prior (constant coalescent)
        ((('--heights_init', 'regression'),),
         (('--heights_init regression', 'root_height', ref((('--heights_init', 'regression'),)), 1e-6),)),
        ((('--root_height_init', '7.5'), ('--rate_init', '0.002')),
         (('--root_height_init', 'root_height', [7.5]), ('--rate_init', 'param:branchmodel.rate', [0.002]))),
    ]
    if not family.startswith('bd'):
        opts.append(((('--coalescent_init', '7.5'),), (('--coalescent_init', 'param:coalescent.theta', [7.5]),)))
        opts.append(((('--coalescent_init', '7.5'), ('--root_height_init', '7.5')),
                     (('--coalescent_init', 'param:coalescent.theta', [7.5]), ('--root_height_init', 'root_height', [7.5]))))
    if full:
        rate, height = regression_oracle()
        # an explicit value wins over the regression estimate of the same quantity, the other quantity keeps the estimate
        opts.append(((('--root_height_init', '7.5'), ('--rate_init', 'regression')),
                     (('--root_height_init', 'root_height', [7.5]), ('--rate_init regression', 'param:branchmodel.rate', [rate], 1e-3))))
        opts.append(((('--root_height_init', '7.5'), ('--heights_init', 'regression')),
                     (('--root_height_init', 'root_height', [7.5]),)))
        opts.append(((('--rate_init', '0.002'), ('--heights_init', 'regression')),
                     (('--rate_init', 'param:branchmodel.rate', [0.002]), ('--heights_init regression', 'root_height', [height], 1e-3, 'inaccurate'))))
        # absolute versions against the independent double-precision regression
        opts.append(((('--rate_init', 'regression'),), (('--rate_init regression', 'param:branchmodel.rate', [rate], 1e-3),)))
        opts.append(((('--heights_init', 'regression'),),
                     (('--heights_init regression', 'root_height', [height], 1e-3, 'inaccurate'),
                      ('--heights_init regression [rate]', 'param:branchmodel.rate', [rate], 1e-3, 'inaccurate'))))
    return opts


def pairwise_init_configs(subs, full):
    """Every initial-value option together with every tree-prior family (pairwise), both node-height
    parameterisations.  Concrete only (the solver clause is sized for the core grid)."""
    out = []
    if not full:
        picks = [('hmc', 'skygrid', 'ratio', 0), ('advi', 'skyglide', 'ratio', 6), ('mcmc', 'piecewise-constant', 'shift', 0),
                 ('map', 'skygrid', 'ratio', 5), ('hmc', 'bdsk', 'ratio', 1), ('advi', 'piecewise-linear', 'shift', 8),
                 ('mcmc', 'skygrid', 'ratio', 7), ('hmc', 'piecewise-exponential', 'ratio', 9), ('advi', 'skygrid', 'shift', 6),
                 ('map', 'skyglide', 'ratio', 2)]
        for sub, fam, heights, k in picks:
            og, wants = initial_value_options(fam, heights, False)[k]
            base = groups_for('HKY', 1, False, 'strict', heights, None) + (FAMILIES[fam],)
            out.append((sub, base + tuple(og), wants, 'values' if fam == 'piecewise-exponential' else False))
        # initialisation switches pairwise with each other: an explicit value next to a regression estimate
        rate, height = regression_oracle()
        out.append(('hmc', groups_for('HKY', 1, False, 'strict', 'ratio', 'constant') + (('--root_height_init', '7.5'), ('--rate_init', 'regression')),
                    (('--root_height_init', 'root_height', [7.5]), ('--rate_init regression', 'param:branchmodel.rate', [rate], 1e-3)), False))
        out.append(('advi', groups_for('HKY', 1, False, 'strict', 'ratio', 'constant') + (('--rate_init', '0.002'), ('--heights_init', 'regression')),
                    (('--rate_init', 'param:branchmodel.rate', [0.002]), ('--heights_init regression', 'root_height', [height], 1e-3, 'inaccurate')), False))
        return out
    for sub in subs:
        for fam, fopts in FAMILIES.items():
            for heights in ('ratio', 'shift'):
                for og, wants in initial_value_options(fam, heights, True):
                    base = groups_for('HKY', 1, False, 'strict', heights, None) + (fopts,)
                    out.append((sub, base + tuple(og), wants, 'values' if fam == 'piecewise-exponential' else False))
        for pr in ('exponential', 'gammadir'):
            out.append((sub, groups_for('HKY', 1, False, None, 'ratio', None, (('--brlenspr', pr), ('--brlens_init', '0.05'))),
                        (('--brlens_init', 'param:tree.blens', [0.05]),), False))
    return out


SUB_OPTIONS = {
    'hmc': [(('--adapt_mass_matrix',),), (('--adapt_step_size', 'dualaveraging'),), (('--adapt_step_size', 'adaptive'),),
            (('--mass_matrix', 'dense'),), (('--split',),), (('--warmup', '100'),),
            (('--join', 'substmodel.kappa.unres,substmodel.frequencies.unres'),),
            (('--mass_matrix', 'dense'), ('--split',), ('--adapt_mass_matrix',))],
    'advi': [(('-q', 'fullrank'),), (('-q', 'realnvp'),), (('--distribution', 'LogNormal'),), (('--distribution', 'Gamma'),),
             (('--divergence', 'KLpq'),), (('--K_grad_samples', '2'),), (('--K_elbo_samples', '2'),), (('--entropy',),),
             (('--samples', '0'),), (('--iter', '0'),), (('--samples', '0'), ('--iter', '0')), (('--checkpoint_all',),)],
    'map': [(('--line_search_fn', 'strong_wolfe'),)],
    'mcmc': [],
}
MODEL_OPTIONS = [(('--clockpr', 'exponential'),), (('--clockpr', 'exponential(100)'),), (('--include_jacobian',),),
                 (('--use_ambiguities',),), (('--use_tip_states',),), (('--use_path',),), (('--heights_init', 'tree'),), (('--keep',),),
                 (('--coalescent_init', 'tree'), ('--heights_init', 'tree')), (('--rate_init', 'regression'),),
                 (('--heights_init', 'regression'),), (('--coalescent_integrated', '3,0.003'),), (('--dates', '0'),)]
PIECEWISE_OPTIONS = [(('--gmrf_integrated',),), (('--coalescent_non_centered',),), (('--disable_time_aware',),),
                     (('--disable_gmrf_rescaling',),)]


def option_configs(subs):
    """Further documented options, one at a time, on top of a fixed model (HKY+G4, strict clock, constant / skyride /
    skygrid coalescent): sampler/optimiser options of each sub-command and model options outside the core grid."""
    out = []
    for sub in subs:
        base = groups_for('HKY', 4, False, 'strict', 'ratio', 'constant')
        for ex in SUB_OPTIONS[sub] + MODEL_OPTIONS:
            out.append((sub, base + tuple(ex), ()))
        for coal in ('skyride', 'skygrid'):
            for ex in PIECEWISE_OPTIONS:
                if coal == 'skygrid' and ex[0][0].startswith('--disable'):
                    continue
                out.append((sub, groups_for('JC69', 1, False, 'strict', 'ratio', coal) + tuple(ex), ()))
        out.append((sub, groups_for('HKY', 1, False, None, 'ratio', None, (('--brlenspr', 'gammadir'),)), ()))
    return out


def quick_configs():
    q = [
        ('hmc', groups_for('HKY', 4, True, 'strict', 'ratio', 'constant')),
        ('hmc', groups_for('GTR', 1, False, 'ucln', 'shift', 'skyride')),
        ('hmc', groups_for('JC69', 1, False, None, 'ratio', None)),
        ('advi', groups_for('HKY', 1, False, 'strict', 'ratio', 'skygrid')),
        ('advi', groups_for('GTR', 4, False, None, 'ratio', None)),
        ('mcmc', groups_for('HKY', 4, False, 'strict', 'shift', 'constant')),
        ('mcmc', groups_for('JC69', 1, True, 'strict', 'ratio', 'skyride')),
        ('map', groups_for('HKY', 1, False, 'strict', 'ratio', 'constant')),
        ('hmc', groups_for('JC69', 1, False, 'strict', 'ratio', None)),
        ('advi', groups_for('JC69', 1, False, 'ucln', 'ratio', 'constant')),
        ('hmc', groups_for('JC69', 1, False, None, 'ratio', 'constant')),
        # outside the core grid: non-centred skyride, sampler options, full-rank ADVI
        ('hmc', groups_for('JC69', 1, False, 'strict', 'ratio', 'skyride', (('--coalescent_non_centered',),))),
        ('hmc', groups_for('HKY', 1, False, 'strict', 'ratio', 'constant',
                           (('--adapt_mass_matrix',), ('--adapt_step_size', 'dualaveraging'), ('--warmup', '100'), ('--mass_matrix', 'dense')))),
        ('advi', groups_for('HKY', 1, False, 'strict', 'ratio', 'constant', (('-q', 'fullrank'),))),
        # models outside the core grid
        ('hmc', groups_for('K80', 1, False, 'strict', 'ratio', 'constant')),
        ('advi', groups_for('SRD06', 1, False, 'strict', 'ratio', 'constant')),
        ('mcmc', groups_for('LG', 1, False, None, 'ratio', None)),
        # another objective in front of the optimiser
        ('advi', groups_for('HKY', 1, False, 'strict', 'ratio', 'constant', (('--divergence', 'KLpq'),))),
    ]
    return [(s, g, ()) for s, g in q]


def tasks_for(tier, tmp):
    if tier == 'quick':
        cfgs = quick_configs() + init_configs(('hmc', 'advi'))[:4]
        exe = [('hmc', groups_for('HKY', 4, False, 'strict', 'ratio', 'constant')), ('advi', groups_for('JC69', 1, False, None, 'ratio', None))]
    elif os.environ.get('C19_ONLY') == 'options':
        # development aid: the quick configurations + everything outside the core grid (not a tier of its own)
        cfgs = quick_configs() + init_configs(SUBS) + option_configs(SUBS)
        exe = []
    else:
        cfgs = full_grid() + extra_model_configs(SUBS) + init_configs(SUBS) + option_configs(SUBS)
        exe = [(s, groups_for('HKY', 4, True, 'strict', 'ratio', 'skygrid')) for s in SUBS]
    ts = [('cfg', sub, groups, wants, tmp, True) for sub, groups, wants in cfgs]
    if os.environ.get('C19_ONLY') != 'options':
        ts += [('cfg', sub, groups, wants, tmp, mode) for sub, groups, wants, mode in pairwise_init_configs(SUBS, tier != 'quick')]
    ts += [('exe', sub, groups, tmp) for sub, groups in exe]
    return ts


def body(chk):
    chk.explanation = ('enumerated torchtree-cli configurations (real cli.main()); per configuration the emitted JSON is loaded with the '
                       'real process_objects inside a symbolic trace, all base parameters become symbols and the solver decides, on '
                       'every path region (coverage certified), handed() == joint() + sum over EXPECTED of log-Jacobian terms with '
                       'EXPECTED derived from the JSON (priors -> random variable -> chain of transforms) and every term proved equal '
                       'to log|det| of the symbolically differentiated forward map (exp-lifted, lemma chaining); loading, finiteness of '
                       'density and gradient and requested initial values are concrete by-products')
    chk.total.assumptions |= {
        'the quantifier over the CLI option space is NOT decided by a solver: the configurations listed in the evidence are '
        'enumerated explicitly (sub-command x model {JC69,HKY,GTR} x categories x invariant x clock x node-height parameterisation x coalescent; '
        'K80, SYM, SRD06, LG, WAG, MG94 with a strict clock + constant coalescent and with an unrooted tree; '
        '3 taxa with sampling dates 2010/2011/2012); options outside the grid are outside the claim',
        'EXPECTED = transforms between the random variable of a prior found in "joint" (x of Distribution/CTMCScale/GMRF, the tree of '
        'a coalescent or tree prior) and the base parameters; a conditioning argument (theta of a coalescent, hyper-parameters) is '
        'not a random variable of that prior',
        'exp-lifted: exp(reported) == |det J| with exp(a+b) = exp(a)exp(b), exp(log a) = a for a > 0 (log arguments proved positive); '
        'exp/log uninterpreted with ground instances of their laws',
        'simplex-valued transforms (stick breaking): Jacobian of the first K-1 coordinates (density w.r.t. Lebesgue measure on them)',
        'transforms whose differentiated forward map has determinant identically 1 (AffineTransform with scale 1, node-height '
        'differences) contribute log|det J| = 0 and may be listed or not',
        'solver variables: each unconstrained real u is written u = log(E) with a variable E > 0 (a bijection (0,inf) -> R; keeps the '
        'path regions semi-algebraic so that the coverage query is decidable); replays convert back',
        'ADVI: the initial point is the mean (loc) of the initial Normal variational factors (the tensors in the file are overwritten by '
        'draws before the model is ever evaluated); values requested through options are compared with the tensors in the file',
        'samplers/optimisers are constructed but not run; float32 rounding of initial values computed by the CLI is tolerated (2e-6)',
    }
    tmp = tempfile.mkdtemp(prefix='c19_')
    try:
        make_data(tmp)
        chk.total.bounds['configurations'] = ('quick: 14 representative configurations + 4 with initial-value options; thorough: '
                                              'the full grid {hmc,advi,map,mcmc} x {JC69,HKY,GTR} x C{1,4} x invariant{off,on} x '
                                              'clock{none,strict,ucln} x heights{ratio,shift} x coalescent{none,constant,skyride,skygrid} '
                                              '(960) + 12 with initial-value options + further documented options one at a time on a '
                                              'fixed model (sampler/optimiser options, clock prior, tip coding, initialisation, '
                                              'integrated / non-centred / time-aware GMRF variants) + every initial-value option (--root_height_init, --rate_init, --rate, '
                                              '-f, --coalescent_init, --heights_init tree|regression, --rate_init regression, --brlens_init) pairwise with '
                                              'every tree-prior family (skygrid, skyglide, piecewise-*, skyride, constant, exponential, birth-death) and both '
                                              'node-height parameterisations, concrete only (quick: 10 of them)')
        chk.total.bounds['data'] = f'3 taxa {list(FASTA)} (dates from names), {len(next(iter(FASTA.values())))} sites, tree {NEWICK}'
        tasks = tasks_for(chk.tier, tmp)
        chk.total.bounds['configuration list'] = [f'{t[1]} {opts_str(t[2])}' + (' [executable vs in-process]' if t[0] == 'exe' else '')
                                                  for t in tasks]
        pmap(run_task, tasks, chk.total)
    finally:
        shutil.rmtree(tmp, ignore_errors=True)


def replay_file(path):
    r = json.load(open(path))
    rp = r['replay']
    torch.set_default_dtype(torch.float64)
    register_all()
    tmp = tempfile.mkdtemp(prefix='c19r_')
    try:
        make_data(tmp)
        groups = [tuple(g) for g in rp['groups']]
        try:
            js, rej = run_cli(argv_of(rp['sub'], groups, tmp))
        except Exception as e:
            print(f'REPRODUCED builder raised {type(e).__name__}: {e}')
            return 1
        if js is None:
            print('NOT REPRODUCED: rejected by the CLI', rej)
            return 0
        plan = make_plan(js)
        kind = rp.get('kind')
        if kind == 'run':
            stage, exc, msg, _ = concrete_stage(js, plan)
            print(('REPRODUCED ' if stage else 'NOT REPRODUCED ') + f'{stage}: {exc}: {msg}')
            return 1 if stage else 0
        if kind == 'initial':
            from vlib.core import TaskResult

            tr = TaskResult('replay')
            check_initial_values(load_objects(js), [tuple(w) for w in rp.get('wants', [])], 'replay', tr, rp['sub'], groups, tmp)
            hit = [v for v in tr.violations if v['signature'] == r['signature']]
            print(('REPRODUCED ' + hit[0]['what']) if hit else 'NOT REPRODUCED')
            return 1 if hit else 0
        if kind == 'raises':
            raised = replay_raises(js, plan, rp.get('values', {}))
            print(('REPRODUCED ' + ': '.join(raised)[:400]) if raised else 'NOT REPRODUCED')
            return 1 if raised else 0
        if kind == 'transform':
            ok, detail = replay_transform(js, plan, rp['term'], rp.get('values', {}))
        elif kind == 'listed':
            ok, detail, = replay_listed(js, plan, rp.get('values', {}))
        else:
            ok, detail, lds = replay_density(js, plan, rp.get('values', {}))
            detail += f'; log|det J| per transform: { {k: round(v, 6) for k, v in lds.items()} }'
        print(('REPRODUCED ' if ok else 'NOT REPRODUCED ') + detail)
        return 1 if ok else 0
    finally:
        shutil.rmtree(tmp, ignore_errors=True)


if __name__ == '__main__':
    if '--replay' in sys.argv:
        sys.exit(replay_file(sys.argv[sys.argv.index('--replay') + 1]))
    sys.exit(main_for(PID, body))
