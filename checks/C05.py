"""C05 Among-site rate models keep the mean substitution rate at one.

Constant / Invariant / Weibull(K) / Weibull(K)+invariant site models are built
from JSON, their parameters replaced by symbols (single and batched), and the
real rates()/probabilities() code is executed.  The solver proves, for all
shape > 0, pinv in [0,1), mu > 0: probabilities sum to one and are >= 0, rates
>= 0, the invariant class has rate exactly 0 and probability pinv, and the
probability-weighted mean rate equals mu (or 1).

Histories ('hist' tasks): after the first evaluation every non-empty SUBSET of
the model's parameters (shape / pinv / mu) is replaced by fresh symbols, one
subset after the other, and after each partial update the clauses are proved
again on what rates() / probabilities() return then - with the new symbols for
the updated parameters and the current ones for the untouched parameters - for
both accessor orders (a cache that is not invalidated by one particular
parameter, or that is refreshed by only one accessor, breaks "mean rate == the
supplied mu" / "probability of the invariant class == pinv").

Sample shapes ('shapes' tasks): the parameters carry one, two or three leading
axes ([2], [3], [2,3], [3,2], [2,2,3], [1] and sizes equal to the number of
categories / that number + 1), for every model and every non-empty subset of
its parameters (the others stay [1]).  All clauses are decided per sample on the
last axis; rates().shape / probabilities().shape == sample shape + (categories,)
is a concrete obligation.

Op histories ('ops' tasks): after an optional first read, EVERY sequence of 3
(thorough: 4) ops over {update shape, update pinv, update mu, rates() only,
probabilities() only, rates() then probabilities(), probabilities() then
rates()}; a sequence that ends with an update is closed by each of the four
reads.  Every read is decided against the clauses at the symbols current at
that moment.

In these two families the obligations of a correct implementation are instances
of a handful of formulas (one per model x clause): an obligation whose goal and
hypotheses are, after renaming the current symbols of the sample to their role
and up to the operand order of the commutative builders, identical to one the
solver already proved is closed by that proof; every other obligation (a stale
symbol of an earlier update, a symbol of another sample, ...) goes to the solver.
"""
from __future__ import annotations

import hashlib
import itertools
import os
import shutil
import sys
import tempfile
from fractions import Fraction

import torch

import common as cm
from symtorch import SymTensor, tracing
from symtorch.axioms import ground_axioms
from vlib.core import main_for, pmap

PID = 'C05'


def model_json(kind, K, mu):
    js = {'id': 'site', 'type': 'ConstantSiteModel'}
    if kind == 'invariant':
        js = {'id': 'site', 'type': 'InvariantSiteModel', 'invariant': {'id': 'pinv', 'type': 'Parameter', 'tensor': [0.2]}}
    elif kind == 'weibull':
        js = {'id': 'site', 'type': 'WeibullSiteModel', 'categories': K,
              'shape': {'id': 'shape', 'type': 'Parameter', 'tensor': [0.7]}}
    elif kind == 'weibull+inv':
        js = {'id': 'site', 'type': 'WeibullSiteModel', 'categories': K,
              'shape': {'id': 'shape', 'type': 'Parameter', 'tensor': [0.7]},
              'invariant': {'id': 'pinv', 'type': 'Parameter', 'tensor': [0.2]}}
    if mu:
        js['mu'] = {'id': 'mu', 'type': 'Parameter', 'tensor': [1.3]}
    return js


def ids_of_any(d, x):
    if isinstance(x, SymTensor):
        return x._ids
    flat = [d.const(float(v)) for v in x.reshape(-1).tolist()]
    return torch.tensor(flat, dtype=torch.int64).reshape(x.shape)


def run_task(task, tr):
    from torchtree.evolution import site_model as sm

    if task[0] == 'hist':
        return run_hist(task, tr)
    if task[0] == 'shapes':
        return run_shapes(task, tr)
    if task[0] == 'ops':
        return run_ops(task, tr)
    kind, K, mu, batched = task
    label = f'{kind} K={K} mu={mu} batched={batched}'
    tr.fn(sm.ConstantSiteModel.rates, sm.InvariantSiteModel.update_rates_probs,
          sm.UnivariateDiscretizedSiteModel.update_rates, sm.WeibullSiteModel.inverse_cdf)
    tr.bounds['categories'] = ('K in 1..4 (quick) / 1..6,8,16 (thorough); shapes [] and [2] (all parameters batched); every '
                               'combination with invariant / mu; further leading shapes and partially batched parameters: see '
                               '"sample shapes"')
    B = 2 if batched else 1
    with tracing() as t:
        d = t.dag
        site, dic = cm.build(model_json(kind, K, mu))
        V = {}

        def sym(key, prefix, base):
            if key in dic:
                vals = torch.tensor([[base + 0.17 * b] for b in range(B)] if batched else [base], dtype=torch.float64)
                st = cm.symbolize(dic[key], prefix, vals)
                for i in st._ids.reshape(-1).tolist():
                    V[d.args[i][0]] = i
                return st
            return None

        shape = sym('shape', 'shape', 0.7)
        pinv = sym('pinv', 'pinv', 0.2)
        mus = sym('mu', 'mu', 1.3)
        dom = []
        for name, i in V.items():
            if name.startswith(('shape', 'mu')):
                dom.append(d.lt(0, i))
            if name.startswith('pinv'):
                dom += [d.le(0, i), d.lt(i, 1)]
        goals = []

        def obligations(tag, rates, probs):
            ri = ids_of_any(d, rates)
            pi = ids_of_any(d, probs)
            ncat = ri.shape[-1]
            exp_cat = {'constant': 1, 'invariant': 2, 'weibull': K, 'weibull+inv': K + 1}[kind]
            if ncat != exp_cat or pi.shape[-1] != exp_cat:
                goals.append((tag + 'number of categories', d.FALSE))
                return
            rrows = ri.reshape(-1, ncat).tolist()
            prows = pi.reshape(-1, ncat).tolist()
            if len(prows) == 1 and len(rrows) > 1:
                prows = prows * len(rrows)
            if len(rrows) == 1 and len(prows) > 1:
                rrows = rrows * len(prows)
            if batched and len(rrows) != B:
                goals.append((tag + 'one row of rates per sample', d.FALSE))
                return
            for b, (rr, pp) in enumerate(zip(rrows, prows)):
                sfx = f'[{b},0]' if batched else '[0]'
                s = 0
                m = 0
                for r, p in zip(rr, pp):
                    s = d.add(s, p)
                    m = d.add(m, d.mul(p, r))
                target = V['mu' + sfx] if mus is not None else 1
                goals.append((f'{tag}sample {b}: probabilities sum to one', d.eq(s, 1)))
                goals.append((f'{tag}sample {b}: probabilities and rates non-negative',
                              d.and_(*([d.le(0, p) for p in pp] + [d.le(0, r) for r in rr]))))
                goals.append((f'{tag}sample {b}: weighted mean rate == ' + ('mu' if mus is not None else '1'), d.eq(m, target)))
                if 'inv' in kind:
                    goals.append((f'{tag}sample {b}: invariant class has rate exactly 0 and probability pinv',
                                  d.and_(d.bconst(rr[0] == 0), d.eq(pp[0], V['pinv' + sfx]))))

        try:
            obligations('', site.rates(), site.probabilities())
            # after an update of every parameter the model must reflect the new values (no stale cache)
            V_old = dict(V)
            if shape is not None or pinv is not None or mus is not None:
                V.clear()
                shape = sym('shape', 'shape2_', 0.9)
                pinv = sym('pinv', 'pinv2_', 0.35)
                mus = sym('mu', 'mu2_', 0.8)
                # rename lookups
                V.update({k.replace('shape2_', 'shape').replace('pinv2_', 'pinv').replace('mu2_', 'mu'): v for k, v in list(V.items())})
                for name, i in list(V.items()):
                    if name.startswith(('shape', 'mu')):
                        dom.append(d.lt(0, i))
                    if name.startswith('pinv'):
                        dom += [d.le(0, i), d.lt(i, 1)]
                # after the update probabilities() is asked FIRST (a flag cleared by one accessor must not leave the other stale)
                probs_first = site.probabilities()
                obligations('after update: ', site.rates(), probs_first)
        except Exception as e:
            tr.violation(f'{kind}:raises', f'{label}: raises {type(e).__name__}: {e}', {'label': label})
            return
        tr.witness_runs += 1
        tr.ops_checked += t.nchecked
        tr.regions += 1
        allv = {d.args[i][0]: i for i in d.topo([g[1] for g in goals]) if d.ops[i] == 'var'}
        tr.sample({'case': label, 'goals': [g[0] for g in goals][:6], 'rate0': d.to_str(int(ids_of_any(d, site.rates()).reshape(-1)[-1]), 5)})
        ax = ground_axioms(d, [g[1] for g in goals])

        def replay(vals):
            return replay_case(kind, K, mu, batched, vals)

        cm.discharge(tr, d, dom + ax + list(t.pcs), goals, label, replay=replay, timeout=40.0, varnodes=allv,
                     sig_prefix=f'{kind}:', threads=4 if K >= 3 else 1)


def concrete_check(kind, K, tag, r, p, pv, m):
    """independent concrete oracle for one (rates, probabilities) pair; returns a description or None"""
    exp_cat = {'constant': 1, 'invariant': 2, 'weibull': K, 'weibull+inv': K + 1}[kind]
    if r is None or p is None:
        return f'{tag}rates/probabilities not available: {r} {p}'
    if r.shape[-1] != exp_cat or p.shape[-1] != exp_cat:
        return f'{tag}number of categories: rates {tuple(r.shape)} probabilities {tuple(p.shape)}, expected {exp_cat}'
    r = r.to(torch.float64)
    p = p.to(torch.float64)
    target = m.reshape(-1) if m is not None else torch.ones(1, dtype=torch.float64)
    mean = (r * p).sum(-1).reshape(-1)
    if target.numel() not in (1, mean.numel()) and mean.numel() != 1:
        return f'{tag}{mean.numel()} rows of rates for {target.numel()} samples'
    if not torch.allclose(p.sum(-1), torch.ones_like(p.sum(-1)), atol=1e-10):
        return f'{tag}probabilities {p.tolist()} do not sum to one'
    if (p < 0).any() or (r < 0).any():
        return f'{tag}negative rate/probability: rates={r.tolist()} probs={p.tolist()}'
    if mean.numel() == 1 and target.numel() > 1:
        mean = mean.expand_as(target)
    if not torch.allclose(mean, target.expand_as(mean), rtol=1e-9):
        return f'{tag}mean rate {mean.tolist()} != {target.tolist()} (rates={r.tolist()}, probs={p.tolist()})'
    if 'inv' in kind:
        p0 = p[..., 0].reshape(-1)
        if p0.numel() == 1 and pv.numel() > 1:
            p0 = p0.expand(pv.numel())
        if (r[..., 0] != 0).any() or not torch.allclose(p0, pv.reshape(-1).expand_as(p0)):
            return f'{tag}invariant class: rate {r[..., 0].tolist()} prob {p[..., 0].tolist()} pinv {pv.tolist()}'
    return None


def replay_case(kind, K, mu, batched, vals):
    """the same history on plain tensors: evaluate, update every parameter, probabilities() first, then rates()"""
    site, dic = cm.build(model_json(kind, K, mu))
    B = 2 if batched else 1

    def setp(key, pre, default, lo, hi):
        if key not in dic:
            return None
        rows = []
        for b in range(B):
            nm = f'{pre}[{b},0]' if batched else f'{pre}[0]'
            v = vals.get(nm, default)
            if not (lo < v < hi):
                v = default
            rows.append([v] if batched else v)
        tns = torch.tensor(rows if batched else [rows[0]], dtype=torch.float64)
        dic[key].tensor = tns
        return tns

    def check(tag, r, p, pv, m):
        return concrete_check(kind, K, tag, r, p, pv, m)

    try:
        setp('shape', 'shape', 0.7, 0, 1e9)
        pv = setp('pinv', 'pinv', 0.2, -1e-12, 1)
        m = setp('mu', 'mu', 1.3, 0, 1e9)
        bad = check('', site.rates(), site.probabilities(), pv, m)
        if bad:
            return True, bad
        setp('shape', 'shape2_', 0.9, 0, 1e9)
        pv = setp('pinv', 'pinv2_', 0.35, -1e-12, 1)
        m = setp('mu', 'mu2_', 0.8, 0, 1e9)
        probs = site.probabilities()
        bad = check('after update (probabilities() asked first): ', site.rates(), probs, pv, m)
        if bad:
            return True, bad
    except Exception as e:
        return True, f'raises {type(e).__name__}: {e}'
    return False, 'agree'


# ------------------------------------------------------------------ histories of partial updates
WIT = {'shape': (0.7, 0.05, 0.17), 'pinv': (0.2, 0.03, 0.1), 'mu': (1.3, 0.07, 0.17)}
RANGE = {'shape': (0, 1e9), 'pinv': (-1e-12, 1), 'mu': (0, 1e9)}
CLAUSES = {'sum': 'probabilities sum to one', 'nonneg': 'probabilities and rates non-negative',
           'mean': 'weighted mean rate == the current mu (or 1)',
           'invclass': 'invariant class has rate exactly 0 and probability equal to the current pinv',
           'ncat': 'number of categories', 'rows': 'one row of rates per sample'}


def param_keys(kind, mu):
    ks = []
    if kind.startswith('weibull'):
        ks.append('shape')
    if 'inv' in kind:
        ks.append('pinv')
    if mu:
        ks.append('mu')
    return ks


def witness_val(key, s, b):
    base, per_step, per_row = WIT[key]
    return base + per_step * s + per_row * b


def hist_plan(kind, mu, variant):
    """-> (order of the first read, [(parameters assigned, in this order, before the read ; accessor order of the read)])
    accessor order 'rp' = rates() then probabilities(), 'pr' = probabilities() then rates()"""
    ks = param_keys(kind, mu)
    subsets = [c for n in range(1, len(ks) + 1) for c in itertools.combinations(ks, n)]
    if variant in ('rp', 'pr'):
        # every non-empty subset, canonical assignment order, always the same accessor order
        return variant, [(S, variant) for S in subsets]
    if variant == 'alt':
        # subsets in reverse, assigned in reverse order, accessor order alternating (starts with the other one),
        # then every single parameter once more (a second update of the same parameter)
        steps = [(tuple(reversed(S)), 'pr' if i % 2 == 0 else 'rp') for i, S in enumerate(reversed(subsets))]
        steps += [((k,), 'rp' if i % 2 == 0 else 'pr') for i, k in enumerate(ks)]
        return 'rp', steps
    if variant == 'perm':
        # every assignment order of every subset with >= 2 parameters; singles twice in a row
        steps = []
        i = 0
        for S in subsets:
            perms = list(itertools.permutations(S)) if len(S) > 1 else [S, S]
            for P in perms:
                steps.append((P, 'rp' if i % 2 == 0 else 'pr'))
                i += 1
        return 'pr', steps
    raise ValueError(variant)


def read_pair(site, order):
    if order == 'rp':
        r = site.rates()
        p = site.probabilities()
    else:
        p = site.probabilities()
        r = site.rates()
    return r, p


def clause_goals(d, kind, K, B, batched, rates, probs, cur):
    """[(clause key, row, bool node)] for one (rates, probabilities) pair; cur[key] = node ids of the current
    parameter values (one per row)"""
    if not isinstance(rates, torch.Tensor) or not isinstance(probs, torch.Tensor):
        return [('ncat', 0, d.FALSE)]
    ri = ids_of_any(d, rates)
    pi = ids_of_any(d, probs)
    ncat = ri.shape[-1] if ri.dim() else 0
    exp_cat = {'constant': 1, 'invariant': 2, 'weibull': K, 'weibull+inv': K + 1}[kind]
    if ncat != exp_cat or pi.dim() == 0 or pi.shape[-1] != exp_cat:
        return [('ncat', 0, d.FALSE)]
    rrows = ri.reshape(-1, ncat).tolist()
    prows = pi.reshape(-1, ncat).tolist()
    if len(prows) == 1 and len(rrows) > 1:
        prows = prows * len(rrows)
    if len(rrows) == 1 and len(prows) > 1:
        rrows = rrows * len(prows)
    if (batched and len(rrows) != B) or len(rrows) != len(prows):
        return [('rows', 0, d.FALSE)]
    out = []
    for b, (rr, pp) in enumerate(zip(rrows, prows)):
        s = 0
        m = 0
        for r, p in zip(rr, pp):
            s = d.add(s, p)
            m = d.add(m, d.mul(p, r))
        out.append(('sum', b, d.eq(s, 1)))
        out.append(('nonneg', b, d.and_(*([d.le(0, p) for p in pp] + [d.le(0, r) for r in rr]))))
        out.append(('mean', b, d.eq(m, cur['mu'][b] if 'mu' in cur else 1)))
        if 'inv' in kind:
            out.append(('invclass', b, d.and_(d.eq(rr[0], 0), d.eq(pp[0], cur['pinv'][b]))))
    return out


def run_hist(task, tr):
    from torchtree.evolution import site_model as sm

    _, kind, K, mu, batched, variant = task
    label = f'history[{variant}] {kind} K={K} mu={mu} batched={batched}'
    tr.fn(sm.SiteModel.handle_parameter_changed, sm.ConstantSiteModel.rates, sm.ConstantSiteModel.probabilities,
          sm.InvariantSiteModel.rates, sm.InvariantSiteModel.probabilities, sm.InvariantSiteModel.update_rates_probs,
          sm.UnivariateDiscretizedSiteModel.rates, sm.UnivariateDiscretizedSiteModel.probabilities,
          sm.UnivariateDiscretizedSiteModel.update_rates, sm.WeibullSiteModel.inverse_cdf)
    # a subclass may override the listener: record what the models under test really run
    for cls in (sm.ConstantSiteModel, sm.InvariantSiteModel, sm.WeibullSiteModel):
        tr.fn(cls.handle_parameter_changed)
    tr.bounds['histories'] = (
        'first evaluation, then a chain of partial updates: every non-empty subset of the model\'s parameters '
        '{shape, pinv, mu} is replaced by fresh symbols through Parameter.tensor (one subset per step, <= 7 steps '
        'quick), the clauses are proved after every step for the values then current; accessor orders '
        'rates()->probabilities() and probabilities()->rates(); single and batched [2,1] parameters (all of one kind); '
        'quick: Weibull K=2, chains rp / pr; thorough: chains rp / pr for K in 1,2,3,5 and, at K=2, chains alt (reverse '
        'subsets, reverse assignment order, alternating accessor order, repeated single updates) / perm (all assignment '
        'orders of each subset, every single update twice in a row). '
        'Each step starts from the state the previous step left (both accessors called); histories in which a '
        'parameter changes without a change event (in-place edits of .tensor) and to()/cpu()/cuda() are not covered')
    tr.assumptions.add('histories: a parameter is updated by assigning Parameter.tensor (the public setter, which fires the '
                       'change event the site model listens to); new values are fresh symbols in the admissible domain, '
                       'unrelated to the previous ones')
    B = 2 if batched else 1
    first, steps = hist_plan(kind, mu, variant)
    keys = param_keys(kind, mu)
    with tracing() as t:
        d = t.dag
        site, dic = cm.build(model_json(kind, K, mu))
        allv = {}   # every history variable: name -> node
        cur = {}    # key -> node ids of the current value (one per row)
        dom = []

        def assign(key, s):
            vals = torch.tensor([[witness_val(key, s, b)] for b in range(B)] if batched else [witness_val(key, s, 0)],
                                dtype=torch.float64)
            st = cm.symbolize(dic[key], f'{key}_h{s}', vals)
            ids = st._ids.reshape(-1).tolist()
            cur[key] = ids
            for i in ids:
                allv[d.args[i][0]] = i
                if key == 'pinv':
                    dom.extend([d.le(0, i), d.lt(i, 1)])
                else:
                    dom.append(d.lt(0, i))

        def decide(s, S, order, r, p):
            what = 'first evaluation' if s == 0 else 'after update of ' + '+'.join(S)
            cg = clause_goals(d, kind, K, B, batched, r, p, cur)
            goals = []
            for clause, b, node in cg:
                sig = f'{kind}:history:{"fresh" if s == 0 else "update[" + "+".join(sorted(S)) + "]"}:{clause}'
                goals.append((f'step {s} ({what}; read {order}) sample {b}: {CLAUSES[clause]}', node, [], sig))
            ax = ground_axioms(d, [g[1] for g in goals])
            vn = dict(allv)

            def replay(vals, s=s):
                return replay_hist(kind, K, mu, batched, variant, vals, upto=s)

            cm.discharge(tr, d, dom + ax + list(t.pcs), goals, label, replay=replay, timeout=40.0, varnodes=vn,
                         sig_prefix=f'{kind}:history:', defined=False)
            return [g[0] for g in goals]

        try:
            for k in keys:
                assign(k, 0)
            r, p = read_pair(site, first)
            shown = decide(0, (), first, r, p)
            for s, (S, order) in enumerate(steps, start=1):
                for k in S:
                    assign(k, s)
                r, p = read_pair(site, order)
                decide(s, S, order, r, p)
                tr.regions += 1
        except Exception as e:
            ok, detail = replay_hist(kind, K, mu, batched, variant, {}, upto=None)
            if ok:
                tr.violation(f'{kind}:history:raises', f'{label}: raises {type(e).__name__}: {e}; concrete: {detail}',
                             {'label': label})
            else:
                tr.inconc(f'{label}: symbolic run raised {type(e).__name__}: {e}, the concrete history does not')
            return
        tr.witness_runs += 1
        tr.ops_checked += t.nchecked
        tr.sample({'case': label, 'steps': [['+'.join(S), o] for S, o in steps], 'goals first read': shown[:4]})
        # well-definedness of everything the chain computed (denominators 1-pinv, the normalising mean, 1/shape)
        cm.discharge(tr, d, dom + ground_axioms(d, list(t.denominators)) + list(t.pcs), [], label,
                     replay=lambda vals: replay_hist(kind, K, mu, batched, variant, vals, upto=None, finite_only=True),
                     timeout=40.0, varnodes=dict(allv), sig_prefix=f'{kind}:history:', defined=True)


def replay_hist(kind, K, mu, batched, variant, vals, upto=None, finite_only=False):
    """the same chain on plain tensors; upto=s: only the read of step s is judged (None: every read)"""
    B = 2 if batched else 1
    first, steps = hist_plan(kind, mu, variant)
    keys = param_keys(kind, mu)
    curv = {}

    def assign(dic, key, s):
        rows = []
        lo, hi = RANGE[key]
        for b in range(B):
            nm = f'{key}_h{s}[{b},0]' if batched else f'{key}_h{s}[0]'
            v = vals.get(nm, None)
            if v is None or not (lo < v < hi):
                v = witness_val(key, s, b)
            rows.append([v] if batched else v)
        tns = torch.tensor(rows, dtype=torch.float64)
        dic[key].tensor = tns
        curv[key] = tns

    def judge(s, S, order, r, p):
        if finite_only:
            if not (torch.isfinite(r).all() and torch.isfinite(p).all()):
                return f'step {s}: non-finite rates/probabilities {r.tolist()} {p.tolist()}'
            return None
        tag = f'step {s} ({"first evaluation" if s == 0 else "after update of " + "+".join(S)}; read {order}): '
        return concrete_check(kind, K, tag, r, p, curv.get('pinv'), curv.get('mu'))

    try:
        site, dic = cm.build(model_json(kind, K, mu))
        for k in keys:
            assign(dic, k, 0)
        r, p = read_pair(site, first)
        if upto in (None, 0):
            bad = judge(0, (), first, r, p)
            if bad:
                return True, bad
        for s, (S, order) in enumerate(steps, start=1):
            if upto is not None and s > upto:
                break
            for k in S:
                assign(dic, k, s)
            r, p = read_pair(site, order)
            if upto in (None, s):
                bad = judge(s, S, order, r, p)
                if bad:
                    return True, bad
    except Exception as e:
        return True, f'raises {type(e).__name__}: {e}'
    return False, 'agree'


# ------------------------------------------------------------------ scenarios: sample shapes and op histories
# One executor for both extensions.  A scenario is a list of ops on a model freshly built from JSON:
#   ('U', key)      the parameter `key` (shape / pinv / mu) is replaced by fresh symbols through Parameter.tensor
#   ('read', which) which in R (rates() only), P (probabilities() only), RP, PR (both, in that order)
# Every read is compared with the clauses of the property at the symbols that are CURRENT at that moment.
READS = ('R', 'P', 'RP', 'PR')
WIT2 = {'shape': (0.7, 0.05, 0.9), 'pinv': (0.15, 0.04, 0.6), 'mu': (1.3, 0.07, 0.8)}
CLAUSES2 = {'sum': 'probabilities sum to one', 'nonneg': 'probabilities and rates non-negative',
            'nonneg_r': 'rates non-negative', 'nonneg_p': 'probabilities non-negative',
            'mean': 'weighted mean rate == the current mu (or 1)',
            'mean_o': 'mean of rates() under the defining category probabilities at the current pinv == the current mu (or 1)',
            'invclass': 'invariant class has rate exactly 0 and probability equal to the current pinv',
            'invrate': 'invariant class has rate exactly 0',
            'invprob': 'invariant class has probability equal to the current pinv',
            'shape': 'rates() / probabilities() have shape sample shape + (number of categories,)',
            'well-defined': 'denominator non-zero / log, sqrt argument in its domain'}
MAX_VIOLATIONS_PER_TASK = 4
PROVEN = set()      # canonical keys of obligations this process has seen proved
CACHE_DIR = [None]  # directory shared by the worker processes (one empty file per proved canonical key)


def exp_cat(kind, K):
    return {'constant': 1, 'invariant': 2, 'weibull': K, 'weibull+inv': K + 1}[kind]


def nrows_of(lead):
    n = 1
    for s in lead:
        n *= s
    return n


def wit2(key, ver, row, nrows):
    base, per_ver, span = WIT2[key]
    return base + per_ver * ver + span * row / max(1, nrows)


def var_name(key, ver, row, lead, batched):
    if not batched:
        return f'{key}_v{ver}[0]'
    idx = []
    for s in reversed(lead):
        idx.append(row % s)
        row //= s
    return f'{key}_v{ver}[' + ','.join(str(i) for i in reversed(idx)) + ',0]'


def ops_str(ops):
    return ' '.join(('U' + o[1]) if o[0] == 'U' else o[1] for o in ops)


def allowed_prob_shapes(kind, K, lead, bkeys):
    """rates() must be exactly sample shape + (ncat,).  probabilities() too whenever a batched parameter enters them
    (the invariant proportion); otherwise the sample-independent form (ncat,) - which the tree likelihood broadcasts
    against every sample - is accepted as well"""
    ncat = exp_cat(kind, K)
    full = tuple(lead) + (ncat,)
    return {full} if 'pinv' in bkeys else {full, (ncat,)}


def oracle_probs_nodes(d, kind, K, pinv_node):
    if kind == 'constant':
        return [1]
    if kind == 'invariant':
        return [pinv_node, d.sub(1, pinv_node)]
    if kind == 'weibull':
        return [d.const(Fraction(1, K))] * K
    return [pinv_node] + [d.mul(d.const(Fraction(1, K)), d.sub(1, pinv_node))] * K


def read_goals(d, kind, K, lead, bkeys, which, r, p, cur):
    """-> [(clause, row, node, detail)]; a concrete shape failure is the single entry ('shape', None, FALSE, text)"""
    ncat = exp_cat(kind, K)
    full = tuple(lead) + (ncat,)
    n = nrows_of(lead)
    rrows = prows = None
    if 'R' in which:
        if not isinstance(r, torch.Tensor) or tuple(r.shape) != full:
            got = tuple(r.shape) if isinstance(r, torch.Tensor) else type(r).__name__
            return [('shape', None, d.FALSE, f'rates() has shape {got}, expected {full}')]
        rrows = ids_of_any(d, r).reshape(-1, ncat).tolist()
    if 'P' in which:
        if not isinstance(p, torch.Tensor) or tuple(p.shape) not in allowed_prob_shapes(kind, K, lead, bkeys):
            got = tuple(p.shape) if isinstance(p, torch.Tensor) else type(p).__name__
            return [('shape', None, d.FALSE, f'probabilities() has shape {got}, expected {full}')]
        prows = ids_of_any(d, p).expand(full).reshape(-1, ncat).tolist()
    out = []
    for b in range(n):
        target = cur['mu'][b] if 'mu' in cur else 1
        pinv = cur['pinv'][b] if 'pinv' in cur else None
        if which in ('RP', 'PR'):
            rr, pp = rrows[b], prows[b]
            s = m = 0
            for x, y in zip(rr, pp):
                s = d.add(s, y)
                m = d.add(m, d.mul(y, x))
            out.append(('sum', b, d.eq(s, 1), ''))
            out.append(('nonneg', b, d.and_(*([d.le(0, y) for y in pp] + [d.le(0, x) for x in rr])), ''))
            out.append(('mean', b, d.eq(m, target), ''))
            if 'inv' in kind:
                out.append(('invclass', b, d.and_(d.eq(rr[0], 0), d.eq(pp[0], pinv)), ''))
        elif which == 'R':
            rr = rrows[b]
            m = 0
            for x, y in zip(rr, oracle_probs_nodes(d, kind, K, pinv)):
                m = d.add(m, d.mul(y, x))
            out.append(('nonneg_r', b, d.and_(*[d.le(0, x) for x in rr]), ''))
            out.append(('mean_o', b, d.eq(m, target), ''))
            if 'inv' in kind:
                out.append(('invrate', b, d.eq(rr[0], 0), ''))
        else:
            pp = prows[b]
            s = 0
            for y in pp:
                s = d.add(s, y)
            out.append(('sum', b, d.eq(s, 1), ''))
            out.append(('nonneg_p', b, d.and_(*[d.le(0, y) for y in pp]), ''))
            if 'inv' in kind:
                out.append(('invprob', b, d.eq(pp[0], pinv), ''))
    return out


class Canon:
    """structural digest of a DAG node modulo (a) a renaming of variables and (b) the operand order of the commutative
    builders.  Two obligations with equal digests (goal and hypotheses) are the same formula up to a bijective renaming of
    free variables, so the solver's `unsat` for one of them is a proof of the other."""
    COMM = ('add', 'mul', 'and', 'or', 'eq')

    def __init__(self, d):
        self.d = d
        self.memo = {}

    def digest(self, n, ren, renkey):
        d = self.d
        memo = self.memo.setdefault(renkey, {})
        if n in memo:
            return memo[n]
        for x in d.topo([n]):
            if x in memo:
                continue
            op = d.ops[x]
            a = d.args[x]
            if op == 'var':
                txt = 'var ' + ren.get(x, 'name:' + a[0])
            elif op in ('const', 'bconst'):
                txt = f'{op} {a[0]}'
            elif op == 'ipow':
                txt = f'ipow {memo[a[0]]} {a[1]}'
            elif op == 'uf':
                txt = f'uf {a[0]} ' + ' '.join(memo[c] for c in a[1:])
            elif op in self.COMM:
                txt = op + ' ' + ' '.join(sorted(memo[c] for c in a))
            else:
                txt = op + ' ' + ' '.join(memo[c] for c in a)
            memo[x] = hashlib.sha1(txt.encode()).hexdigest()
        return memo[n]


def cache_has(key):
    if key in PROVEN:
        return True
    cd = CACHE_DIR[0]
    if cd and os.path.exists(os.path.join(cd, key)):
        PROVEN.add(key)
        return True
    return False


def cache_put(key):
    PROVEN.add(key)
    cd = CACHE_DIR[0]
    if cd:
        try:
            open(os.path.join(cd, key), 'w').close()
        except OSError:
            pass


def prove_cached(tr, st, glabel, node, sig, replay, label):
    """decide one obligation under the domain constraints of the variables it mentions (+ ground axioms + the path
    conditions of this run).  Current symbols are renamed to their role (shape / pinv / mu) for the cache key."""
    d, t = st['d'], st['t']
    if node == d.TRUE:
        tr.obligation(f'trivial:{glabel}', nontrivial=False)
        return True
    ax = ground_axioms(d, [node]) if node != d.FALSE else []
    pcs = list(t.pcs)
    vs = [x for x in d.topo([node] + ax + pcs) if d.ops[x] == 'var']
    hyps = [c for v in vs for c in st['domc'].get(v, [])] + ax + pcs
    byrole = {}
    for v in vs:
        role = st['roles'].get(v)
        if role is not None:
            byrole.setdefault(role, []).append(v)
    ren = {vv[0]: 'role:' + role for role, vv in byrole.items() if len(vv) == 1}
    renkey = tuple(sorted(ren.items()))
    cn = st['canon']
    key = hashlib.sha1((cn.digest(node, ren, renkey) + '|' +
                        ' '.join(sorted(cn.digest(h, ren, renkey) for h in hyps))).encode()).hexdigest()
    if node != d.FALSE and cache_has(key):
        st['hits'] += 1
        return True
    vn = {d.args[v][0]: v for v in vs}
    n = cm.discharge(tr, d, hyps, [(glabel, node, [], sig)], label, replay=replay, timeout=40.0, varnodes=vn,
                     sig_prefix='', defined=False)
    if n == 1:
        cache_put(key)
        return True
    return False


def sym_scenario(tr, kind, K, mu, lead, bkeys, ops, label, sig_of, state=None):
    """run the ops symbolically, decide every read.  sig_of(clause, index of the op) -> signature.
    -> False as soon as something was reported (violation / inconclusive), True otherwise"""
    keys = param_keys(kind, mu)
    n = nrows_of(lead)
    with tracing() as t:
        d = t.dag
        site, dic = cm.build(model_json(kind, K, mu))
        st = {'d': d, 't': t, 'domc': {}, 'roles': {}, 'canon': Canon(d), 'hits': 0}
        ver = {k: 0 for k in keys}
        cur = {}

        def assign(key):
            batched = key in bkeys
            m = n if batched else 1
            vals = torch.tensor([wit2(key, ver[key], r, m) for r in range(m)], dtype=torch.float64)
            vals = vals.reshape(tuple(lead) + (1,) if batched else (1,))
            sym = cm.symbolize(dic[key], f'{key}_v{ver[key]}', vals)
            ids = sym._ids.reshape(-1).tolist()
            for old in cur.get(key, []):
                st['roles'].pop(old, None)
            cur[key] = ids if batched else ids * n
            for i in ids:
                st['roles'][i] = key
                st['domc'][i] = [d.le(0, i), d.lt(i, 1)] if key == 'pinv' else [d.lt(0, i)]
            ver[key] += 1

        def replay_upto(i, **kw):
            return lambda vals: concrete_scenario(kind, K, mu, lead, bkeys, ops[:i + 1], vals, **kw)

        for i, op in enumerate(ops):
            if op[0] == 'U':
                assign(op[1])
                continue
            which = op[1]
            nden, ndom = len(t.denominators), len(t.domains)
            try:
                r = p = None
                for acc in which:
                    if acc == 'R':
                        r = site.rates()
                    else:
                        p = site.probabilities()
            except Exception as e:
                bad, detail = concrete_scenario(kind, K, mu, lead, bkeys, ops[:i + 1], {})
                mixed = bool(lead) and 0 < len(set(bkeys)) < len(keys)
                if bad and mixed:
                    # some parameters carry the sample axes and others do not: a shape combination the model does not
                    # support and that FAILS LOUDLY.  The property quantifies over admissible parameters and says
                    # nothing about shapes (C10: "fails with an error rather than returning a number" is the accepted
                    # outcome), so this is recorded, not reported.  A raise with consistent shapes stays a violation.
                    tr.notes.append(f'{label}: [{ops_str(ops[:i + 1])}] mixed batched / unbatched parameters raise '
                                    f'{type(e).__name__} (loud failure, accepted): {str(e)[:120]}')
                elif bad:
                    tr.violation(sig_of('raises', i), f'{label}: [{ops_str(ops[:i + 1])}] raises {type(e).__name__}: {e}; '
                                 f'on plain tensors: {detail}', {'label': label, 'ops': ops_str(ops[:i + 1])})
                else:
                    tr.inconc(f'{label}: [{ops_str(ops[:i + 1])}] symbolic run raised {type(e).__name__}: {e}, '
                              'the same ops on plain tensors do not')
                return False
            tr.regions += 1
            where = f'[{ops_str(ops[:i + 1])}]'
            for clause, b, node, detail in read_goals(d, kind, K, lead, bkeys, which, r, p, cur):
                if clause == 'shape':
                    tr.obligation(f'shape:{label}:{where}', nontrivial=False)
                    bad, cdetail = concrete_scenario(kind, K, mu, lead, bkeys, ops[:i + 1], {})
                    if bad:
                        tr.violation(sig_of('shape', i), f'{label}: {where} {detail}; on plain tensors: {cdetail}',
                                     {'label': label, 'ops': ops_str(ops[:i + 1])})
                    else:
                        tr.inconc(f'{label}: {where} {detail} in the symbolic run only')
                    return False
                if not prove_cached(tr, st, f'{where} sample {b}: {CLAUSES2[clause]}', node, sig_of(clause, i),
                                    replay_upto(i), label):
                    return False   # reported (violation / undecided): the other samples of this read add nothing
            # well-definedness of what this read computed
            obl = [d.not_(d.eq(x, 0)) for x in t.denominators[nden:]]
            obl += [d.lt(0, x) if k == 'pos' else d.le(0, x) for k, x in t.domains[ndom:]]
            for node in obl:
                if not prove_cached(tr, st, f'{where} {CLAUSES2["well-defined"]}: {d.to_str(node, 4)}', node,
                                    sig_of('well-defined', i), replay_upto(i, finite_only=True), label):
                    return False
        if t.pcs:
            tr.inconc(f'{label}: [{ops_str(ops)}] the run depends on {len(t.pcs)} data-dependent decision(s) '
                      f'({d.to_str(t.pcs[0], 4)}); only the region of the witness was decided')
            return False
        tr.witness_runs += 1
        tr.ops_checked += t.nchecked
        if state is not None:
            state['hits'] = state.get('hits', 0) + st['hits']
    return True


def concrete_read(kind, K, lead, bkeys, which, r, p, curv, tag, finite_only=False):
    """independent concrete oracle for one read on plain tensors; -> description of the failure or None"""
    ncat = exp_cat(kind, K)
    full = tuple(lead) + (ncat,)
    if 'R' in which:
        if not isinstance(r, torch.Tensor) or tuple(r.shape) != full:
            return f'{tag}rates() has shape {tuple(r.shape) if isinstance(r, torch.Tensor) else r}, expected {full}'
        r = r.detach().to(torch.float64)
    if 'P' in which:
        if not isinstance(p, torch.Tensor) or tuple(p.shape) not in allowed_prob_shapes(kind, K, lead, bkeys):
            return (f'{tag}probabilities() has shape {tuple(p.shape) if isinstance(p, torch.Tensor) else p}, '
                    f'expected {full}')
        p = p.detach().to(torch.float64).expand(full)
    if finite_only:
        for x in (r, p):
            if x is not None and not torch.isfinite(x).all():
                return f'{tag}non-finite values {x.tolist()}'
        return None
    one = torch.ones(tuple(lead), dtype=torch.float64)
    target = curv['mu'].squeeze(-1).expand(tuple(lead)) if 'mu' in curv else one
    pinv = curv['pinv'].squeeze(-1).expand(tuple(lead)) if 'pinv' in curv else None
    if which == 'R':
        if kind == 'constant':
            p = torch.ones(full, dtype=torch.float64)
        elif kind == 'invariant':
            p = torch.stack([pinv, 1 - pinv], -1)
        elif kind == 'weibull':
            p = torch.full(full, 1.0 / K, dtype=torch.float64)
        else:
            p = torch.stack([pinv] + [(1 - pinv) / K] * K, -1)
    if 'P' in which:
        if not torch.allclose(p.sum(-1), one, rtol=0, atol=1e-10):
            return f'{tag}probabilities {p.tolist()} do not sum to one'
        if (p < 0).any():
            return f'{tag}negative probability {p.tolist()}'
        if 'inv' in kind and not torch.allclose(p[..., 0], pinv, rtol=1e-9, atol=1e-12):
            return f'{tag}invariant class: probability {p[..., 0].tolist()} != current pinv {pinv.tolist()}'
    if 'R' in which:
        if (r < 0).any():
            return f'{tag}negative rate {r.tolist()}'
        if 'inv' in kind and (r[..., 0] != 0).any():
            return f'{tag}invariant class: rate {r[..., 0].tolist()} != 0'
        mean = (r * p).sum(-1)
        if not torch.allclose(mean, target, rtol=1e-9, atol=0):
            return (f'{tag}mean rate {mean.tolist()} != {target.tolist()} (rates={r.tolist()}, '
                    f'{"defining " if which == "R" else ""}probabilities={p.tolist()})')
    return None


def concrete_scenario(kind, K, mu, lead, bkeys, ops, vals, finite_only=False, last_only=True):
    """the same ops on plain tensors (values of the solver model, witness values where the model has none or leaves
    the domain); judged: the last read (last_only) or every read.  -> (True, what failed) | (False, 'agree')"""
    keys = param_keys(kind, mu)
    n = nrows_of(lead)
    try:
        site, dic = cm.build(model_json(kind, K, mu))
        ver = {k: 0 for k in keys}
        curv = {}
        last = max([i for i, o in enumerate(ops) if o[0] == 'read'], default=-1)
        for i, op in enumerate(ops):
            if op[0] == 'U':
                key = op[1]
                batched = key in bkeys
                m = n if batched else 1
                lo, hi = RANGE[key]
                row = []
                for b in range(m):
                    v = vals.get(var_name(key, ver[key], b, lead, batched))
                    if v is None or not (lo < v < hi):
                        v = wit2(key, ver[key], b, m)
                    row.append(v)
                tns = torch.tensor(row, dtype=torch.float64).reshape(tuple(lead) + (1,) if batched else (1,))
                dic[key].tensor = tns
                curv[key] = tns
                ver[key] += 1
                continue
            r = p = None
            for acc in op[1]:
                if acc == 'R':
                    r = site.rates()
                else:
                    p = site.probabilities()
            if i == last or not last_only:
                bad = concrete_read(kind, K, lead, bkeys, op[1], r, p, curv, f'[{ops_str(ops[:i + 1])}] ', finite_only)
                if bad:
                    return True, bad
    except Exception as e:
        return True, f'raises {type(e).__name__}: {e}'
    return False, 'agree'


# ---- extension 1: sample shapes with more than one leading dimension, every non-empty subset of batched parameters
def lead_shapes(tier, kind, K):
    ncat = exp_cat(kind, K)
    leads = [(2,), (3,), (2, 3), (3, 2), (2, 2, 3), (1,)]
    extra = [(K,), (K + 1,), (ncat,), (ncat + 1,)]
    if tier != 'quick':
        extra += [(ncat, ncat + 1), (ncat + 1, ncat), (1, ncat), (ncat, 1)]
    for e in extra:
        if e not in leads:
            leads.append(e)
    return leads


def run_shapes(task, tr):
    from torchtree.evolution import site_model as sm

    _, kind, K, mu, bkeys, leads = task
    keys = param_keys(kind, mu)
    tr.fn(sm.ConstantSiteModel.rates, sm.ConstantSiteModel.probabilities, sm.InvariantSiteModel.update_rates_probs,
          sm.UnivariateDiscretizedSiteModel.update_rates, sm.WeibullSiteModel.inverse_cdf)
    tr.bounds['sample shapes'] = (
        'parameters [*lead, 1] with lead in [2], [3], [2,3], [3,2], [2,2,3], [1], [K], [K+1], [ncat], [ncat+1] '
        '(thorough also [ncat,ncat+1], [ncat+1,ncat], [1,ncat], [ncat,1]); ncat = number of categories; for every model '
        '(Constant+mu, Invariant, Weibull, Weibull+Invariant, each with / without mu; Weibull K in 2,3 quick / 1..5 thorough) '
        'and every non-empty subset of its parameters carrying the leading axes (the others stay [1]); '
        'scenario: all parameters symbolic, rates() then probabilities(), all parameters replaced by fresh symbols, '
        'probabilities() then rates(); every clause on the LAST axis of every sample; concrete obligation: '
        'rates().shape == lead + (ncat,), probabilities().shape == lead + (ncat,) (the sample-independent form (ncat,) is '
        'accepted only when no batched parameter enters the probabilities, i.e. the invariant proportion is absent or not batched)')
    sub = '+'.join(bkeys)
    state = {}
    for lead in leads:
        label = f'shapes {kind} K={K} mu={mu} lead={list(lead)} batched={sub}'
        ops = [('U', k) for k in keys] + [('read', 'RP')] + [('U', k) for k in keys] + [('read', 'PR')]
        sym_scenario(tr, kind, K, mu, lead, bkeys, ops, label,
                     lambda clause, i: f'{kind}:batched=[{sub}]:{clause}', state)
        if len(tr.violations) >= MAX_VIOLATIONS_PER_TASK:
            tr.notes.append(f'{label}: stopped after {len(tr.violations)} reproduced violations')
            break
    tr.sample({'case': f'shapes {kind} K={K} mu={mu} batched={sub}', 'leads': [list(x) for x in leads],
               'obligations closed by renaming onto an already proved one': state.get('hits', 0)})


# ---- extension 2: op histories - all orders of updates between reads of one / the other / both accessors
def op_histories(keys, L, first):
    """first read (or none), then every sequence of exactly L ops over {U_k} + {R, P, RP, PR} (all shorter ones are
    prefixes and every read is judged); a sequence that ends with an update is closed by each of the four reads"""
    alphabet = [('U', k) for k in keys] + [('read', w) for w in READS]
    init = [('U', k) for k in keys] + ([('read', first)] if first else [])
    for seq in itertools.product(alphabet, repeat=L):
        if seq[-1][0] == 'read':
            yield init + list(seq)
        else:
            for w in READS:
                yield init + list(seq) + [('read', w)]


def ops_signature(kind, ops, clause, i):
    """stable across K / batching / position in the history: the updates since the previous read, in order, and the read"""
    j = i - 1
    ups = []
    while j >= 0 and ops[j][0] == 'U':
        ups.append(ops[j][1])
        j -= 1
    if clause == 'raises':
        return f'{kind}:ops:raises'
    fresh = j < 0
    return f'{kind}:ops:{clause}:{"fresh>" if fresh else ""}{">".join(reversed(ups))}|{ops[i][1]}'


def run_ops(task, tr):
    from torchtree.evolution import site_model as sm

    _, kind, K, mu, lead, L, first, part, nparts = task
    keys = param_keys(kind, mu)
    tr.fn(sm.SiteModel.handle_parameter_changed, sm.ConstantSiteModel.rates, sm.ConstantSiteModel.probabilities,
          sm.InvariantSiteModel.rates, sm.InvariantSiteModel.probabilities, sm.InvariantSiteModel.update_rates_probs,
          sm.UnivariateDiscretizedSiteModel.rates, sm.UnivariateDiscretizedSiteModel.probabilities,
          sm.UnivariateDiscretizedSiteModel.update_rates, sm.WeibullSiteModel.inverse_cdf)
    for cls in (sm.ConstantSiteModel, sm.InvariantSiteModel, sm.WeibullSiteModel):
        tr.fn(cls.handle_parameter_changed)
    tr.bounds['op histories'] = (
        'model built from JSON, every parameter replaced by symbols (order shape, pinv, mu), an optional first read '
        '(none / R / P / RP; thorough also PR), then EVERY sequence of L ops over {update shape, update pinv, update mu} + '
        '{R = rates() only, P = probabilities() only, RP, PR} (only the parameters the model has), L = 3 quick / 4 thorough; '
        'a sequence ending with an update is closed by each of the four reads - so all orders of updating 2 and 3 parameters '
        'between reads, with or without reads in between, are covered; an update assigns fresh symbols through '
        'Parameter.tensor; every read is decided against the clauses at the symbols current at that moment (rates() alone: '
        'rates >= 0, invariant rate == 0, mean under the defining probabilities (pinv, (1-pinv)/K, ...) at the current pinv '
        '== current mu; probabilities() alone: sum to one, >= 0, invariant class == current pinv); Weibull K=2 (thorough '
        'also K=3 at L=3); unbatched and (first read RP; thorough: every first read) batched [2,1]')
    tr.assumptions.add('op histories: for a read of rates() alone the mean rate is taken under the defining category '
                       'probabilities of the model (invariant class pinv, the K discretised classes (1-pinv)/K each) at the '
                       'current pinv')
    state = {}
    nh = 0
    tag = f'ops {kind} K={K} mu={mu} lead={list(lead)} first={first or "none"} L={L}'
    for idx, ops in enumerate(op_histories(keys, L, first)):
        if idx % nparts != part:
            continue
        nh += 1
        sym_scenario(tr, kind, K, mu, lead, tuple(keys) if lead else (), ops, tag,
                     lambda clause, i, ops=ops: ops_signature(kind, ops, clause, i), state)
        if len(tr.violations) >= MAX_VIOLATIONS_PER_TASK or len(tr.inconclusive) >= MAX_VIOLATIONS_PER_TASK:
            tr.notes.append(f'{tag}: stopped after {len(tr.violations)} reproduced violations / '
                            f'{len(tr.inconclusive)} undecided ({nh} histories run)')
            break
    tr.sample({'case': f'{tag} (part {part + 1} of {nparts})', 'histories': nh, 'example': ops_str(ops),
               'obligations closed by renaming onto an already proved one': state.get('hits', 0)})


def tasks_for(tier):
    ts = []
    Ks = [1, 2, 3, 4] if tier == 'quick' else [1, 2, 3, 4, 5, 6, 8, 16]
    for mu in (False, True):
        for batched in (False, True):
            if mu or not batched:
                ts.append(('constant', 1, mu, batched))
            ts.append(('invariant', 1, mu, batched))
            for K in Ks:
                ts.append(('weibull', K, mu, batched))
                ts.append(('weibull+inv', K, mu, batched))
    # histories of partial parameter updates
    variants = ['rp', 'pr'] if tier == 'quick' else ['rp', 'pr', 'alt', 'perm']
    for variant in variants:
        # the cache logic does not depend on the category count: the long chains run at K=2 only
        hK = [2] if tier == 'quick' or variant in ('alt', 'perm') else [1, 2, 3, 5]
        for batched in (False, True):
            for mu in (False, True):
                if mu:
                    ts.append(('hist', 'constant', 1, True, batched, variant))
                ts.append(('hist', 'invariant', 1, mu, batched, variant))
                for K in hK:
                    ts.append(('hist', 'weibull', K, mu, batched, variant))
                    ts.append(('hist', 'weibull+inv', K, mu, batched, variant))
    # sample shapes: every model x every non-empty subset of batched parameters (one task runs all leading shapes)
    sK = [2, 3] if tier == 'quick' else [1, 2, 3, 4, 5]
    for mu in (False, True):
        models = [('invariant', 1)] + [(k, K) for K in sK for k in ('weibull', 'weibull+inv')]
        if mu:
            models.insert(0, ('constant', 1))
        for kind, K in models:
            ks = param_keys(kind, mu)
            for n in range(1, len(ks) + 1):
                for S in itertools.combinations(ks, n):
                    ts.append(('shapes', kind, K, mu, S, lead_shapes(tier, kind, K)))
    # op histories (a task runs every nparts-th history of its family)
    L = 3 if tier == 'quick' else 4
    firsts = [None, 'R', 'P', 'RP'] if tier == 'quick' else [None, 'R', 'P', 'RP', 'PR']

    def ops_tasks(kind, K, mu, lead, L, first):
        n = len(param_keys(kind, mu))
        nh = (n + 4) ** (L - 1) * (4 + 4 * n)
        nparts = max(1, round(nh * (2 if lead else 1) / (250 if tier == 'quick' else 1500)))
        return [('ops', kind, K, mu, lead, L, first, i, nparts) for i in range(nparts)]

    for mu in (False, True):
        models = [('invariant', 1), ('weibull', 2), ('weibull+inv', 2)]
        if mu:
            models.insert(0, ('constant', 1))
        for kind, K in models:
            for first in firsts:
                ts += ops_tasks(kind, K, mu, (), L, first)
            for first in (['RP'] if tier == 'quick' else firsts):
                ts += ops_tasks(kind, K, mu, (2,), L, first)
            if tier != 'quick' and kind.startswith('weibull'):
                ts += ops_tasks(kind, 3, mu, (), 3, 'RP')

    # the heaviest tasks first (the pool hands tasks out in order)
    def cost(x):
        if x[0] == 'ops':
            return 2.0
        if x[0] == 'shapes':
            return 0.5
        if x[0] == 'hist':
            return 3.0 * (2 if x[4] else 1)
        kind, K, mu, batched = x
        return 0.3 * K * K * (2 if batched else 1) * (1.5 if 'inv' in kind else 1)

    ts.sort(key=lambda x: -cost(x))
    return ts


def body(chk):
    chk.explanation = ('symbolic execution of the real site-model code on symbolic shape / invariant proportion / mu; '
                       'the normalisation identities are rational identities in the uninterpreted pow(q_k, 1/shape) '
                       'atoms and are decided by the solver for all admissible parameter values; the same clauses are '
                       'decided again after every partial update (each non-empty subset of shape / pinv / mu replaced by '
                       'fresh symbols) along chains of updates, for both accessor orders, so that a cache which one '
                       'parameter fails to invalidate is a solver counterexample (stale mu != current mu). '
                       'Sample shapes: parameters carry one, two or three leading axes (sizes colliding with the number of '
                       'categories), every non-empty subset of them batched; the clauses are decided per sample on the last '
                       'axis and the result shapes are a concrete obligation. Op histories: every sequence of 3 (thorough 4) '
                       'ops over {update one parameter, rates() only, probabilities() only, both in either order} after an '
                       'optional first read, every read decided at the current symbols. In these two families an obligation '
                       'whose goal and hypotheses coincide, after renaming the current symbols of the sample to their role '
                       '(shape / pinv / mu) and up to the operand order of + * and or =, with one the solver already proved '
                       'is closed by that proof (the per-sample and per-history obligations of a correct implementation are '
                       'instances of a handful of formulas); anything else - a stale or foreign symbol in particular - goes '
                       'to the solver')
    chk.total.assumptions |= {'pow(base, 1/shape) with constant positive base is uninterpreted, constrained by pow > 0'}
    CACHE_DIR[0] = tempfile.mkdtemp(prefix='c05_proved_')
    try:
        pmap(run_task, tasks_for(chk.tier), chk.total)
    finally:
        shutil.rmtree(CACHE_DIR[0], ignore_errors=True)


if __name__ == '__main__':
    if '--replay' in sys.argv:
        import json

        r = json.load(open(sys.argv[sys.argv.index('--replay') + 1]))
        print('replay:', r['what'])
        sys.exit(1)
    sys.exit(main_for(PID, body))
