"""C05 Among-site rate models keep the mean substitution rate at one.

Constant / Invariant / Weibull(K) / Weibull(K)+invariant site models are built
from JSON, their parameters replaced by symbols (single and batched), and the
real rates()/probabilities() code is executed.  The solver proves, for all
shape > 0, pinv in [0,1), mu > 0: probabilities sum to one and are >= 0, rates
>= 0, the invariant class has rate exactly 0 and probability pinv, and the
probability-weighted mean rate equals mu (or 1).

Histories ('hist' tasks): after the first evaluation every non-empty SUBSET of
the model's parameters (shape / pinv / mu) is replaced by fresh symbols, one
subset after the other, and after each partial update the clauses are proved
again on what rates() / probabilities() return then - with the new symbols for
the updated parameters and the current ones for the untouched parameters - for
both accessor orders (a cache that is not invalidated by one particular
parameter, or that is refreshed by only one accessor, breaks "mean rate == the
supplied mu" / "probability of the invariant class == pinv").
"""
from __future__ import annotations

import itertools
import sys

import torch

import common as cm
from symtorch import SymTensor, tracing
from symtorch.axioms import ground_axioms
from vlib.core import main_for, pmap

PID = 'C05'


def model_json(kind, K, mu):
    js = {'id': 'site', 'type': 'ConstantSiteModel'}
    if kind == 'invariant':
        js = {'id': 'site', 'type': 'InvariantSiteModel', 'invariant': {'id': 'pinv', 'type': 'Parameter', 'tensor': [0.2]}}
    elif kind == 'weibull':
        js = {'id': 'site', 'type': 'WeibullSiteModel', 'categories': K,
              'shape': {'id': 'shape', 'type': 'Parameter', 'tensor': [0.7]}}
    elif kind == 'weibull+inv':
        js = {'id': 'site', 'type': 'WeibullSiteModel', 'categories': K,
              'shape': {'id': 'shape', 'type': 'Parameter', 'tensor': [0.7]},
              'invariant': {'id': 'pinv', 'type': 'Parameter', 'tensor': [0.2]}}
    if mu:
        js['mu'] = {'id': 'mu', 'type': 'Parameter', 'tensor': [1.3]}
    return js


def ids_of_any(d, x):
    if isinstance(x, SymTensor):
        return x._ids
    flat = [d.const(float(v)) for v in x.reshape(-1).tolist()]
    return torch.tensor(flat, dtype=torch.int64).reshape(x.shape)


def run_task(task, tr):
    from torchtree.evolution import site_model as sm

    if task[0] == 'hist':
        return run_hist(task, tr)
    kind, K, mu, batched = task
    label = f'{kind} K={K} mu={mu} batched={batched}'
    tr.fn(sm.ConstantSiteModel.rates, sm.InvariantSiteModel.update_rates_probs,
          sm.UnivariateDiscretizedSiteModel.update_rates, sm.WeibullSiteModel.inverse_cdf)
    tr.bounds['categories'] = 'K in 1..4 (quick) / 1..6,8,16 (thorough); shapes [] and [2]; every combination with invariant / mu'
    B = 2 if batched else 1
    with tracing() as t:
        d = t.dag
        site, dic = cm.build(model_json(kind, K, mu))
        V = {}

        def sym(key, prefix, base):
            if key in dic:
                vals = torch.tensor([[base + 0.17 * b] for b in range(B)] if batched else [base], dtype=torch.float64)
                st = cm.symbolize(dic[key], prefix, vals)
                for i in st._ids.reshape(-1).tolist():
                    V[d.args[i][0]] = i
                return st
            return None

        shape = sym('shape', 'shape', 0.7)
        pinv = sym('pinv', 'pinv', 0.2)
        mus = sym('mu', 'mu', 1.3)
        dom = []
        for name, i in V.items():
            if name.startswith(('shape', 'mu')):
                dom.append(d.lt(0, i))
            if name.startswith('pinv'):
                dom += [d.le(0, i), d.lt(i, 1)]
        goals = []

        def obligations(tag, rates, probs):
            ri = ids_of_any(d, rates)
            pi = ids_of_any(d, probs)
            ncat = ri.shape[-1]
            exp_cat = {'constant': 1, 'invariant': 2, 'weibull': K, 'weibull+inv': K + 1}[kind]
            if ncat != exp_cat or pi.shape[-1] != exp_cat:
                goals.append((tag + 'number of categories', d.FALSE))
                return
            rrows = ri.reshape(-1, ncat).tolist()
            prows = pi.reshape(-1, ncat).tolist()
            if len(prows) == 1 and len(rrows) > 1:
                prows = prows * len(rrows)
            if len(rrows) == 1 and len(prows) > 1:
                rrows = rrows * len(prows)
            if batched and len(rrows) != B:
                goals.append((tag + 'one row of rates per sample', d.FALSE))
                return
            for b, (rr, pp) in enumerate(zip(rrows, prows)):
                sfx = f'[{b},0]' if batched else '[0]'
                s = 0
                m = 0
                for r, p in zip(rr, pp):
                    s = d.add(s, p)
                    m = d.add(m, d.mul(p, r))
                target = V['mu' + sfx] if mus is not None else 1
                goals.append((f'{tag}sample {b}: probabilities sum to one', d.eq(s, 1)))
                goals.append((f'{tag}sample {b}: probabilities and rates non-negative',
                              d.and_(*([d.le(0, p) for p in pp] + [d.le(0, r) for r in rr]))))
                goals.append((f'{tag}sample {b}: weighted mean rate == ' + ('mu' if mus is not None else '1'), d.eq(m, target)))
                if 'inv' in kind:
                    goals.append((f'{tag}sample {b}: invariant class has rate exactly 0 and probability pinv',
                                  d.and_(d.bconst(rr[0] == 0), d.eq(pp[0], V['pinv' + sfx]))))

        try:
            obligations('', site.rates(), site.probabilities())
            # after an update of every parameter the model must reflect the new values (no stale cache)
            V_old = dict(V)
            if shape is not None or pinv is not None or mus is not None:
                V.clear()
                shape = sym('shape', 'shape2_', 0.9)
                pinv = sym('pinv', 'pinv2_', 0.35)
                mus = sym('mu', 'mu2_', 0.8)
                # rename lookups
                V.update({k.replace('shape2_', 'shape').replace('pinv2_', 'pinv').replace('mu2_', 'mu'): v for k, v in list(V.items())})
                for name, i in list(V.items()):
                    if name.startswith(('shape', 'mu')):
                        dom.append(d.lt(0, i))
                    if name.startswith('pinv'):
                        dom += [d.le(0, i), d.lt(i, 1)]
                # after the update probabilities() is asked FIRST (a flag cleared by one accessor must not leave the other stale)
                probs_first = site.probabilities()
                obligations('after update: ', site.rates(), probs_first)
        except Exception as e:
            tr.violation(f'{kind}:raises', f'{label}: raises {type(e).__name__}: {e}', {'label': label})
            return
        tr.witness_runs += 1
        tr.ops_checked += t.nchecked
        tr.regions += 1
        allv = {d.args[i][0]: i for i in d.topo([g[1] for g in goals]) if d.ops[i] == 'var'}
        tr.sample({'case': label, 'goals': [g[0] for g in goals][:6], 'rate0': d.to_str(int(ids_of_any(d, site.rates()).reshape(-1)[-1]), 5)})
        ax = ground_axioms(d, [g[1] for g in goals])

        def replay(vals):
            return replay_case(kind, K, mu, batched, vals)

        cm.discharge(tr, d, dom + ax + list(t.pcs), goals, label, replay=replay, timeout=40.0, varnodes=allv,
                     sig_prefix=f'{kind}:')


def concrete_check(kind, K, tag, r, p, pv, m):
    """independent concrete oracle for one (rates, probabilities) pair; returns a description or None"""
    exp_cat = {'constant': 1, 'invariant': 2, 'weibull': K, 'weibull+inv': K + 1}[kind]
    if r is None or p is None:
        return f'{tag}rates/probabilities not available: {r} {p}'
    if r.shape[-1] != exp_cat or p.shape[-1] != exp_cat:
        return f'{tag}number of categories: rates {tuple(r.shape)} probabilities {tuple(p.shape)}, expected {exp_cat}'
    r = r.to(torch.float64)
    p = p.to(torch.float64)
    target = m.reshape(-1) if m is not None else torch.ones(1, dtype=torch.float64)
    mean = (r * p).sum(-1).reshape(-1)
    if target.numel() not in (1, mean.numel()) and mean.numel() != 1:
        return f'{tag}{mean.numel()} rows of rates for {target.numel()} samples'
    if not torch.allclose(p.sum(-1), torch.ones_like(p.sum(-1)), atol=1e-10):
        return f'{tag}probabilities {p.tolist()} do not sum to one'
    if (p < 0).any() or (r < 0).any():
        return f'{tag}negative rate/probability: rates={r.tolist()} probs={p.tolist()}'
    if mean.numel() == 1 and target.numel() > 1:
        mean = mean.expand_as(target)
    if not torch.allclose(mean, target.expand_as(mean), rtol=1e-9):
        return f'{tag}mean rate {mean.tolist()} != {target.tolist()} (rates={r.tolist()}, probs={p.tolist()})'
    if 'inv' in kind:
        p0 = p[..., 0].reshape(-1)
        if p0.numel() == 1 and pv.numel() > 1:
            p0 = p0.expand(pv.numel())
        if (r[..., 0] != 0).any() or not torch.allclose(p0, pv.reshape(-1).expand_as(p0)):
            return f'{tag}invariant class: rate {r[..., 0].tolist()} prob {p[..., 0].tolist()} pinv {pv.tolist()}'
    return None


def replay_case(kind, K, mu, batched, vals):
    """the same history on plain tensors: evaluate, update every parameter, probabilities() first, then rates()"""
    site, dic = cm.build(model_json(kind, K, mu))
    B = 2 if batched else 1

    def setp(key, pre, default, lo, hi):
        if key not in dic:
            return None
        rows = []
        for b in range(B):
            nm = f'{pre}[{b},0]' if batched else f'{pre}[0]'
            v = vals.get(nm, default)
            if not (lo < v < hi):
                v = default
            rows.append([v] if batched else v)
        tns = torch.tensor(rows if batched else [rows[0]], dtype=torch.float64)
        dic[key].tensor = tns
        return tns

    def check(tag, r, p, pv, m):
        return concrete_check(kind, K, tag, r, p, pv, m)

    try:
        setp('shape', 'shape', 0.7, 0, 1e9)
        pv = setp('pinv', 'pinv', 0.2, -1e-12, 1)
        m = setp('mu', 'mu', 1.3, 0, 1e9)
        bad = check('', site.rates(), site.probabilities(), pv, m)
        if bad:
            return True, bad
        setp('shape', 'shape2_', 0.9, 0, 1e9)
        pv = setp('pinv', 'pinv2_', 0.35, -1e-12, 1)
        m = setp('mu', 'mu2_', 0.8, 0, 1e9)
        probs = site.probabilities()
        bad = check('after update (probabilities() asked first): ', site.rates(), probs, pv, m)
        if bad:
            return True, bad
    except Exception as e:
        return True, f'raises {type(e).__name__}: {e}'
    return False, 'agree'


# ------------------------------------------------------------------ histories of partial updates
WIT = {'shape': (0.7, 0.05, 0.17), 'pinv': (0.2, 0.03, 0.1), 'mu': (1.3, 0.07, 0.17)}
RANGE = {'shape': (0, 1e9), 'pinv': (-1e-12, 1), 'mu': (0, 1e9)}
CLAUSES = {'sum': 'probabilities sum to one', 'nonneg': 'probabilities and rates non-negative',
           'mean': 'weighted mean rate == the current mu (or 1)',
           'invclass': 'invariant class has rate exactly 0 and probability equal to the current pinv',
           'ncat': 'number of categories', 'rows': 'one row of rates per sample'}


def param_keys(kind, mu):
    ks = []
    if kind.startswith('weibull'):
        ks.append('shape')
    if 'inv' in kind:
        ks.append('pinv')
    if mu:
        ks.append('mu')
    return ks


def witness_val(key, s, b):
    base, per_step, per_row = WIT[key]
    return base + per_step * s + per_row * b


def hist_plan(kind, mu, variant):
    """-> (order of the first read, [(parameters assigned, in this order, before the read ; accessor order of the read)])
    accessor order 'rp' = rates() then probabilities(), 'pr' = probabilities() then rates()"""
    ks = param_keys(kind, mu)
    subsets = [c for n in range(1, len(ks) + 1) for c in itertools.combinations(ks, n)]
    if variant in ('rp', 'pr'):
        # every non-empty subset, canonical assignment order, always the same accessor order
        return variant, [(S, variant) for S in subsets]
    if variant == 'alt':
        # subsets in reverse, assigned in reverse order, accessor order alternating (starts with the other one),
        # then every single parameter once more (a second update of the same parameter)
        steps = [(tuple(reversed(S)), 'pr' if i % 2 == 0 else 'rp') for i, S in enumerate(reversed(subsets))]
        steps += [((k,), 'rp' if i % 2 == 0 else 'pr') for i, k in enumerate(ks)]
        return 'rp', steps
    if variant == 'perm':
        # every assignment order of every subset with >= 2 parameters; singles twice in a row
        steps = []
        i = 0
        for S in subsets:
            perms = list(itertools.permutations(S)) if len(S) > 1 else [S, S]
            for P in perms:
                steps.append((P, 'rp' if i % 2 == 0 else 'pr'))
                i += 1
        return 'pr', steps
    raise ValueError(variant)


def read_pair(site, order):
    if order == 'rp':
        r = site.rates()
        p = site.probabilities()
    else:
        p = site.probabilities()
        r = site.rates()
    return r, p


def clause_goals(d, kind, K, B, batched, rates, probs, cur):
    """[(clause key, row, bool node)] for one (rates, probabilities) pair; cur[key] = node ids of the current
    parameter values (one per row)"""
    if not isinstance(rates, torch.Tensor) or not isinstance(probs, torch.Tensor):
        return [('ncat', 0, d.FALSE)]
    ri = ids_of_any(d, rates)
    pi = ids_of_any(d, probs)
    ncat = ri.shape[-1] if ri.dim() else 0
    exp_cat = {'constant': 1, 'invariant': 2, 'weibull': K, 'weibull+inv': K + 1}[kind]
    if ncat != exp_cat or pi.dim() == 0 or pi.shape[-1] != exp_cat:
        return [('ncat', 0, d.FALSE)]
    rrows = ri.reshape(-1, ncat).tolist()
    prows = pi.reshape(-1, ncat).tolist()
    if len(prows) == 1 and len(rrows) > 1:
        prows = prows * len(rrows)
    if len(rrows) == 1 and len(prows) > 1:
        rrows = rrows * len(prows)
    if (batched and len(rrows) != B) or len(rrows) != len(prows):
        return [('rows', 0, d.FALSE)]
    out = []
    for b, (rr, pp) in enumerate(zip(rrows, prows)):
        s = 0
        m = 0
        for r, p in zip(rr, pp):
            s = d.add(s, p)
            m = d.add(m, d.mul(p, r))
        out.append(('sum', b, d.eq(s, 1)))
        out.append(('nonneg', b, d.and_(*([d.le(0, p) for p in pp] + [d.le(0, r) for r in rr]))))
        out.append(('mean', b, d.eq(m, cur['mu'][b] if 'mu' in cur else 1)))
        if 'inv' in kind:
            out.append(('invclass', b, d.and_(d.eq(rr[0], 0), d.eq(pp[0], cur['pinv'][b]))))
    return out


def run_hist(task, tr):
    from torchtree.evolution import site_model as sm

    _, kind, K, mu, batched, variant = task
    label = f'history[{variant}] {kind} K={K} mu={mu} batched={batched}'
    tr.fn(sm.SiteModel.handle_parameter_changed, sm.ConstantSiteModel.rates, sm.ConstantSiteModel.probabilities,
          sm.InvariantSiteModel.rates, sm.InvariantSiteModel.probabilities, sm.InvariantSiteModel.update_rates_probs,
          sm.UnivariateDiscretizedSiteModel.rates, sm.UnivariateDiscretizedSiteModel.probabilities,
          sm.UnivariateDiscretizedSiteModel.update_rates, sm.WeibullSiteModel.inverse_cdf)
    # a subclass may override the listener: record what the models under test really run
    for cls in (sm.ConstantSiteModel, sm.InvariantSiteModel, sm.WeibullSiteModel):
        tr.fn(cls.handle_parameter_changed)
    tr.bounds['histories'] = (
        'first evaluation, then a chain of partial updates: every non-empty subset of the model\'s parameters '
        '{shape, pinv, mu} is replaced by fresh symbols through Parameter.tensor (one subset per step, <= 7 steps '
        'quick), the clauses are proved after every step for the values then current; accessor orders '
        'rates()->probabilities() and probabilities()->rates(); single and batched [2,1] parameters (all of one kind); '
        'quick: Weibull K=2, chains rp / pr; thorough: chains rp / pr for K in 1,2,3,5 and, at K=2, chains alt (reverse '
        'subsets, reverse assignment order, alternating accessor order, repeated single updates) / perm (all assignment '
        'orders of each subset, every single update twice in a row). '
        'Each step starts from the state the previous step left (both accessors called); histories in which a '
        'parameter changes without a change event (in-place edits of .tensor) and to()/cpu()/cuda() are not covered')
    tr.assumptions.add('histories: a parameter is updated by assigning Parameter.tensor (the public setter, which fires the '
                       'change event the site model listens to); new values are fresh symbols in the admissible domain, '
                       'unrelated to the previous ones')
    B = 2 if batched else 1
    first, steps = hist_plan(kind, mu, variant)
    keys = param_keys(kind, mu)
    with tracing() as t:
        d = t.dag
        site, dic = cm.build(model_json(kind, K, mu))
        allv = {}   # every history variable: name -> node
        cur = {}    # key -> node ids of the current value (one per row)
        dom = []

        def assign(key, s):
            vals = torch.tensor([[witness_val(key, s, b)] for b in range(B)] if batched else [witness_val(key, s, 0)],
                                dtype=torch.float64)
            st = cm.symbolize(dic[key], f'{key}_h{s}', vals)
            ids = st._ids.reshape(-1).tolist()
            cur[key] = ids
            for i in ids:
                allv[d.args[i][0]] = i
                if key == 'pinv':
                    dom.extend([d.le(0, i), d.lt(i, 1)])
                else:
                    dom.append(d.lt(0, i))

        def decide(s, S, order, r, p):
            what = 'first evaluation' if s == 0 else 'after update of ' + '+'.join(S)
            cg = clause_goals(d, kind, K, B, batched, r, p, cur)
            goals = []
            for clause, b, node in cg:
                sig = f'{kind}:history:{"fresh" if s == 0 else "update[" + "+".join(sorted(S)) + "]"}:{clause}'
                goals.append((f'step {s} ({what}; read {order}) sample {b}: {CLAUSES[clause]}', node, [], sig))
            ax = ground_axioms(d, [g[1] for g in goals])
            vn = dict(allv)

            def replay(vals, s=s):
                return replay_hist(kind, K, mu, batched, variant, vals, upto=s)

            cm.discharge(tr, d, dom + ax + list(t.pcs), goals, label, replay=replay, timeout=40.0, varnodes=vn,
                         sig_prefix=f'{kind}:history:', defined=False)
            return [g[0] for g in goals]

        try:
            for k in keys:
                assign(k, 0)
            r, p = read_pair(site, first)
            shown = decide(0, (), first, r, p)
            for s, (S, order) in enumerate(steps, start=1):
                for k in S:
                    assign(k, s)
                r, p = read_pair(site, order)
                decide(s, S, order, r, p)
                tr.regions += 1
        except Exception as e:
            ok, detail = replay_hist(kind, K, mu, batched, variant, {}, upto=None)
            if ok:
                tr.violation(f'{kind}:history:raises', f'{label}: raises {type(e).__name__}: {e}; concrete: {detail}',
                             {'label': label})
            else:
                tr.inconc(f'{label}: symbolic run raised {type(e).__name__}: {e}, the concrete history does not')
            return
        tr.witness_runs += 1
        tr.ops_checked += t.nchecked
        tr.sample({'case': label, 'steps': [['+'.join(S), o] for S, o in steps], 'goals first read': shown[:4]})
        # well-definedness of everything the chain computed (denominators 1-pinv, the normalising mean, 1/shape)
        cm.discharge(tr, d, dom + ground_axioms(d, list(t.denominators)) + list(t.pcs), [], label,
                     replay=lambda vals: replay_hist(kind, K, mu, batched, variant, vals, upto=None, finite_only=True),
                     timeout=40.0, varnodes=dict(allv), sig_prefix=f'{kind}:history:', defined=True)


def replay_hist(kind, K, mu, batched, variant, vals, upto=None, finite_only=False):
    """the same chain on plain tensors; upto=s: only the read of step s is judged (None: every read)"""
    B = 2 if batched else 1
    first, steps = hist_plan(kind, mu, variant)
    keys = param_keys(kind, mu)
    curv = {}

    def assign(dic, key, s):
        rows = []
        lo, hi = RANGE[key]
        for b in range(B):
            nm = f'{key}_h{s}[{b},0]' if batched else f'{key}_h{s}[0]'
            v = vals.get(nm, None)
            if v is None or not (lo < v < hi):
                v = witness_val(key, s, b)
            rows.append([v] if batched else v)
        tns = torch.tensor(rows, dtype=torch.float64)
        dic[key].tensor = tns
        curv[key] = tns

    def judge(s, S, order, r, p):
        if finite_only:
            if not (torch.isfinite(r).all() and torch.isfinite(p).all()):
                return f'step {s}: non-finite rates/probabilities {r.tolist()} {p.tolist()}'
            return None
        tag = f'step {s} ({"first evaluation" if s == 0 else "after update of " + "+".join(S)}; read {order}): '
        return concrete_check(kind, K, tag, r, p, curv.get('pinv'), curv.get('mu'))

    try:
        site, dic = cm.build(model_json(kind, K, mu))
        for k in keys:
            assign(dic, k, 0)
        r, p = read_pair(site, first)
        if upto in (None, 0):
            bad = judge(0, (), first, r, p)
            if bad:
                return True, bad
        for s, (S, order) in enumerate(steps, start=1):
            if upto is not None and s > upto:
                break
            for k in S:
                assign(dic, k, s)
            r, p = read_pair(site, order)
            if upto in (None, s):
                bad = judge(s, S, order, r, p)
                if bad:
                    return True, bad
    except Exception as e:
        return True, f'raises {type(e).__name__}: {e}'
    return False, 'agree'


def tasks_for(tier):
    ts = []
    Ks = [1, 2, 3, 4] if tier == 'quick' else [1, 2, 3, 4, 5, 6, 8, 16]
    for mu in (False, True):
        for batched in (False, True):
            if mu or not batched:
                ts.append(('constant', 1, mu, batched))
            ts.append(('invariant', 1, mu, batched))
            for K in Ks:
                ts.append(('weibull', K, mu, batched))
                ts.append(('weibull+inv', K, mu, batched))
    # histories of partial parameter updates
    variants = ['rp', 'pr'] if tier == 'quick' else ['rp', 'pr', 'alt', 'perm']
    for variant in variants:
        # the cache logic does not depend on the category count: the long chains run at K=2 only
        hK = [2] if tier == 'quick' or variant in ('alt', 'perm') else [1, 2, 3, 5]
        for batched in (False, True):
            for mu in (False, True):
                if mu:
                    ts.append(('hist', 'constant', 1, True, batched, variant))
                ts.append(('hist', 'invariant', 1, mu, batched, variant))
                for K in hK:
                    ts.append(('hist', 'weibull', K, mu, batched, variant))
                    ts.append(('hist', 'weibull+inv', K, mu, batched, variant))
    return ts


def body(chk):
    chk.explanation = ('symbolic execution of the real site-model code on symbolic shape / invariant proportion / mu; '
                       'the normalisation identities are rational identities in the uninterpreted pow(q_k, 1/shape) '
                       'atoms and are decided by the solver for all admissible parameter values; the same clauses are '
                       'decided again after every partial update (each non-empty subset of shape / pinv / mu replaced by '
                       'fresh symbols) along chains of updates, for both accessor orders, so that a cache which one '
                       'parameter fails to invalidate is a solver counterexample (stale mu != current mu)')
    chk.total.assumptions |= {'pow(base, 1/shape) with constant positive base is uninterpreted, constrained by pow > 0'}
    pmap(run_task, tasks_for(chk.tier), chk.total)


if __name__ == '__main__':
    if '--replay' in sys.argv:
        import json

        r = json.load(open(sys.argv[sys.argv.index('--replay') + 1]))
        print('replay:', r['what'])
        sys.exit(1)
    sys.exit(main_for(PID, body))
