"""C05 Among-site rate models keep the mean substitution rate at one.

Constant / Invariant / Weibull(K) / Weibull(K)+invariant site models are built
from JSON, their parameters replaced by symbols (single and batched), and the
real rates()/probabilities() code is executed.  The solver proves, for all
shape > 0, pinv in [0,1), mu > 0: probabilities sum to one and are >= 0, rates
>= 0, the invariant class has rate exactly 0 and probability pinv, and the
probability-weighted mean rate equals mu (or 1).
"""
from __future__ import annotations

import sys

import torch

import common as cm
from symtorch import SymTensor, tracing
from symtorch.axioms import ground_axioms
from vlib.core import main_for, pmap

PID = 'C05'


def model_json(kind, K, mu):
    js = {'id': 'site', 'type': 'ConstantSiteModel'}
    if kind == 'invariant':
        js = {'id': 'site', 'type': 'InvariantSiteModel', 'invariant': {'id': 'pinv', 'type': 'Parameter', 'tensor': [0.2]}}
    elif kind == 'weibull':
        js = {'id': 'site', 'type': 'WeibullSiteModel', 'categories': K,
              'shape': {'id': 'shape', 'type': 'Parameter', 'tensor': [0.7]}}
    elif kind == 'weibull+inv':
        js = {'id': 'site', 'type': 'WeibullSiteModel', 'categories': K,
              'shape': {'id': 'shape', 'type': 'Parameter', 'tensor': [0.7]},
              'invariant': {'id': 'pinv', 'type': 'Parameter', 'tensor': [0.2]}}
    if mu:
        js['mu'] = {'id': 'mu', 'type': 'Parameter', 'tensor': [1.3]}
    return js


def ids_of_any(d, x):
    if isinstance(x, SymTensor):
        return x._ids
    flat = [d.const(float(v)) for v in x.reshape(-1).tolist()]
    return torch.tensor(flat, dtype=torch.int64).reshape(x.shape)


def run_task(task, tr):
    from torchtree.evolution import site_model as sm

    kind, K, mu, batched = task
    label = f'{kind} K={K} mu={mu} batched={batched}'
    tr.fn(sm.ConstantSiteModel.rates, sm.InvariantSiteModel.update_rates_probs,
          sm.UnivariateDiscretizedSiteModel.update_rates, sm.WeibullSiteModel.inverse_cdf)
    tr.bounds['categories'] = 'K in 1..6 (quick) / 1..6,8,16 (thorough); shapes [] and [2]; every combination with invariant / mu'
    B = 2 if batched else 1
    with tracing() as t:
        d = t.dag
        site, dic = cm.build(model_json(kind, K, mu))
        V = {}

        def sym(key, prefix, base):
            if key in dic:
                vals = torch.tensor([[base + 0.17 * b] for b in range(B)] if batched else [base], dtype=torch.float64)
                st = cm.symbolize(dic[key], prefix, vals)
                for i in st._ids.reshape(-1).tolist():
                    V[d.args[i][0]] = i
                return st
            return None

        shape = sym('shape', 'shape', 0.7)
        pinv = sym('pinv', 'pinv', 0.2)
        mus = sym('mu', 'mu', 1.3)
        dom = []
        for name, i in V.items():
            if name.startswith(('shape', 'mu')):
                dom.append(d.lt(0, i))
            if name.startswith('pinv'):
                dom += [d.le(0, i), d.lt(i, 1)]
        goals = []

        def obligations(tag, rates, probs):
            ri = ids_of_any(d, rates)
            pi = ids_of_any(d, probs)
            ncat = ri.shape[-1]
            exp_cat = {'constant': 1, 'invariant': 2, 'weibull': K, 'weibull+inv': K + 1}[kind]
            if ncat != exp_cat or pi.shape[-1] != exp_cat:
                goals.append((tag + 'number of categories', d.FALSE))
                return
            rrows = ri.reshape(-1, ncat).tolist()
            prows = pi.reshape(-1, ncat).tolist()
            if len(prows) == 1 and len(rrows) > 1:
                prows = prows * len(rrows)
            if len(rrows) == 1 and len(prows) > 1:
                rrows = rrows * len(prows)
            if batched and len(rrows) != B:
                goals.append((tag + 'one row of rates per sample', d.FALSE))
                return
            for b, (rr, pp) in enumerate(zip(rrows, prows)):
                sfx = f'[{b},0]' if batched else '[0]'
                s = 0
                m = 0
                for r, p in zip(rr, pp):
                    s = d.add(s, p)
                    m = d.add(m, d.mul(p, r))
                target = V['mu' + sfx] if mus is not None else 1
                goals.append((f'{tag}sample {b}: probabilities sum to one', d.eq(s, 1)))
                goals.append((f'{tag}sample {b}: probabilities and rates non-negative',
                              d.and_(*([d.le(0, p) for p in pp] + [d.le(0, r) for r in rr]))))
                goals.append((f'{tag}sample {b}: weighted mean rate == ' + ('mu' if mus is not None else '1'), d.eq(m, target)))
                if 'inv' in kind:
                    goals.append((f'{tag}sample {b}: invariant class has rate exactly 0 and probability pinv',
                                  d.and_(d.bconst(rr[0] == 0), d.eq(pp[0], V['pinv' + sfx]))))

        try:
            obligations('', site.rates(), site.probabilities())
            # after an update of every parameter the model must reflect the new values (no stale cache)
            V_old = dict(V)
            if shape is not None or pinv is not None or mus is not None:
                V.clear()
                shape = sym('shape', 'shape2_', 0.9)
                pinv = sym('pinv', 'pinv2_', 0.35)
                mus = sym('mu', 'mu2_', 0.8)
                # rename lookups
                V.update({k.replace('shape2_', 'shape').replace('pinv2_', 'pinv').replace('mu2_', 'mu'): v for k, v in list(V.items())})
                for name, i in list(V.items()):
                    if name.startswith(('shape', 'mu')):
                        dom.append(d.lt(0, i))
                    if name.startswith('pinv'):
                        dom += [d.le(0, i), d.lt(i, 1)]
                # after the update probabilities() is asked FIRST (a flag cleared by one accessor must not leave the other stale)
                probs_first = site.probabilities()
                obligations('after update: ', site.rates(), probs_first)
        except Exception as e:
            tr.violation(f'{kind}:raises', f'{label}: raises {type(e).__name__}: {e}', {'label': label})
            return
        tr.witness_runs += 1
        tr.ops_checked += t.nchecked
        tr.regions += 1
        allv = {d.args[i][0]: i for i in d.topo([g[1] for g in goals]) if d.ops[i] == 'var'}
        tr.sample({'case': label, 'goals': [g[0] for g in goals][:6], 'rate0': d.to_str(int(ids_of_any(d, site.rates()).reshape(-1)[-1]), 5)})
        ax = ground_axioms(d, [g[1] for g in goals])

        def replay(vals):
            return replay_case(kind, K, mu, batched, vals)

        cm.discharge(tr, d, dom + ax + list(t.pcs), goals, label, replay=replay, timeout=40.0, varnodes=allv,
                     sig_prefix=f'{kind}:')


def replay_case(kind, K, mu, batched, vals):
    """the same history on plain tensors: evaluate, update every parameter, probabilities() first, then rates()"""
    site, dic = cm.build(model_json(kind, K, mu))
    B = 2 if batched else 1

    def setp(key, pre, default, lo, hi):
        if key not in dic:
            return None
        rows = []
        for b in range(B):
            nm = f'{pre}[{b},0]' if batched else f'{pre}[0]'
            v = vals.get(nm, default)
            if not (lo < v < hi):
                v = default
            rows.append([v] if batched else v)
        tns = torch.tensor(rows if batched else [rows[0]], dtype=torch.float64)
        dic[key].tensor = tns
        return tns

    def check(tag, r, p, pv, m):
        r = r.to(torch.float64)
        p = p.to(torch.float64)
        target = m.reshape(-1) if m is not None else torch.ones(1, dtype=torch.float64)
        mean = (r * p).sum(-1).reshape(-1)
        if not torch.allclose(p.sum(-1), torch.ones_like(p.sum(-1)), atol=1e-10):
            return f'{tag}probabilities {p.tolist()} do not sum to one'
        if (p < 0).any() or (r < 0).any():
            return f'{tag}negative rate/probability: rates={r.tolist()} probs={p.tolist()}'
        if not torch.allclose(mean, target.expand_as(mean), rtol=1e-9):
            return f'{tag}mean rate {mean.tolist()} != {target.tolist()} (rates={r.tolist()}, probs={p.tolist()})'
        if 'inv' in kind:
            if (r[..., 0] != 0).any() or not torch.allclose(p[..., 0].reshape(-1), pv.reshape(-1)):
                return f'{tag}invariant class: rate {r[..., 0].tolist()} prob {p[..., 0].tolist()} pinv {pv.tolist()}'
        return None

    try:
        setp('shape', 'shape', 0.7, 0, 1e9)
        pv = setp('pinv', 'pinv', 0.2, -1e-12, 1)
        m = setp('mu', 'mu', 1.3, 0, 1e9)
        bad = check('', site.rates(), site.probabilities(), pv, m)
        if bad:
            return True, bad
        setp('shape', 'shape2_', 0.9, 0, 1e9)
        pv = setp('pinv', 'pinv2_', 0.35, -1e-12, 1)
        m = setp('mu', 'mu2_', 0.8, 0, 1e9)
        probs = site.probabilities()
        bad = check('after update (probabilities() asked first): ', site.rates(), probs, pv, m)
        if bad:
            return True, bad
    except Exception as e:
        return True, f'raises {type(e).__name__}: {e}'
    return False, 'agree'


def tasks_for(tier):
    ts = []
    Ks = [1, 2, 3, 4] if tier == 'quick' else [1, 2, 3, 4, 5, 6, 8, 16]
    for mu in (False, True):
        for batched in (False, True):
            if mu or not batched:
                ts.append(('constant', 1, mu, batched))
            ts.append(('invariant', 1, mu, batched))
            for K in Ks:
                ts.append(('weibull', K, mu, batched))
                ts.append(('weibull+inv', K, mu, batched))
    return ts


def body(chk):
    chk.explanation = ('symbolic execution of the real site-model code on symbolic shape / invariant proportion / mu; '
                       'the normalisation identities are rational identities in the uninterpreted pow(q_k, 1/shape) '
                       'atoms and are decided by the solver for all admissible parameter values')
    chk.total.assumptions |= {'pow(base, 1/shape) with constant positive base is uninterpreted, constrained by pow > 0'}
    pmap(run_task, tasks_for(chk.tier), chk.total)


if __name__ == '__main__':
    if '--replay' in sys.argv:
        import json

        r = json.load(open(sys.argv[sys.argv.index('--replay') + 1]))
        print('replay:', r['what'])
        sys.exit(1)
    sys.exit(main_for(PID, body))
