"""C13, last clause: specifications produced by the library's own json_factory helpers load into objects that
evaluate identically to directly constructed ones (tensor engine; called from checks/C13.py in both tiers).

For every json_factory of torchtree (Parameter, ViewParameter, Distribution, CTMCScale, BayesianBridge,
ScaleMixtureNormal, DeterministicNormal, SimpleClockModel, UnRootedTreeModel, TimeTreeModel,
ReparameterizedTimeTreeModel, FlexibleTimeTreeModel) and an enumerated family of argument combinations:
 (a) spec = X.json_factory(...) is loaded with the real remove_comments / expand_plates / process_objects
     (-> from_json_safe -> from_json) into a registry, after the objects it refers to, exactly as torchtree.py does;
 (b) the same object is constructed DIRECTLY: class constructor called with python objects built by hand from the
     arguments (Parameter(id, torch.tensor(..)), Taxa / Taxon, a dendropy tree read and indexed by this file) - never
     through from_json;
 (c) the SAME symbolic tensors are assigned (public `.tensor =` setter) to the corresponding parameters of both
     objects and the observables are evaluated by the real code: `.tensor` for parameters, `obj()` / `log_prob` /
     `rsample` for distributions, `.rates` for the clock model, `branch_lengths()` / `node_heights` / the model call
     for tree models.  symtorch.explore.Explorer enumerates the path regions (torch.max of the shift transform,
     abs, argument validation of torch.distributions) up to the closure certificate and the solver decides
     loaded == direct for all parameter values of every region.  Identical hash-consed expressions are closed
     syntactically; every case therefore carries a solver vacuity guard: the same factory called with deliberately
     different arguments (two arguments swapped, another value) must be told apart (`sat` expected).
     Before that the state right after loading (constants: initial tensors incl. keep_branch_lengths) is compared
     element by element, and shape / dtype / requires_grad / class metadata concretely;
 (d) sharing facts, concretely: registry[id_] is the loaded object; the nested ids are the ones the factory was
     given; the object HOLDS the registered instances (so a copy instead of a reference is seen), and an object
     that was in the registry before (string argument) is still the very same instance.
A load error of a factory-made specification whose direct counterpart can be constructed is a violation as well.
`sat` / load errors are replayed on the unmodified code with plain tensors before they are reported.
"""
from __future__ import annotations

import copy
import importlib
import logging
import os
import sys

HERE = os.path.dirname(os.path.abspath(__file__))
for _p in (os.path.dirname(HERE), HERE):
    if _p not in sys.path:
        sys.path.insert(0, _p)

import torch  # noqa: E402

from symtorch import SymTensor, from_ids, tracing  # noqa: E402
from symtorch.explore import Explorer, Goal, prove, triage  # noqa: E402
from vlib.core import main_for, pmap  # noqa: E402

PID = 'C13'
SIG = 'json_factory'
RTOL = 1e-9
EXPLANATION = (
    'json_factory clause (tensor engine, checks/C13_factory.py): for every json_factory of the library and an enumerated family '
    'of argument combinations the factory-made specification is loaded by the real remove_comments / expand_plates / '
    'process_objects (from_json_safe, from_json) into a registry and the same object is constructed directly (constructors on '
    'hand-built python objects, own dendropy tree indexing); the same symbolic tensors go into the corresponding parameters of '
    'both through the public setter, the real evaluation code runs on both, and the solver decides equality of every observable '
    'on every path region (Explorer, closure certificate); state right after loading, metadata and instance sharing are compared '
    'concretely; each case has a solver vacuity guard (a deliberately different factory call must be told apart: sat)')

logging.disable(logging.CRITICAL)  # from_json_safe logs every JSONParseError it wraps


# ===================================================================== loading as torchtree.py does
def register():
    """torchtree.py imports every module of the package so that the short type names are registered"""
    from torchtree.core.utils import package_contents

    for m in sorted(package_contents('torchtree')):
        if '.cli' in m or m.endswith('torchtree.torchtree'):
            continue  # the command line builders are clients of the factories, not part of the loader
        importlib.import_module(m)


def load_list(specs, dic):
    """one JSON document = list of top-level elements (torchtree.main): remove_comments, expand_plates, process_objects"""
    from torchtree.core.utils import expand_plates, process_objects, remove_comments

    data = copy.deepcopy(list(specs))
    remove_comments(data)
    expand_plates(data)
    out = None
    for el in data:
        out = process_objects(el, dic)
    return out


# ===================================================================== directly constructed python objects
def dparam(id_, values, dtype=None):
    from torchtree.core.parameter import Parameter

    return Parameter(id_, torch.tensor(values) if dtype is None else torch.tensor(values, dtype=dtype))


def dtaxa(id_, dates, with_dates=True):
    from torchtree.evolution.taxa import Taxa, Taxon

    return Taxa(id_, [Taxon(k, {'date': v} if with_dates else {}) for k, v in dates.items()])


def dtree(newick, names):
    """dendropy tree read and indexed by this file (not parse_tree / setup_indexes): tips carry the position of their
    taxon in `names`, internal nodes are numbered from len(names) on in post-order"""
    from dendropy import TaxonNamespace, Tree

    ns = TaxonNamespace(list(names))
    tree = Tree.get(data=newick, schema='newick', preserve_underscores=True, rooting='force-rooted', taxon_namespace=ns)
    tree.resolve_polytomies(update_bipartitions=True)
    k = len(names)
    for node in tree.postorder_node_iter():
        if node.is_leaf():
            node.index = list(names).index(node.taxon.label)
        else:
            node.index = k
            k += 1
    return tree


def tip_heights(dates):
    """dates -> heights: a date IS a height when the smallest is 0, else height = youngest date - date"""
    vs = list(dates.values())
    if min(vs) == 0.0:
        return {k: float(v) for k, v in dates.items()}
    return {k: float(max(vs) - v) for k, v in dates.items()}


def heights_of_newick(tree, dates, eps=1.0e-6):
    """internal node heights implied by the branch lengths of the newick string (own post-order pass, python floats)"""
    th = tip_heights(dates)
    h = {}
    for node in tree.postorder_node_iter():
        if node.is_leaf():
            h[node.index] = th[node.taxon.label]
        else:
            h[node.index] = max(h[c.index] + max(eps, c.edge_length) for c in node.child_node_iter())
    n = len(dates)
    return [h[i] for i in range(n, 2 * n - 1)]


def blens_of_newick(tree, n):
    """the 2n-3 branch lengths of the unrooted tree by node index; the two branches at the root are one branch"""
    nodes = {node.index: node for node in tree.postorder_node_iter()}
    c1, c2 = list(tree.seed_node.child_node_iter())
    out = []
    for i in range(2 * n - 3):
        node = nodes[i]
        if node is c1 or node is c2:
            out.append(float(c1.edge_length) + float(c2.edge_length))
        else:
            out.append(float(node.edge_length))
    return out


# ===================================================================== argument descriptors
class PA:
    """a parameter-valued factory argument.  mode: 'ref' (string id, the Parameter is loaded before), 'dict' (nested
    hand-written Parameter dict), 'fdict' (nested dict made by Parameter.json_factory, as the CLI nests factories),
    'list' (list of numbers, tree-model factories make the Parameter), 'number' (python scalar, not symbolised)"""

    def __init__(self, id_, values, mode, lo=None, hi=None):
        self.id, self.values, self.mode, self.lo, self.hi = id_, values, mode, lo, hi

    def spec(self):
        return {'id': self.id, 'type': 'Parameter', 'tensor': copy.deepcopy(self.values)}

    def arg(self):
        from torchtree.core.parameter import Parameter

        if self.mode == 'ref':
            return self.id
        if self.mode == 'dict':
            return self.spec()
        if self.mode == 'fdict':
            return Parameter.json_factory(self.id, tensor=copy.deepcopy(self.values))
        return copy.deepcopy(self.values)

    def env(self):
        return [self.spec()] if self.mode == 'ref' else []

    def sym(self):
        if self.mode == 'number' or self.id is None:
            return {}
        return {self.id: (self.values, self.lo, self.hi)}

    def direct(self, reg):
        p = dparam(self.id, self.values)
        if self.id is not None:
            reg[self.id] = p
        return p


class Case:
    """one factory call.  Everything that differs between cases is a small closure."""

    def __init__(self, cls, variant, tier='quick', **kw):
        self.cls, self.variant, self.tier = cls, variant, tier
        self.id = kw.get('id', 'obj')
        self.env = kw.get('env', [])            # plain specs loaded before (the objects string arguments refer to)
        self.spec = kw['spec']                   # () -> dict, calls the json_factory
        self.direct = kw['direct']               # () -> (obj, reg): direct construction, reg = id -> object
        self.nested = kw.get('nested', [])       # ids that must be registered by the load (given to the factory)
        self.holds = kw.get('holds', [])         # [(what, getter(obj), id)]: getter(loaded obj) is registry[id]
        self.sym = kw.get('sym', {})             # id -> (witness values, lo, hi): replaced by symbols on both sides
        self.observe = kw['observe']             # (obj, reg) -> {name: tensor}
        self.meta = kw.get('meta', lambda o, r: {})
        self.guard = kw.get('guard')             # () -> spec of a deliberately different factory call
        self.inject = kw.get('inject')           # (obj, reg, mk) -> None: extra symbolic environment (e.g. eps)
        self.extra = kw.get('extra', {})         # name -> witness: extra symbolic inputs used by inject
        self.domain = kw.get('domain')           # (d, V) -> [bool nodes]
        self.fns = kw.get('fns', [])
        self.args = kw.get('args', '')           # human readable argument combination
        self.sigkey = kw.get('sigkey', variant)  # part of the violation signature: the variant without the
        #                                          reference / nested-dict mode of its arguments

    @property
    def name(self):
        return f'{self.cls}/{self.variant}'

    def sig(self, kind):
        return f'{SIG}:{self.cls}:{self.sigkey}:{kind}'


# ===================================================================== helpers of the driver
def flat_names(pid, values):
    t = torch.tensor(values, dtype=torch.float64)
    shape = tuple(t.shape)
    if not shape:
        return [f'{pid}'], shape, [float(t)]
    import itertools

    idx = list(itertools.product(*[range(s) for s in shape]))
    return [f'{pid}[' + ','.join(map(str, k)) + ']' for k in idx], shape, t.reshape(-1).tolist()


def inputs_of(case):
    W = {}
    for pid, (vals, lo, hi) in case.sym.items():
        names, _, flat = flat_names(pid, vals)
        W.update(dict(zip(names, flat)))
    W.update(case.extra)
    return W


def domain_of(case):
    def domain(d, V):
        cs = []
        for pid, (vals, lo, hi) in case.sym.items():
            for nm in flat_names(pid, vals)[0]:
                if lo is not None:
                    cs.append(d.lt(d.const(lo), V[nm]))
                if hi is not None:
                    cs.append(d.lt(V[nm], d.const(hi)))
        if case.domain:
            cs += list(case.domain(d, V))
        return cs

    return domain


def build_loaded(case, spec=None):
    """-> (obj, registry, {id: instance} of the objects that were in the registry before the factory-made spec)"""
    dic = {}
    if case.env:
        load_list(case.env, dic)
    before = dict(dic)
    obj = load_list([case.spec() if spec is None else spec], dic)
    return obj, dic, before


def assign(case, dic_f, reg_d, mk, which=('f', 'd'), rename=None):
    """the same values into the corresponding parameters of both sides through the public setter"""
    for pid, (vals, lo, hi) in case.sym.items():
        names, shape, _ = flat_names(pid, vals)
        if rename and pid == rename[0]:
            names = [rename[1] + nm[len(pid):] for nm in names]
        if 'f' in which and pid in dic_f:  # an id that is missing on the loaded side was reported as a sharing violation;
            dic_f[pid].tensor = mk(names, shape)  # its object then does not see the symbols and differs below
        if 'd' in which:
            reg_d[pid].tensor = mk(names, shape)


def as_ids(d, x):
    if isinstance(x, SymTensor):
        return x._ids
    x = torch.as_tensor(x).detach()
    flat = [d.const(float(v)) for v in x.reshape(-1).to(torch.float64).tolist()]
    return torch.tensor(flat, dtype=torch.int64).reshape(x.shape)


def compare_goals(case, d, of, od, kind):
    goals = []
    for k in od:
        label = f'{k} of the loaded object == {k} of the directly constructed one ({kind})'
        sig = case.sig(f'{kind}:{k}')
        if k not in of or not isinstance(of[k], torch.Tensor) or not isinstance(od[k], torch.Tensor):
            goals.append(Goal(label + ' (missing / not a tensor)', d.FALSE, signature=sig))
            continue
        a, b = as_ids(d, of[k]), as_ids(d, od[k])
        if tuple(a.shape) != tuple(b.shape):
            goals.append(Goal(label + f' (shapes {tuple(a.shape)} vs {tuple(b.shape)})', d.FALSE, signature=sig))
            continue
        eqs = [d.eq(x, y) for x, y in zip(a.reshape(-1).tolist(), b.reshape(-1).tolist())]
        goals.append(Goal(label, d.and_(*eqs) if eqs else d.TRUE, signature=sig, info=k))
    return goals


def observe_both(case, obj_f, dic_f, obj_d, reg_d):
    """-> (of, od, error text of exactly one raising side or None); both raising is the caller's problem"""
    ef = ed = None
    of = od = None
    try:
        of = case.observe(obj_f, dic_f)
    except Exception as e:  # noqa
        ef = e
    try:
        od = case.observe(obj_d, reg_d)
    except Exception as e:  # noqa
        ed = e
    if ef is not None and ed is not None:
        if type(ef) is type(ed):
            raise ef
        return None, None, f'loaded object raises {type(ef).__name__}: {ef}; direct one raises {type(ed).__name__}: {ed}'
    if ef is not None:
        return None, od, f'evaluating the loaded object raises {type(ef).__name__}: {ef}; the directly constructed one evaluates'
    if ed is not None:
        return of, None, f'evaluating the directly constructed object raises {type(ed).__name__}: {ed}; the loaded one evaluates'
    return of, od, None


def plain_mk(vals, W):
    def mk(names, shape):
        return torch.tensor([float(vals.get(n, W[n])) for n in names], dtype=torch.float64).reshape(shape)

    return mk


def concrete_compare(case, vals=None, initial=False, only=None):
    """replay on the unmodified code with plain tensors.  -> (differs: bool, detail)
    initial: the state right after loading / construction is judged, no parameter is assigned"""
    W = inputs_of(case)
    vals = {k: v for k, v in (vals or {}).items() if v is not None}
    try:
        obj_f, dic_f, _ = build_loaded(case)
    except Exception as e:  # noqa
        try:
            case.direct()
        except Exception as e2:  # noqa
            return False, f'neither side can be built ({type(e).__name__} / {type(e2).__name__})'
        return True, f'the factory-made specification does not load: {type(e).__name__}: {e}'
    obj_d, reg_d = case.direct()
    mk = plain_mk(vals, W)
    try:
        if case.sym and not initial:
            assign(case, dic_f, reg_d, mk)
        if case.inject:
            case.inject(obj_f, dic_f, mk)
            case.inject(obj_d, reg_d, mk)
        of, od, err = observe_both(case, obj_f, dic_f, obj_d, reg_d)
    except Exception as e:  # noqa
        return False, f'both sides raise {type(e).__name__}: {e}'
    if err:
        return True, err
    for k in od:
        if only is not None and k != only:
            continue
        a, b = of.get(k), od[k]
        if not isinstance(a, torch.Tensor) or tuple(a.shape) != tuple(b.shape):
            return True, f'{k}: loaded {None if a is None else tuple(a.shape)} vs direct {tuple(b.shape)}'
        a64, b64 = a.detach().to(torch.float64), b.detach().to(torch.float64)
        if not torch.allclose(a64, b64, rtol=RTOL, atol=1e-12, equal_nan=True):
            return True, f'{k}: loaded object gives {a.tolist()}, directly constructed one gives {b.tolist()}'
    return False, 'both objects evaluate to the same values'


# ===================================================================== the driver
def run_case(case, tr):
    from torchtree.core.utils import process_object, process_objects
    from torchtree.core.serializable import JSONSerializable

    tr.fn(process_object, process_objects, JSONSerializable.from_json_safe, *case.fns)
    label = f'{case.name} [{case.args}]'
    # ---------------------------------------------------------------- build both sides (plain tensors)
    try:
        spec = case.spec()
    except Exception as e:  # noqa
        tr.violation(case.sig('factory-raises'), f'{label}: the factory call itself raises {type(e).__name__}: {e}',
                     {'case': case.name, 'args': case.args})
        return
    try:
        obj_d, reg_d = case.direct()
    except Exception as e:  # noqa
        tr.inconc(f'{label}: the direct construction raises {type(e).__name__}: {e} (harness or constructor problem)')
        return
    try:
        obj_f, dic_f, before = build_loaded(case, spec)
    except Exception as e:  # noqa
        differs, detail = concrete_compare(case)  # replay: load again, from scratch
        if differs:
            tr.violation(case.sig('load-error'),
                         f'{label}: specification {spec} made by {case.cls}.json_factory does not load '
                         f'({type(e).__name__}: {(str(e).splitlines() or [""])[0][:160]}) although the object can be constructed directly',
                         {'case': case.name, 'args': case.args, 'spec': spec, 'error': f'{type(e).__name__}: {e}'})
        else:
            tr.inconc(f'{label}: load raised {type(e).__name__}: {e} but the replay says: {detail}')
        return
    tr.witness_runs += 1
    tr.sample({'case': label, 'spec': spec}, limit=2)
    bad = []
    # ---------------------------------------------------------------- (d) sharing facts
    if dic_f.get(case.id) is not obj_f:
        bad.append(('sharing', f'registry[{case.id!r}] is not the loaded object'))
    for nid in case.nested:
        if nid not in dic_f:
            bad.append(('sharing', f'nested id {nid!r} given to the factory is not in the registry (ids: {sorted(map(str, dic_f))})'))
    extra_ids = set(map(str, dic_f)) - set(map(str, reg_d)) - {str(case.id)}
    missing_ids = set(map(str, reg_d)) - set(map(str, dic_f))
    if extra_ids or missing_ids:
        bad.append(('sharing', f'registered ids differ from the ids given to the factory: unexpected {sorted(extra_ids)}, missing {sorted(missing_ids)}'))
    for k, inst in before.items():
        if dic_f.get(k) is not inst:
            bad.append(('sharing', f'object {k!r}, in the registry before the load, was replaced by another instance'))
    for what, getter, hid in case.holds:
        try:
            held = getter(obj_f)
        except Exception as e:  # noqa
            bad.append(('sharing', f'{what}: {type(e).__name__}: {e}'))
            continue
        if hid not in dic_f or held is not dic_f[hid]:
            bad.append(('sharing', f'{what} of the loaded object is not the instance registered as {hid!r} '
                                   f'(a copy instead of a reference)'))
    # ---------------------------------------------------------------- metadata, concretely
    try:
        mf = dict(case.meta(obj_f, dic_f), **{'class': type(obj_f).__name__, 'id': getattr(obj_f, 'id', None)})
        md = dict(case.meta(obj_d, reg_d), **{'class': type(obj_d).__name__, 'id': getattr(obj_d, 'id', None)})
        for k in md:
            if mf.get(k) != md[k]:
                bad.append((f'metadata:{k}', f'{k}: loaded object has {mf.get(k)!r}, directly constructed one has {md[k]!r}'))
    except Exception as e:  # noqa
        bad.append(('metadata', f'reading the metadata raises {type(e).__name__}: {e}'))
    for kind, text in bad:
        tr.violation(case.sig(kind), f'{label}: {text}', {'case': case.name, 'args': case.args, 'spec': spec})
    # ---------------------------------------------------------------- state right after loading (constants)
    with tracing() as t:
        d = t.dag
        try:
            if case.inject:  # random draws made at construction are the environment: the same values on both sides
                case.inject(obj_f, dic_f, plain_mk({}, inputs_of(case)))
                case.inject(obj_d, reg_d, plain_mk({}, inputs_of(case)))
            of, od, err = observe_both(case, obj_f, dic_f, obj_d, reg_d)
        except Exception as e:  # noqa
            tr.inconc(f'{label}: both freshly built objects raise {type(e).__name__}: {e}')
            return
        if err:
            goals = [Goal(f'both objects evaluate right after construction ({err})', d.FALSE,
                          signature=case.sig('initial:raises'))]
        else:
            # a tensor of another dtype is reported once, as metadata (below); its values are not compared on top
            same = {k: v for k, v in od.items() if not (isinstance(of.get(k), torch.Tensor) and of[k].dtype != v.dtype)}
            for k in od:
                if k not in same:
                    tr.violation(case.sig('metadata:dtype'), f'{label}: dtype of {k}: the loaded object has {of[k].dtype}, the '
                                 f'directly constructed one has {od[k].dtype}', {'case': case.name, 'args': case.args, 'spec': spec})
            goals = compare_goals(case, d, of, od if len(same) == len(od) else same, 'initial')
        for g in goals:
            st, r, _ = prove(d, [], g.node, timeout=20.0, tr=tr, label=g.label)
            if st == 'proved':
                continue
            differs, detail = concrete_compare(case, initial=True, only=g.info)
            if st == 'refuted' and differs:
                tr.violation(g.signature, f'{label}: {g.label} fails: {detail}', {'case': case.name, 'args': case.args, 'spec': spec})
            else:
                tr.inconc(f'{label}: {g.label}: solver says {st}, replay says: {detail}')
    if not case.sym:
        guard_constants(case, tr, label)
        return
    # ---------------------------------------------------------------- (c) symbolic parameters, all regions
    W0 = inputs_of(case)

    def body(t, V, W):
        d = t.dag

        def mk(names, shape):
            return from_ids(torch.tensor([V[n] for n in names], dtype=torch.int64).reshape(shape))

        o_f, d_f, _ = build_loaded(case)
        o_d, r_d = case.direct()
        assign(case, d_f, r_d, mk)
        if case.inject:
            case.inject(o_f, d_f, mk)
            case.inject(o_d, r_d, mk)
        of, od, err = observe_both(case, o_f, d_f, o_d, r_d)
        if err:
            return [Goal(f'both objects evaluate ({err})', d.FALSE, signature=case.sig('value:raises'))]
        return compare_goals(case, d, of, od, 'value')

    ex = Explorer(W0, domain_of(case), body, tr, max_regions=64, timeout=30.0, closure_timeout=30.0, label=label,
                  check_defined=False)
    out = ex.run()
    for s in out.region_samples[:1]:
        tr.sample({'case': label, 'regions': out.regions, 'closed': out.closed, **s}, limit=3)
    triage(out, lambda vals: concrete_compare(case, vals), tr, label, extra={'case': case.name, 'args': case.args, 'spec': spec})
    guard_symbolic(case, tr, label)


def guard_constants(case, tr, label):
    """vacuity guard of a case without symbolic inputs: the same factory with another argument gives a state that is
    told apart from the direct object by the very comparison used above"""
    if case.guard is None:
        tr.inconc(f'{label}: no vacuity guard defined')
        return
    try:
        obj_g, dic_g, _ = build_loaded(case, case.guard())
        obj_d, reg_d = case.direct()
        with tracing() as t:
            d = t.dag
            of, od, err = observe_both(case, obj_g, dic_g, obj_d, reg_d)
            if err:
                tr.inconc(f'{label}: vacuity guard raises: {err}')
                return
            goals = compare_goals(case, d, of, od, 'guard')
            sts = [prove(d, [], g.node, timeout=20.0, tr=tr, label='guard: ' + g.label)[0] for g in goals]
    except Exception as e:  # noqa
        tr.inconc(f'{label}: vacuity guard could not be evaluated: {type(e).__name__}: {e}')
        return
    if 'refuted' not in sts:
        tr.inconc(f'{label}: vacuity guard not refuted ({sts}): a different factory call is not told apart')


def guard_symbolic(case, tr, label):
    """the solver must tell the direct object apart from (i) the object loaded from a deliberately different factory
    call when the case defines one, else (ii) the loaded object whose first parameter got other symbols"""
    W = inputs_of(case)
    first = next(iter(case.sym))
    with tracing() as t:
        d = t.dag
        if case.guard is None:
            gn, _, gv = flat_names('guard$', case.sym[first][0])
            for n, v in zip(gn, gv):
                W[n] = v * 1.25 + 0.125
        V = {n: d.var(n, float(v)) for n, v in W.items()}
        dom = domain_of(case)(d, V)

        def mk(names, shape):
            return from_ids(torch.tensor([V[n] for n in names], dtype=torch.int64).reshape(shape))

        try:
            o_f, d_f, _ = build_loaded(case, case.guard() if case.guard else None)
            o_d, r_d = case.direct()
            assign(case, d_f, r_d, mk)
            if case.guard is None:
                assign(case, d_f, r_d, mk, which=('f',), rename=(first, 'guard$'))
                lo, hi = case.sym[first][1], case.sym[first][2]
                for n in gn:
                    if lo is not None:
                        dom.append(d.lt(d.const(lo), V[n]))
                    if hi is not None:
                        dom.append(d.lt(V[n], d.const(hi)))
            if case.inject:
                case.inject(o_f, d_f, mk)
                case.inject(o_d, r_d, mk)
            of, od, err = observe_both(case, o_f, d_f, o_d, r_d)
        except Exception as e:  # noqa
            tr.inconc(f'{label}: vacuity guard could not be evaluated: {type(e).__name__}: {e}')
            return
        if err:
            tr.inconc(f'{label}: vacuity guard raises: {err}')
            return
        goals = compare_goals(case, d, of, od, 'guard')
        sts = []
        for g in goals:
            st, r, _ = prove(d, dom + list(t.pcs), g.node, timeout=30.0, tr=tr, label='guard: ' + g.label)
            sts.append(st)
            if st == 'refuted':
                break
    if 'refuted' not in sts:
        tr.inconc(f'{label}: vacuity guard not refuted ({sts}): the solver does not tell a different object apart')


# ===================================================================== cases: Parameter
REF1 = {'id': 'ref', 'type': 'Parameter', 'tensor': [1.0, 2.0, 3.0]}
REF2 = {'id': 'ref2', 'type': 'Parameter', 'tensor': [[1.0, 2.0, 3.0], [4.0, 5.0, 6.0]]}


def _dt(name):
    return None if name is None else getattr(torch, name.split('.')[-1])


def parameter_cases():
    """every keyword the factory handles: tensor | full(+tensor) | full_like(+tensor) | zeros | zeros_like | ones |
    ones_like | eye | eye_like, each with / without dtype, device; *_like as string reference and as nested dict.
    The direct tensor follows the documentation of Parameter.from_json (size: int or list; dtype: the desired type)."""
    from torchtree.core.parameter import Parameter

    def size(x):
        return (x,) if isinstance(x, int) else tuple(x)

    V = []  # (variant, kwargs, direct tensor builder(ref tensor), like-mode, guard kwargs, tier)

    def add(variant, kw, direct, guard, like=None, tier='quick'):
        V.append((variant, kw, direct, like, guard, tier))

    add('tensor:scalar', dict(tensor=0.5), lambda r, dt: torch.tensor(0.5, dtype=dt), dict(tensor=0.25))
    add('tensor:list', dict(tensor=[1.0, 2.0]), lambda r, dt: torch.tensor([1.0, 2.0], dtype=dt), dict(tensor=[2.0, 1.0]))
    add('tensor:nested-list', dict(tensor=[[1.0, 2.0], [3.0, 4.0]]), lambda r, dt: torch.tensor([[1.0, 2.0], [3.0, 4.0]], dtype=dt),
        dict(tensor=[[1.0, 3.0], [2.0, 4.0]]))
    add('tensor:int-list', dict(tensor=[1, 2]), lambda r, dt: torch.tensor([1, 2], dtype=dt), dict(tensor=[1, 3]))
    add('full:list-size', dict(full=[3], tensor=0.1), lambda r, dt: torch.full((3,), 0.1, dtype=dt), dict(full=[3], tensor=0.2))
    add('full:2d-size', dict(full=[2, 3], tensor=0.1), lambda r, dt: torch.full((2, 3), 0.1, dtype=dt), dict(full=[2, 3], tensor=0.3))
    add('full:int-size', dict(full=3, tensor=0.1), lambda r, dt: torch.full((3,), 0.1, dtype=dt), dict(full=[3], tensor=0.2))
    add('full_like', dict(tensor=0.1), lambda r, dt: torch.full_like(r, 0.1, dtype=dt), dict(tensor=0.2), like='full_like')
    for fill, val in (('zeros', 0.0), ('ones', 1.0)):
        add(f'{fill}:list-size', {fill: [2, 2]}, lambda r, dt, v=val: torch.full((2, 2), v, dtype=dt), {('ones' if fill == 'zeros' else 'zeros'): [2, 2]})
        add(f'{fill}:int-size', {fill: 3}, lambda r, dt, v=val: torch.full((3,), v, dtype=dt), {('ones' if fill == 'zeros' else 'zeros'): 3})
        add(f'{fill}_like', {}, lambda r, dt, v=val: torch.full_like(r, v, dtype=dt), {}, like=f'{fill}_like')
    add('eye:int-size', dict(eye=3), lambda r, dt: torch.eye(3, dtype=dt), dict(ones=[3, 3]))
    add('eye:list-size', dict(eye=[2, 3]), lambda r, dt: torch.eye(2, 3, dtype=dt), dict(ones=[2, 3]))
    add('eye_like', {}, lambda r, dt: torch.eye(*r.shape, dtype=dt), {}, like='eye_like')
    cases = []
    for variant, kw, direct, like, gkw, tier in V:
        likes = [None] if like is None else ['ref', 'dict', 'ref2d']
        for lm in likes:
            for dtype in (None, 'torch.float32'):
                for device in ((None, 'cpu') if (variant == 'tensor:list' and dtype is None) else (None,)):
                    if variant == 'tensor:int-list' and dtype is not None:
                        dtype = 'torch.int32'
                    kwargs = dict(kw)
                    gk = dict(gkw)
                    env, refspec, nested = [], None, []
                    if lm is not None:
                        refspec = REF2 if lm in ('dict', 'ref2d') else REF1
                        if lm == 'dict':
                            kwargs[like] = copy.deepcopy(refspec)
                            nested = [refspec['id']]
                        else:
                            kwargs[like] = refspec['id']
                            env = [refspec]
                        # guard: another *_like keyword (zeros <-> ones, full value, eye -> ones)
                        other = {'zeros_like': 'ones_like', 'ones_like': 'zeros_like', 'eye_like': 'ones_like'}.get(like, like)
                        gk[other] = copy.deepcopy(kwargs[like])
                    if dtype:
                        kwargs['dtype'] = gk['dtype'] = dtype
                    if device:
                        kwargs['device'] = gk['device'] = device
                    var = variant + (f':{lm}' if lm else '') + (f'+dtype' if dtype else '') + ('+device' if device else '')

                    def mk_direct(direct=direct, refspec=refspec, dtype=dtype):
                        reg = {}
                        r = None
                        if refspec is not None:
                            reg[refspec['id']] = dparam(refspec['id'], refspec['tensor'])
                            r = reg[refspec['id']].tensor
                        p = Parameter('obj', direct(r, _dt(dtype)))
                        reg['obj'] = p
                        return p, reg

                    cases.append(Case(
                        'Parameter', var, tier, env=env, nested=nested,
                        spec=lambda kwargs=kwargs: Parameter.json_factory('obj', **copy.deepcopy(kwargs)),
                        guard=lambda gk=gk: Parameter.json_factory('obj', **copy.deepcopy(gk)),
                        direct=mk_direct,
                        observe=lambda o, r: {'tensor': o.tensor},
                        sigkey=variant,
                        meta=lambda o, r: {'shape': tuple(o.shape), 'requires_grad': o.requires_grad,
                                           'tensor class': type(o.tensor).__name__, 'device': str(o.device)},
                        fns=[Parameter.json_factory, Parameter.from_json, Parameter.__init__],
                        args=', '.join(f'{k}={v if not isinstance(v, dict) else "{" + v["id"] + "}"}' for k, v in kwargs.items())))
    return cases


# ===================================================================== cases: ViewParameter
def view_cases():
    """ViewParameter.json_factory(id_, x, indices): x as string reference / nested dict; indices int, slice strings
    (incl. negative step = reversed selection) and a list of positions.  Observables: the viewed tensor for a symbolic
    base, and the base after a write through the view's setter."""
    from torchtree.core.parameter import ViewParameter

    base1 = [0.3, 0.7, 1.1, 1.9]
    base2 = [[0.3, 0.7, 1.1], [1.9, 2.3, 2.9]]

    def pyidx(ind, n):
        """the documented meaning of an indices value, as python indexing of range(n)"""
        if isinstance(ind, int):
            return ind
        if isinstance(ind, list):
            return torch.tensor(ind)
        parts = [None if s == '' else int(s) for s in ind.split(':')]
        sl = slice(*parts)
        if sl.step is not None and sl.step < 0:
            return torch.tensor(list(range(n))[sl], dtype=torch.int64)  # torch has no negative-step slices
        return sl

    variants = [(1, 'int', 'quick'), ('0:2', 'slice a:b', 'quick'), ('1:', 'slice a:', 'quick'), (':3', 'slice :b', 'thorough'),
                ('::2', 'slice ::k', 'quick'), ('1:4:2', 'slice a:b:k', 'thorough'), ('::-1', 'slice ::-1', 'quick'),
                ('3:0:-1', 'slice a:b:-1', 'quick'), ('2::-1', 'slice a::-1', 'thorough'), ('-2:', 'slice -a:', 'thorough'),
                ([0, 2], 'list', 'quick')]
    cases = []
    for ind, iname, tier in variants:
        for mode in ('ref', 'dict', 'dict2d'):
            if mode == 'dict2d' and iname not in ('slice a:', 'int', 'slice ::-1'):
                continue
            vals = base2 if mode == 'dict2d' else base1
            n = len(vals[0]) if mode == 'dict2d' else len(vals)
            if mode == 'dict2d' and isinstance(ind, str) and ind.startswith('3'):
                continue
            pa = PA('base', vals, 'ref' if mode == 'ref' else 'dict')
            gind = {1: 2, '0:2': '1:3', '1:': '0:3', ':3': '1:', '::2': '1::2', '1:4:2': '0:3:2', '::-1': '::1', '3:0:-1': '0:3',
                    '2::-1': '0:3', '-2:': '0:2'}.get(ind if not isinstance(ind, list) else None, '0:2')
            if mode == 'dict2d' and ind == '1:':
                gind = '0:2'

            def mk_direct(pa=pa, ind=ind, n=n):
                reg = {}
                b = pa.direct(reg)
                v = ViewParameter('obj', b, pyidx(ind, n))
                reg['obj'] = v
                return v, reg

            def observe(o, r):
                out = {'tensor': o.tensor}
                o.tensor = o.tensor * 2.0 + 1.0  # write through the view; the base (registered instance) must change
                out['base after a write through the view'] = r['base'].tensor
                return out

            cases.append(Case(
                'ViewParameter', f'{iname}:{mode}', tier, env=pa.env(), nested=[] if mode == 'ref' else ['base'],
                spec=lambda pa=pa, ind=ind: ViewParameter.json_factory('obj', pa.arg(), copy.deepcopy(ind)),
                guard=lambda pa=pa, gind=gind: ViewParameter.json_factory('obj', pa.arg(), gind),
                direct=mk_direct, sym=pa.sym(), observe=observe,
                holds=[('parameter', lambda o: o.parameter, 'base')],
                meta=lambda o, r: {'shape': tuple(o.shape)}, sigkey=iname,
                fns=[ViewParameter.json_factory, ViewParameter.from_json, ViewParameter.__init__],
                args=f'x={"base" if mode == "ref" else "{base}"} {vals}, indices={ind!r}'))
    return cases


# ===================================================================== cases: Distribution
DISTS = {
    # name: (x witness, x lower bound, [(parameter, witness, lower bound)])
    'Normal': ([0.3, -0.2], None, [('loc', [0.4, 0.1], None), ('scale', [0.5], 0.0)]),
    'LogNormal': ([0.3, 1.2], 0.0, [('loc', [0.4], None), ('scale', [0.5], 0.0)]),
    'Gamma': ([0.7, 1.4], 0.0, [('concentration', [2.0], 0.0), ('rate', [1.5], 0.0)]),
    'Exponential': ([0.7, 1.4], 0.0, [('rate', [1.5, 0.5], 0.0)]),
    'Cauchy': ([0.3, -0.2], None, [('loc', [0.5], None), ('scale', [1.0], 0.0)]),
}


def distribution_cases():
    """Distribution.json_factory(id_, distribution, x, parameters): x as reference / nested dict / nested dict made by
    Parameter.json_factory / list of parameters; every parameter of the torch distribution as reference / nested dict /
    python number / list of numbers; parameters=None."""
    from torchtree.core.parameter import Parameter
    from torchtree.distributions.distributions import Distribution

    def number_of(vals):
        return vals[0]

    combos = []  # (dist, xmode, [modes], tier)
    pm = ['ref', 'dict', 'number', 'list']
    for xm in ('ref', 'dict', 'xlist'):
        for lm in pm:
            for sm in pm:
                if xm == 'xlist' and (lm in ('number', 'list') or sm in ('number', 'list')):
                    continue  # from_json reads x.dtype for numbers: x must be one parameter there
                quick = (xm, lm, sm) in {('ref', 'ref', 'ref'), ('dict', 'dict', 'dict'), ('ref', 'dict', 'number'), ('dict', 'ref', 'list'),
                                         ('xlist', 'dict', 'ref'), ('ref', 'number', 'ref')}
                combos.append(('Normal', xm, [lm, sm], 'quick' if quick else 'thorough'))
    combos += [('Normal', 'fdict', ['fdict', 'fdict'], 'quick'), ('Cauchy', 'ref', ['number', 'number'], 'quick'),
               ('LogNormal', 'ref', ['dict', 'dict'], 'quick'), ('LogNormal', 'dict', ['number', 'ref'], 'thorough'),
               ('Gamma', 'dict', ['dict', 'ref'], 'quick'), ('Gamma', 'ref', ['number', 'dict'], 'thorough'),
               ('Exponential', 'ref', ['dict'], 'quick'), ('Exponential', 'dict', ['ref'], 'thorough'),
               ('Exponential', 'ref', ['number'], 'thorough')]
    cases = []
    for dist, xm, modes, tier in combos:
        xw, xlo, plist = DISTS[dist]
        if xm == 'xlist':
            xs = [PA('x1', xw[:1], 'dict', xlo), PA('x2', xw[1:], 'ref', xlo)]
        else:
            xs = [PA('x', xw, xm, xlo)]
        pas = []
        for (pname, pw, plo), m in zip(plist, modes):
            vals = number_of(pw) if m == 'number' else pw
            pas.append((pname, PA(None if m in ('number', 'list') else pname, vals, m, plo)))
        path = f'torch.distributions.{dist}'

        def xarg(xs=xs, xm=xm):
            return [p.arg() for p in xs] if xm == 'xlist' else xs[0].arg()

        def spec(path=path, xarg=xarg, pas=pas):
            return Distribution.json_factory('obj', path, xarg(), {n: p.arg() for n, p in pas})

        guard = None
        if len(pas) == 2:
            def guard(path=path, xarg=xarg, pas=pas):  # the two parameters swapped
                (n0, p0), (n1, p1) = pas
                return Distribution.json_factory('obj', path, xarg(), {n0: p1.arg(), n1: p0.arg()})

        def mk_direct(dist=dist, xs=xs, xm=xm, pas=pas):
            reg = {}
            xo = [p.direct(reg) for p in xs]
            x = xo if xm == 'xlist' else xo[0]
            params = {}
            for n, p in pas:
                if p.mode in ('number', 'list'):
                    params[n] = Parameter(None, torch.tensor(p.values, dtype=xo[0].dtype))
                else:
                    params[n] = p.direct(reg)
            o = Distribution('obj', getattr(torch.distributions, dist), x, params)
            reg['obj'] = o
            return o, reg

        sym = {}
        env = []
        for p in xs + [p for _, p in pas]:
            sym.update(p.sym())
            env += p.env()
        holds = [(f'parameter {n}', (lambda o, n=n: o.dict_parameters[n]), n) for n, p in pas if p.mode in ('ref', 'dict', 'fdict')]
        if xm != 'xlist':
            holds.append(('x', lambda o: o.x, 'x'))
        nested = [p.id for p in xs + [p for _, p in pas] if p.mode in ('dict', 'fdict')]
        mtxt = ','.join(f'{n}={p.mode}' for n, p in pas)
        cases.append(Case(
            'Distribution', f'{dist}:x={xm},{mtxt}', tier, env=env, nested=nested, spec=spec, guard=guard, direct=mk_direct,
            sym=sym, holds=holds, sigkey=f'{dist}:x={xm},{mtxt}',
            observe=lambda o, r: {'obj()': o(), 'log_prob(x)': o.log_prob(o.x)},
            meta=lambda o, r: {'torch distribution': o.dist.__name__, 'parameter names': list(o.dict_parameters),
                               'batch_shape': tuple(o.batch_shape), 'x shape': tuple(o.x.shape)},
            fns=[Distribution.json_factory, Distribution.from_json, Distribution.__init__, Distribution.log_prob],
            args=f'{path}, x={xm}, ' + ', '.join(f'{n}={p.arg()!r}' if p.mode in ('number', 'list', 'ref') else f'{n}={{{p.id}}}' for n, p in pas)))
    # parameters=None: nothing to evaluate, the structure is compared
    px = PA('x', [0.3, -0.2], 'dict')

    def direct_none():
        reg = {}
        o = Distribution('obj', torch.distributions.Normal, px.direct(reg), {})
        reg['obj'] = o
        return o, reg

    cases.append(Case(
        'Distribution', 'Normal:x=dict,parameters=None', 'quick', nested=['x'],
        spec=lambda: Distribution.json_factory('obj', 'torch.distributions.Normal', px.arg()),
        guard=lambda: Distribution.json_factory('obj', 'torch.distributions.Normal', PA('x', [0.3, 0.2], 'dict').arg()),
        direct=direct_none, holds=[('x', lambda o: o.x, 'x')],
        observe=lambda o, r: {'x.tensor': o.x.tensor},
        meta=lambda o, r: {'torch distribution': o.dist.__name__, 'parameter names': list(o.dict_parameters)},
        fns=[Distribution.json_factory, Distribution.from_json], args='torch.distributions.Normal, x={x}, parameters omitted'))
    return cases


# ===================================================================== trees shared by the model cases
NWK = '((A:0.1,B:0.2):0.3,(C:0.15,D:0.05):0.25);'
NWK_SWAPPED = '((A:0.1,C:0.2):0.3,(B:0.15,D:0.05):0.25);'  # vacuity guards: another topology over the same taxa
DATES0 = {'A': 0.0, 'B': 1.0, 'C': 0.5, 'D': 0.0}            # dates that are heights (smallest is 0)
DATESY = {'A': 2001.0, 'B': 2000.0, 'C': 2000.5, 'D': 2001.0}  # calendar years: height = youngest - date
HEIGHTS = [1.2, 0.8, 2.0]  # internal nodes (A,B) (C,D) root, above their tips


def taxon_specs(dates, with_dates=True):
    return [dict({'id': k, 'type': 'Taxon'}, **({'attributes': {'date': v}} if with_dates else {})) for k, v in dates.items()]


def taxa_arg(mode, dates, taxa_id):
    """-> (factory argument, env specs, factory keywords)"""
    if mode == 'dict':
        return dict(dates), [], ({} if taxa_id == 'taxa' else {'taxa_id': taxa_id})
    if mode == 'list':
        return taxon_specs(dates), [], ({} if taxa_id == 'taxa' else {'taxa_id': taxa_id})
    return taxa_id, [{'id': taxa_id, 'type': 'Taxa', 'taxa': taxon_specs(dates)}], {}


def direct_taxa(reg, taxa_id, dates, with_dates=True):
    taxa = dtaxa(taxa_id, dates, with_dates)
    reg[taxa_id] = taxa
    for tx in taxa:
        reg[tx.id] = tx
    return taxa


def taxa_meta(o, r, taxa_id):
    return {'taxa': list(o.taxa), 'taxon attributes': [(t.id, dict(t.data)) for t in r[taxa_id]] if taxa_id in r else None,
            'postorder': [tuple(int(i) for i in row) for row in o.postorder], 'taxa_count': o.taxa_count}


def time_tree_dep(mode, id_='tree'):
    """a TimeTreeModel as argument of another factory: 'ref' (hand-written plain specs loaded before) or 'dict'
    (nested, itself made by TimeTreeModel.json_factory, as the command line nests the factories).
    -> (argument, env, nested ids, direct(reg) -> model, sym)"""
    from torchtree.evolution.tree_model import TimeTreeModel

    hid = f'{id_}.heights'
    if mode == 'ref':
        env = [{'id': 'taxa', 'type': 'Taxa', 'taxa': taxon_specs(DATES0)},
               {'id': id_, 'type': 'TimeTreeModel', 'newick': NWK, 'taxa': 'taxa',
                'internal_heights': {'id': hid, 'type': 'Parameter', 'tensor': list(HEIGHTS)}}]
        arg, nested = id_, []
    else:
        env = []
        arg = TimeTreeModel.json_factory(id_, NWK, list(HEIGHTS), dict(DATES0), internal_heights_id=hid)
        nested = [id_, hid, 'taxa'] + list(DATES0)

    def direct(reg):
        taxa = direct_taxa(reg, 'taxa', DATES0)
        reg[hid] = dparam(hid, list(HEIGHTS))
        reg[id_] = TimeTreeModel(id_, dtree(NWK, list(DATES0)), taxa, reg[hid])
        return reg[id_]

    return arg, env, nested, direct, {hid: (list(HEIGHTS), None, None)}


# ===================================================================== cases: CTMCScale, BayesianBridge, ScaleMixtureNormal, DeterministicNormal
def prior_cases():
    from torchtree.distributions.bayesian_bridge import BayesianBridge
    from torchtree.distributions.ctmc_scale import CTMCScale
    from torchtree.distributions.deterministic_normal import DeterministicNormal
    from torchtree.distributions.scale_mixture import ScaleMixtureNormal

    cases = []
    # ---- CTMCScale.json_factory(id_, rate, tree)
    for rm, tm, tier in (('ref', 'ref', 'quick'), ('dict', 'dict', 'quick'), ('fdict', 'ref', 'thorough'), ('ref', 'dict', 'thorough')):
        rate = PA('rate', [0.02], rm, 0.0)
        targ, tenv, tnested, tdirect, tsym = time_tree_dep(tm)

        def mk_direct(rate=rate, tdirect=tdirect):
            reg = {}
            tree = tdirect(reg)
            o = CTMCScale('obj', rate.direct(reg), tree)
            reg['obj'] = o
            return o, reg

        cases.append(Case(
            'CTMCScale', f'rate={rm},tree={tm}', tier, env=tenv + rate.env(), nested=tnested + ([] if rm == 'ref' else ['rate']),
            spec=lambda rate=rate, targ=targ: CTMCScale.json_factory('obj', rate.arg(), copy.deepcopy(targ)),
            direct=mk_direct, sym=dict(rate.sym(), **tsym),
            holds=[('x', lambda o: o.x, 'rate'), ('tree_model', lambda o: o.tree_model, 'tree')],
            observe=lambda o, r: {'obj()': o()}, meta=lambda o, r: {'tree class': type(o.tree_model).__name__},
            fns=[CTMCScale.json_factory, CTMCScale.from_json, CTMCScale.__init__, CTMCScale._call],
            args=f'rate={rm}, tree={tm} (TimeTreeModel, 4 taxa)'))
    # ---- BayesianBridge.json_factory(id_, x, scale, alpha)
    for xm, sm, am, tier in (('ref', 'ref', 'ref', 'quick'), ('dict', 'dict', 'dict', 'quick'), ('ref', 'number', 'number', 'quick'),
                             ('dict', 'ref', 'number', 'thorough'), ('ref', 'number', 'dict', 'thorough'), ('fdict', 'fdict', 'ref', 'thorough')):
        x = PA('x', [0.3, -0.4], xm)
        sc = PA(None if sm == 'number' else 'scale', 1.5 if sm == 'number' else [1.5], sm, 0.0)
        al = PA(None if am == 'number' else 'alpha', 0.5 if am == 'number' else [0.5], am, 0.0)

        def mk_direct(x=x, sc=sc, al=al):
            reg = {}
            xo = x.direct(reg)
            so = torch.tensor(sc.values, dtype=xo.dtype, device=xo.device) if sc.mode == 'number' else sc.direct(reg)
            ao = torch.tensor(al.values, dtype=xo.dtype, device=xo.device) if al.mode == 'number' else al.direct(reg)
            o = BayesianBridge('obj', xo, so, alpha=ao)
            reg['obj'] = o
            return o, reg

        holds = [('x', lambda o: o.x, 'x')]
        if sm != 'number':
            holds.append(('scale', lambda o: o.scale, 'scale'))
        if am != 'number':
            holds.append(('alpha', lambda o: o.alpha, 'alpha'))
        cases.append(Case(
            'BayesianBridge', f'x={xm},scale={sm},alpha={am}', tier, env=x.env() + sc.env() + al.env(),
            nested=[p.id for p in (x, sc, al) if p.mode in ('dict', 'fdict')],
            spec=lambda x=x, sc=sc, al=al: BayesianBridge.json_factory('obj', x.arg(), sc.arg(), al.arg()),
            guard=lambda x=x, sc=sc, al=al: BayesianBridge.json_factory('obj', x.arg(), al.arg(), sc.arg()),
            direct=mk_direct, sym=dict(x.sym(), **sc.sym(), **al.sym()), holds=holds,
            observe=lambda o, r: {'obj()': o()},
            meta=lambda o, r: {'local_scale': o.local_scale, 'slab': o.slab, 'scale kind': type(o.scale).__name__,
                               'alpha kind': type(o.alpha).__name__},
            fns=[BayesianBridge.json_factory, BayesianBridge.from_json, BayesianBridge.__init__, BayesianBridge._call],
            args=f'x={xm}, scale={sc.arg() if sm in ("number", "ref") else "{scale}"}, alpha={al.arg() if am in ("number", "ref") else "{alpha}"}'))
    # ---- ScaleMixtureNormal.json_factory(id_, x, loc, global_scale, local_scale, slab=None)
    for xm, lm, gm, cm_, sl, tier in (('ref', 'number', 'ref', 'ref', None, 'quick'), ('dict', 'dict', 'dict', 'dict', 'dict', 'quick'),
                                      ('dict', 'number', 'fdict', 'fdict', None, 'quick'), ('ref', 'ref', 'dict', 'ref', 'ref', 'thorough'),
                                      ('ref', 'int', 'ref', 'dict', None, 'thorough'), ('dict', 'number', 'ref', 'ref', 'dict', 'thorough')):
        x = PA('x', [0.3, -0.4], xm)
        loc = PA(None, 0.25 if lm == 'number' else 1, 'number') if lm in ('number', 'int') else PA('loc', [0.25], lm)
        gs = PA('global', [1.5], gm, 0.0)
        ls = PA('local', [0.5, 0.7], cm_, 0.0)
        slab = None if sl is None else PA('slab', [2.0], sl, 0.0)
        ps = [x, loc, gs, ls] + ([slab] if slab else [])

        def mk_direct(x=x, loc=loc, gs=gs, ls=ls, slab=slab):
            reg = {}
            lo = float(loc.values) if loc.mode == 'number' else loc.direct(reg)
            o = ScaleMixtureNormal('obj', x.direct(reg), lo, gs.direct(reg), ls.direct(reg), None if slab is None else slab.direct(reg))
            reg['obj'] = o
            return o, reg

        def spec(x=x, loc=loc, gs=gs, ls=ls, slab=slab, shift=0.0):
            la = loc.arg() + shift if loc.mode == 'number' else loc.arg()
            if slab is None:
                return ScaleMixtureNormal.json_factory('obj', x.arg(), la, gs.arg(), ls.arg())
            return ScaleMixtureNormal.json_factory('obj', x.arg(), la, gs.arg(), ls.arg(), slab.arg())

        sym, env = {}, []
        for p_ in ps:
            sym.update(p_.sym())
            env += p_.env()
        holds = [('x', lambda o: o.x, 'x'), ('global scale', lambda o: o.gobal_scale, 'global'), ('local scale', lambda o: o.local_scale, 'local')]
        if loc.mode != 'number':
            holds.append(('loc', lambda o: o.loc, 'loc'))
        if slab is not None:
            holds.append(('slab', lambda o: o.slab, 'slab'))
        cases.append(Case(
            'ScaleMixtureNormal', f'x={xm},loc={lm},global={gm},local={cm_},slab={sl}', tier, env=env,
            nested=[p_.id for p_ in ps if p_.mode in ('dict', 'fdict')], spec=spec,
            guard=(lambda spec=spec: spec(shift=0.5)) if loc.mode == 'number' else None,
            direct=mk_direct, sym=sym, holds=holds, observe=lambda o, r: {'obj()': o()},
            meta=lambda o, r: {'loc kind': type(o.loc).__name__, 'slab kind': type(o.slab).__name__},
            fns=[ScaleMixtureNormal.json_factory, ScaleMixtureNormal.from_json, ScaleMixtureNormal.__init__, ScaleMixtureNormal._call],
            args=f'x={xm}, loc={loc.arg() if loc.mode in ("number", "ref") else "{loc}"}, global_scale={gm}, local_scale={cm_}, slab={sl}'))
    # ---- DeterministicNormal.json_factory(id_, loc, scale, x, shape)
    for lm, sm, xm, shape, tier in (('ref', 'ref', 'ref', [], 'quick'), ('dict', 'dict', 'dict', [3], 'quick'), ('dict', 'ref', 'xlist', [], 'quick'),
                                    ('ref', 'dict', 'dict', [2, 1], 'thorough'), ('fdict', 'fdict', 'ref', [3], 'thorough')):
        loc = PA('loc', [0.4, 0.2], lm, 0.0)  # positive: the vacuity guard swaps loc and scale
        sc = PA('scale', [1.5, 0.5], sm, 0.0)
        xs = [PA('x1', [0.3], 'dict'), PA('x2', [-0.4], 'ref')] if xm == 'xlist' else [PA('x', [0.3, -0.4], xm)]
        eshape = tuple(shape) + (2,)
        enames, _, evals = flat_names('eps', torch.linspace(-0.9, 1.1, int(torch.tensor(eshape).prod())).reshape(eshape).tolist())

        def xarg(xs=xs, xm=xm):
            return [p_.arg() for p_ in xs] if xm == 'xlist' else xs[0].arg()

        def mk_direct(loc=loc, sc=sc, xs=xs, xm=xm, shape=shape):
            reg = {}
            xo = [p_.direct(reg) for p_ in xs]
            o = DeterministicNormal('obj', loc.direct(reg), sc.direct(reg), xo if xm == 'xlist' else xo[0], torch.Size(shape))
            reg['obj'] = o
            return o, reg

        def inject(o, r, mk, enames=enames, eshape=eshape):
            if tuple(o.eps.shape) == eshape:  # the standard normal variates drawn at construction are the environment
                o.eps = mk(enames, eshape)

        def observe(o, r, xs=xs):
            out = {'obj()': o(), 'entropy()': o.entropy()}
            o.rsample()
            for p_ in xs:
                out[f'{p_.id} after rsample()'] = r[p_.id].tensor
            return out

        sym, env = {}, []
        for p_ in [loc, sc] + xs:
            sym.update(p_.sym())
            env += p_.env()
        cases.append(Case(
            'DeterministicNormal', f'loc={lm},scale={sm},x={xm},shape={shape}', tier, env=env,
            nested=[p_.id for p_ in [loc, sc] + xs if p_.mode in ('dict', 'fdict')],
            spec=lambda loc=loc, sc=sc, xarg=xarg, shape=shape: DeterministicNormal.json_factory('obj', loc.arg(), sc.arg(), xarg(), list(shape)),
            guard=lambda loc=loc, sc=sc, xarg=xarg, shape=shape: DeterministicNormal.json_factory('obj', sc.arg(), loc.arg(), xarg(), list(shape)),
            direct=mk_direct, sym=sym, inject=inject, extra=dict(zip(enames, evals)), observe=observe,
            holds=[('loc', lambda o: o.loc, 'loc'), ('scale', lambda o: o.scale, 'scale')] + ([] if xm == 'xlist' else [('x', lambda o: o.x, 'x')]),
            meta=lambda o, r: {'eps shape': tuple(o.eps.shape)},
            fns=[DeterministicNormal.json_factory, DeterministicNormal.from_json, DeterministicNormal.__init__, DeterministicNormal.rsample,
                 DeterministicNormal.log_prob],
            args=f'loc={lm}, scale={sm}, x={xm}, shape={shape}'))
    return cases


# ===================================================================== cases: SimpleClockModel
def clock_cases():
    """SimpleClockModel.json_factory(id_, tree_model, rate) (the only clock model with a factory)"""
    from torchtree.evolution.branch_model import SimpleClockModel

    cases = []
    for tm, rm, tier in (('ref', 'ref', 'quick'), ('dict', 'dict', 'quick'), ('ref', 'fdict', 'thorough'), ('dict', 'ref', 'thorough')):
        rate = PA('rate', [0.01, 0.02, 0.03, 0.04, 0.05, 0.06], rm, 0.0)
        targ, tenv, tnested, tdirect, tsym = time_tree_dep(tm)

        def mk_direct(rate=rate, tdirect=tdirect):
            reg = {}
            tree = tdirect(reg)
            o = SimpleClockModel('obj', rate.direct(reg), tree)
            reg['obj'] = o
            return o, reg

        cases.append(Case(
            'SimpleClockModel', f'tree={tm},rate={rm}', tier, env=tenv + rate.env(), nested=tnested + ([] if rm == 'ref' else ['rate']),
            spec=lambda rate=rate, targ=targ: SimpleClockModel.json_factory('obj', copy.deepcopy(targ), rate.arg()),
            direct=mk_direct, sym=rate.sym(),
            holds=[('rate parameter', lambda o: o._rates, 'rate'), ('tree', lambda o: o.tree, 'tree')],
            observe=lambda o, r: {'rates': o.rates}, meta=lambda o, r: {'tree class': type(o.tree).__name__, 'rates shape': tuple(o.rates.shape)},
            fns=[SimpleClockModel.json_factory, SimpleClockModel.from_json, SimpleClockModel.rates.fget],
            args=f'tree_model={tm} (TimeTreeModel, 4 taxa), rate={rm} (one rate per branch)'))
    return cases


# ===================================================================== cases: tree models
def tree_cases():
    """UnRootedTreeModel / TimeTreeModel / FlexibleTimeTreeModel / ReparameterizedTimeTreeModel .json_factory:
    the node parameter(s) as list of numbers (default id and *_id keyword), nested dict (hand-written and made by
    Parameter.json_factory with `full`, as the command line does), string reference; taxa as {name: date} dict, list of
    Taxon dicts, string reference (default and taxa_id keyword); keep_branch_lengths; dates that are heights and
    calendar years; for FlexibleTimeTreeModel also a TransformedParameter that refers back to the tree."""
    from torchtree.core.parameter import CatParameter, Parameter, TransformedParameter
    from torchtree.evolution.tree_height_transform import DifferenceNodeHeightTransform
    from torchtree.evolution.tree_model import ReparameterizedTimeTreeModel, TimeTreeModel, UnRootedTreeModel
    from torchtree.evolution.tree_model_flexible import FlexibleTimeTreeModel

    names = list(DATES0)
    cases = []

    def node_arg(mode, pid, default_id, idkw, values, full=None):
        """-> (argument, env, keywords, id the parameter ends up with)"""
        if mode == 'list':
            return list(values), [], {}, default_id
        if mode == 'list+id':
            return list(values), [], {idkw: pid}, pid
        if mode == 'dict':
            return {'id': pid, 'type': 'Parameter', 'tensor': list(values)}, [], {}, pid
        if mode == 'fdict':  # values must be constant: Parameter.json_factory(id, tensor=v, full=[n])
            return Parameter.json_factory(pid, **{'tensor': values[0], 'full': [len(values)]}), [], {}, pid
        return pid, [{'id': pid, 'type': 'Parameter', 'tensor': list(values)}], {}, pid

    # ---------------- UnRootedTreeModel.json_factory(id_, newick, branch_lengths, taxa, **kwargs)
    BL = [0.11, 0.12, 0.13, 0.14, 0.15]
    combos = [('list', 'dict', 'taxa', False, 'quick'), ('list+id', 'list', 'tx', False, 'quick'), ('dict', 'ref', 'taxa', False, 'quick'),
              ('fdict', 'ref', 'taxa', True, 'quick'), ('ref', 'dict', 'tx', True, 'quick'), ('list', 'list', 'taxa', True, 'thorough'),
              ('ref', 'ref', 'taxa', False, 'thorough'), ('dict', 'dict', 'taxa', True, 'thorough'), ('fdict', 'list', 'tx', False, 'thorough'),
              ('list+id', 'ref', 'taxa', True, 'thorough')]
    for bm, tm, tid, keep, tier in combos:
        vals = [0.1] * 5 if bm == 'fdict' else BL
        barg, benv, bkw, bid = node_arg(bm, 'tree.blens', 'branch_lengths', 'branch_lengths_id', vals)
        targ, tenv, tkw = taxa_arg(tm, DATES0, tid)
        kw = dict(bkw, **tkw)
        if keep:
            kw['keep_branch_lengths'] = True

        def mk_direct(bid=bid, vals=vals, tid=tid, tm=tm, keep=keep):
            reg = {}
            taxa = direct_taxa(reg, tid, DATES0, with_dates=(tm != 'dict'))  # the {name: date} form carries no dates here
            tree = dtree(NWK, names)
            reg[bid] = dparam(bid, list(vals))
            o = UnRootedTreeModel('obj', tree, taxa, reg[bid])
            if keep:
                reg[bid].tensor = torch.tensor(blens_of_newick(tree, len(names)))
            reg['obj'] = o
            return o, reg

        def spec(barg=barg, targ=targ, kw=kw, nwk=NWK):
            return UnRootedTreeModel.json_factory('obj', nwk, copy.deepcopy(barg), copy.deepcopy(targ), **kw)

        cases.append(Case(
            'UnRootedTreeModel', f'branch_lengths={bm},taxa={tm}' + (f'(taxa_id)' if tid != 'taxa' and tm != 'ref' else '') + (',keep' if keep else ''),
            tier, env=tenv + benv, nested=([] if bm == 'ref' else [bid]) + ([] if tm == 'ref' else [tid] + names),
            spec=spec, direct=mk_direct, sym={bid: (list(vals), 0.0, None)},
            # a tree whose newick string carries other branch lengths / the flag dropped: seen in the state after loading
            guard=None, holds=[('branch length parameter', lambda o: o._branch_lengths, bid)],
            observe=lambda o, r: {'branch_lengths()': o.branch_lengths()},
            meta=lambda o, r, tid=tid: taxa_meta(o, r, tid),
            sigkey=f'branch_lengths={bm},taxa={tm}' + (',keep' if keep else ''),
            fns=[UnRootedTreeModel.json_factory, UnRootedTreeModel.from_json, UnRootedTreeModel.__init__],
            args=f'newick={NWK}, branch_lengths={bm}, taxa={tm}, {kw}'))

    # ---------------- TimeTreeModel / FlexibleTimeTreeModel .json_factory(id_, newick, internal_heights, taxa, **kwargs)
    combos = [('list+id', 'dict', 'taxa', False, DATES0, 'quick'), ('list', 'list', 'tx', False, DATES0, 'quick'),
              ('dict', 'ref', 'taxa', True, DATES0, 'quick'), ('ref', 'dict', 'tx', False, DATESY, 'quick'),
              ('fdict', 'list', 'taxa', True, DATESY, 'thorough'), ('list+id', 'ref', 'taxa', True, DATES0, 'thorough'),
              ('ref', 'ref', 'taxa', False, DATES0, 'thorough'), ('dict', 'dict', 'taxa', False, DATESY, 'thorough'),
              ('ref', 'list', 'taxa', True, DATES0, 'thorough')]
    for klass in (TimeTreeModel, FlexibleTimeTreeModel):
        for hm, tm, tid, keep, dates, tier in combos:
            if klass is FlexibleTimeTreeModel and tier == 'quick' and hm in ('list', 'ref'):
                tier = 'thorough'
            vals = [2.5] * 3 if hm == 'fdict' else HEIGHTS
            harg, henv, hkw, hid = node_arg(hm, 'tree.heights', None, 'internal_heights_id', vals)
            targ, tenv, tkw = taxa_arg(tm, dates, tid)
            kw = dict(hkw, **tkw)
            if keep:
                kw['keep_branch_lengths'] = True

            def mk_direct(klass=klass, hid=hid, vals=vals, tid=tid, keep=keep, dates=dates, nwk=NWK):
                reg = {}
                taxa = direct_taxa(reg, tid, dates)
                tree = dtree(nwk, names)
                reg[hid] = dparam(hid, list(vals))
                o = klass('obj', tree, taxa, reg[hid])
                if keep:
                    reg[hid].tensor = torch.tensor(heights_of_newick(tree, dates))
                reg['obj'] = o
                return o, reg

            def spec(klass=klass, harg=harg, targ=targ, kw=kw, nwk=NWK):
                return klass.json_factory('obj', nwk, copy.deepcopy(harg), copy.deepcopy(targ), **kw)

            dn = 'heights' if dates is DATES0 else 'years'
            cases.append(Case(
                klass.__name__, f'internal_heights={hm},taxa={tm}' + ('(taxa_id)' if tid != 'taxa' and tm != 'ref' else '') + f',dates={dn}' + (',keep' if keep else ''),
                tier, env=tenv + henv, nested=([] if hm == 'ref' else [hid]) + ([] if tm == 'ref' else [tid] + names),
                spec=spec, guard=lambda spec=spec: spec(nwk=NWK_SWAPPED), direct=mk_direct, sym={hid: (list(vals), None, None)},
                holds=[('internal heights parameter', lambda o: o._internal_heights, hid)],
                observe=lambda o, r: {'branch_lengths()': o.branch_lengths(), 'node_heights': o.node_heights},
                meta=lambda o, r, tid=tid: dict(taxa_meta(o, r, tid), **{'sampling_times': o.sampling_times.tolist()}),
                sigkey=f'internal_heights={hm},taxa={tm},dates={dn}' + (',keep' if keep else ''),
                fns=[klass.json_factory, klass.from_json, TimeTreeModel.__init__, TimeTreeModel.branch_lengths, TimeTreeModel.node_heights.fget],
                args=f'newick={NWK}, internal_heights={hm}, taxa={tm} {"calendar years" if dates is DATESY else "heights"}, {kw}'))
    # FlexibleTimeTreeModel with a TransformedParameter that refers back to the (self-registering) tree
    for sm, tm, tier in (('dict', 'dict', 'quick'), ('ref', 'ref', 'thorough')):
        shifts = PA('tree.shifts', [0.5, 0.4, 1.0], sm, 0.0)
        ih = {'id': 'tree.heights', 'type': 'TransformedParameter',
              'transform': 'torchtree.evolution.tree_height_transform.DifferenceNodeHeightTransform',
              'x': shifts.arg(), 'parameters': {'tree_model': 'obj'}}
        targ, tenv, tkw = taxa_arg(tm, DATES0, 'taxa')

        def mk_direct(shifts=shifts, nwk=NWK):
            reg = {}
            taxa = direct_taxa(reg, 'taxa', DATES0)
            o = FlexibleTimeTreeModel('obj', dtree(nwk, names), taxa, None)
            sh = shifts.direct(reg)
            reg['tree.heights'] = TransformedParameter('tree.heights', sh, DifferenceNodeHeightTransform(o))
            o._internal_heights = reg['tree.heights']
            reg['obj'] = o
            return o, reg

        def spec(ih=ih, targ=targ, nwk=NWK):
            return FlexibleTimeTreeModel.json_factory('obj', nwk, copy.deepcopy(ih), copy.deepcopy(targ))

        cases.append(Case(
            'FlexibleTimeTreeModel', f'internal_heights=transformed({sm}),taxa={tm}', tier, env=tenv + shifts.env(),
            nested=['tree.heights'] + ([] if sm == 'ref' else ['tree.shifts']) + ([] if tm == 'ref' else ['taxa'] + names),
            spec=spec, guard=lambda spec=spec: spec(nwk=NWK_SWAPPED), direct=mk_direct, sym=shifts.sym(),
            holds=[('internal heights parameter', lambda o: o._internal_heights, 'tree.heights'),
                   ('tree of the height transform', lambda o: o._internal_heights.transform.tree, 'obj'),
                   ('shifts of the transformed parameter', lambda o: o._internal_heights.x, 'tree.shifts')],
            observe=lambda o, r: {'branch_lengths()': o.branch_lengths(), 'node_heights': o.node_heights,
                                  'log|det J| of the height parameter': r['tree.heights']()},
            meta=lambda o, r: dict(taxa_meta(o, r, 'taxa'), **{'sampling_times': o.sampling_times.tolist()}),
            fns=[FlexibleTimeTreeModel.json_factory, FlexibleTimeTreeModel.from_json, TransformedParameter.from_json,
                 DifferenceNodeHeightTransform._call],
            args=f'newick={NWK}, internal_heights=TransformedParameter(DifferenceNodeHeightTransform(tree_model="obj"), x={sm}), taxa={tm}'))

    # ---------------- ReparameterizedTimeTreeModel.json_factory(id_, newick, taxa, ratios, root_height, shifts, **kwargs)
    combos = [('ratios', 'list', 'dict', 'taxa', False, DATES0, 'quick'), ('ratios', 'list+id', 'list', 'tx', True, DATES0, 'quick'),
              ('ratios', 'fdict', 'ref', 'taxa', False, DATES0, 'quick'), ('ratios', 'ref', 'dict', 'taxa', False, DATESY, 'quick'),
              ('shifts', 'list', 'ref', 'taxa', False, DATES0, 'quick'), ('shifts', 'fdict', 'ref', 'taxa', True, DATES0, 'quick'),
              ('shifts', 'dict', 'dict', 'tx', False, DATESY, 'quick'),
              ('ratios', 'dict', 'ref', 'taxa', True, DATESY, 'thorough'), ('ratios', 'fdict', 'ref', 'taxa', True, DATES0, 'thorough'),
              ('ratios', 'ref', 'list', 'taxa', True, DATES0, 'thorough'), ('shifts', 'ref', 'list', 'taxa', True, DATES0, 'thorough'),
              ('shifts', 'list+id', 'dict', 'taxa', True, DATESY, 'thorough'), ('shifts', 'ref', 'ref', 'taxa', False, DATES0, 'thorough')]
    for par, pm, tm, tid, keep, dates, tier in combos:
        targ, tenv, tkw = taxa_arg(tm, dates, tid)
        kw = dict(tkw)
        env = list(tenv)
        if keep:
            kw['keep_branch_lengths'] = True
        if par == 'ratios':
            rv = [0.1, 0.1] if pm == 'fdict' else [0.5, 0.4]
            rarg, renv, rkw, rid = node_arg(pm, 'tree.ratios', 'ratios', 'ratios_id', rv)
            harg, henv, hkw, hid = node_arg('dict' if pm == 'fdict' else pm, 'tree.root_height', 'root_height', 'root_height_id', [3.0])
            kw.update(rkw)
            kw.update(hkw)
            env += renv + henv
            pargs = dict(ratios=rarg, root_height=harg)
            sym = {rid: (rv, 0.0, 1.0), hid: ([3.0], 1.0, None)}
            pids = [rid, hid]
        else:
            sv = [0.1, 0.1, 0.1] if pm == 'fdict' else [0.5, 0.4, 1.0]
            sarg, senv, skw, sid = node_arg(pm, 'tree.shifts', 'shifts', 'shifts_id', sv)
            kw.update(skw)
            env += senv
            pargs = dict(shifts=sarg)
            sym = {sid: (sv, 0.0, None)}
            pids = [sid]

        def mk_direct(par=par, sym=sym, pids=pids, tid=tid, keep=keep, dates=dates, nwk=NWK):
            reg = {}
            taxa = direct_taxa(reg, tid, dates)
            tree = dtree(nwk, names)
            for k in pids:
                reg[k] = dparam(k, list(sym[k][0]))
            if par == 'ratios':
                holder = CatParameter(None, [reg[pids[0]], reg[pids[1]]], dim=-1)
                o = ReparameterizedTimeTreeModel('obj', tree, taxa, holder)
            else:
                holder = reg[pids[0]]
                o = ReparameterizedTimeTreeModel('obj', tree, taxa, shifts=holder)
            if keep:  # heights implied by the newick string (own pass), mapped back by the model's own transform
                holder.tensor = o.transform.inv(torch.tensor(heights_of_newick(tree, dates)))
            reg['obj'] = o
            return o, reg

        def spec(targ=targ, pargs=pargs, kw=kw, nwk=NWK):
            return ReparameterizedTimeTreeModel.json_factory('obj', nwk, copy.deepcopy(targ), **copy.deepcopy(pargs), **kw)

        if par == 'ratios':
            holds = [('ratios (first part of the concatenated parameter)', lambda o: list(o._internal_heights._parameter_container.params())[0], pids[0]),
                     ('root height (second part of the concatenated parameter)', lambda o: list(o._internal_heights._parameter_container.params())[1], pids[1])]
        else:
            holds = [('shifts parameter', lambda o: o._internal_heights, pids[0])]
        dn = 'heights' if dates is DATES0 else 'years'
        cases.append(Case(
            'ReparameterizedTimeTreeModel', f'{par}={pm},taxa={tm}' + ('(taxa_id)' if tid != 'taxa' and tm != 'ref' else '') + f',dates={dn}' + (',keep' if keep else ''),
            tier, env=env, nested=([] if pm == 'ref' else pids) + ([] if tm == 'ref' else [tid] + names),
            spec=spec, guard=lambda spec=spec: spec(nwk=NWK_SWAPPED), direct=mk_direct, sym=sym, holds=holds,
            observe=lambda o, r: {'branch_lengths()': o.branch_lengths(), 'node_heights': o.node_heights, 'obj() = log|det J|': o()},
            meta=lambda o, r, tid=tid: dict(taxa_meta(o, r, tid), **{'sampling_times': o.sampling_times.tolist(),
                                                                     'transform': type(o.transform).__name__}),
            sigkey=f'{par}={pm},taxa={tm},dates={dn}' + (',keep' if keep else ''),
            fns=[ReparameterizedTimeTreeModel.json_factory, ReparameterizedTimeTreeModel.from_json, ReparameterizedTimeTreeModel.__init__,
                 ReparameterizedTimeTreeModel._call, ReparameterizedTimeTreeModel.update_node_heights],
            args=f'newick={NWK}, {par}={pm}, taxa={tm} {"calendar years" if dates is DATESY else "heights"}, {kw}'))
    return cases


# MORE CASES BELOW


# ===================================================================== entry points
FAMILIES = ['parameter_cases', 'view_cases', 'distribution_cases', 'prior_cases', 'clock_cases', 'tree_cases']


def all_cases():
    out = []
    for f in FAMILIES:
        fn = globals().get(f)
        if fn is not None:
            out += fn()
    names = [c.name for c in out]
    assert len(names) == len(set(names)), [n for n in names if names.count(n) > 1]
    return out


def select(tier):
    import re

    cs = [c for c in all_cases() if tier == 'thorough' or c.tier == 'quick']
    only = os.environ.get('C13F_ONLY')
    if only:
        cs = [c for c in cs if re.search(only, c.name)]
    return cs


def run_task(task, tr):
    by = {c.name: c for c in all_cases()}
    for name in task:
        try:
            run_case(by[name], tr)
        except Exception as e:  # noqa
            import traceback

            tr.inconc(f'{name}: raised {type(e).__name__}: {e}\n' + traceback.format_exc()[-800:])


def run(chk):
    """called from checks/C13.py (both tiers) and from this file's own __main__"""
    register()
    cs = select(chk.tier)
    tot = chk.total
    fam = {}
    for c in cs:
        fam.setdefault(c.cls, []).append(c.variant)
    tot.bounds['json_factory: factories and number of argument combinations'] = {k: len(v) for k, v in fam.items()}
    tot.bounds['json_factory: argument combinations'] = (
        'Parameter: tensor (scalar / list / nested list / int list) | full (list size, 2-d size, int size) + tensor | full_like + '
        'tensor | zeros / ones (list, int size) | zeros_like / ones_like | eye (int, [n, m]) | eye_like; every *_like as string '
        'reference (1-d, 2-d) and nested dict; each with and without dtype, tensor also with device=cpu.  '
        'ViewParameter: x as reference / nested dict (1-d base of 4, 2-d base 2x3), indices int, a:b, a:, :b, ::k, a:b:k, ::-1, '
        'a:b:-1, a::-1, -a:, list of positions.  '
        'Distribution: Normal with x in {reference, nested dict, list of two parameters} x loc, scale in {reference, nested dict, '
        'number, list of numbers} (quick: 6 of the 36), nested dicts made by Parameter.json_factory, Cauchy with numbers (as the '
        'CLI), LogNormal, Gamma, Exponential, parameters omitted.  CTMCScale: rate x tree (TimeTreeModel, 4 taxa) in {reference, '
        'nested dict}; the nested tree is itself made by TimeTreeModel.json_factory.  BayesianBridge: x, scale, alpha in '
        '{reference, nested dict, number}.  ScaleMixtureNormal: loc number / int / parameter, scales as reference / dict / '
        'Parameter.json_factory dict, with and without slab.  DeterministicNormal: loc / scale / x as reference / dict, x as '
        'list, shape [], [3], [2,1]; the variates drawn at construction are replaced by the same symbols on both sides.  '
        'SimpleClockModel: tree x rate in {reference, nested dict}.  UnRootedTreeModel / TimeTreeModel / FlexibleTimeTreeModel '
        '/ ReparameterizedTimeTreeModel (ratios + root_height, shifts): node parameters as list (default id and *_id keyword), '
        'nested dict, Parameter.json_factory(full=..) dict, reference; taxa as {name: date}, list of Taxon dicts, reference, '
        'taxa_id keyword; keep_branch_lengths; dates as heights and as calendar years; FlexibleTimeTreeModel also with a '
        'TransformedParameter(DifferenceNodeHeightTransform) that refers back to the tree; one 4-taxon newick string '
        '((A,B),(C,D)) with branch lengths, heterochronous tips')
    tot.bounds['json_factory: symbolic inputs'] = (
        'every element of every parameter that has an id (x, loc, scale, rate, heights / ratios / root height / shifts / branch '
        'lengths, view base, eps of DeterministicNormal), <= 8 symbols per case; domains: scale-like > 0, ratios in (0,1), '
        'positive support of LogNormal / Gamma / Exponential; python numbers and lists given to a factory stay constants')
    tot.assumptions |= {
        'json_factory: the oracle is the directly constructed object of the same class (same evaluation code on both sides): the '
        'clause is about the wiring factory -> specification -> loader -> object, not about the density formulas (C08/C10/C20)',
        'json_factory: well-definedness (denominators != 0, log / sqrt arguments in their domain) is NOT proved here: both sides '
        'run the same operations; equalities hold wherever the expressions are defined',
        'json_factory: for Parameter.json_factory the loaded tensor is a constant; its comparison with the direct tensor folds to '
        'true / false before the solver (trivial obligations); shape, dtype, requires_grad, device, class are compared concretely; '
        'the direct tensor follows the documentation of Parameter.from_json (size: int or list, dtype: desired type of the result)',
        'json_factory: keep_branch_lengths: the expected initial heights / branch lengths are computed from the newick string by '
        'this file (python floats, own post-order pass); for ReparameterizedTimeTreeModel they are mapped to ratios / shifts with '
        'the inverse transform of the directly constructed model',
        'json_factory: keywords a factory does not read are outside (Parameter.json_factory silently drops nn, requires_grad, arange, '
        'rand, dimension; lower / upper bounds are `_`-prefixed CLI annotations removed by remove_comments, not factory keywords); '
        'StrictClockModel has no json_factory (SimpleClockModel has); BayesianBridge.json_factory cannot emit local_scale / slab; '
        'Distribution with x given as a list AND numeric parameters (from_json reads x.dtype) and a float slab of '
        'ScaleMixtureNormal fail identically with and without the factory and are not counted',
        'json_factory: device is cpu only; to()/cuda() are not exercised',
    }
    tot.stubs.add('json_factory clause: no contract stubs (exp / log / lgamma / pow are the engine\'s uninterpreted functions)')
    names = [c.name for c in cs]
    nchunks = min(len(names), 32) or 1
    pmap(run_task, [names[i::nchunks] for i in range(nchunks)], tot)


def body(chk):
    chk.explanation = EXPLANATION
    run(chk)


if __name__ == '__main__':
    sys.exit(main_for(PID, body, level='other'))
