"""C13, sharing clause on the real derived-parameter classes: an update made through one holder of a shared id is
observed by every other holder, for every kind of holder (tensor engine; called from checks/C13.py in both tiers,
own __main__: `./check C13_sharing --tier quick`).

Specification shapes: ONE parameter id `p` (4 elements) is referred to, by its id string, by several holders of
different kinds at once (KINDS below: Distribution on p / with p as loc / as scale, TransformedParameter, ViewParameter
with int / slice / negative-step slice / index-list indices, a second overlapping ViewParameter, CatParameter,
JointDistributionModel over the callable holders of the shape, HKY / StrictClockModel / CTMCScale holding a view of p;
thorough tier also holders of nesting depth 2).  Every shape is loaded by the real remove_comments / expand_plates /
process_objects, element by element, as torchtree.py does.

History per shape and write path: all parameters symbolic -> EVERY holder is evaluated once (every cache is filled) ->
ONE update (thorough: also two updates through different holders) with FRESH symbols through a holder that has a write
path (p.tensor = v, in-place write + fire_parameter_changed, view.tensor = v, transformed.tensor = v in constrained
space, cat.tensor = v, Distribution.rsample / sample into p) -> every holder is read again.  Obligations, decided by the
solver for all values (relational encoding on shared symbols; expressions that are identical after hash-consing are
closed without a solver call):
  (1) the writer reads back what was written (the update happened),
  (2) every observable of every holder == the same observable of the SAME specification freshly loaded and given the
      current values of all its Parameter objects (a holder that kept a copy, missed the notification or was notified
      through the wrong object still mentions the symbols from before the update),
  (3) vacuity guard (`sat` expected): for every holder whose declared read set meets the declared write set of the
      update, value before the update == value of the fresh load after it is refutable, i.e. the update CAN change it.
Concretely: every holder's reference `is` the registry instance, the registry instance of `p` is never replaced, and the
holders without a cache of their own (views, CatParameter, TransformedParameter, HKY, StrictClockModel) notify their
listeners after every update that meets their read set.
A `sat` / a concrete fact that fails is replayed on the unmodified classes with plain tensors (fresh load as oracle)
before it is reported.
"""
from __future__ import annotations

import copy
import itertools
import logging
import os
import re
import sys
import traceback

HERE = os.path.dirname(os.path.abspath(__file__))
for _p in (os.path.dirname(HERE), HERE):
    if _p not in sys.path:
        sys.path.insert(0, _p)

import torch  # noqa: E402

import common as cm  # noqa: E402
from symtorch import SymTensor, from_ids, new_vars, tracing  # noqa: E402
from symtorch.explore import _to_float, prove  # noqa: E402
from symtorch.expr import EngineError  # noqa: E402
from symtorch.tensor import UnsupportedOp  # noqa: E402
from vlib.core import main_for, pmap  # noqa: E402

PID = 'C13'
SIG = 'sharing'
RTOL = 1e-9
EXPLANATION = (
    'sharing clause on the real classes (tensor engine, checks/C13_sharing.py): specification shapes in which one parameter id '
    'is held by reference by two (thorough: three) holders of different kinds at once are loaded by the real process_objects; '
    'all parameters symbolic, every holder evaluated once, then one (thorough: also two) update(s) with fresh symbols through '
    'each holder that has a write path; the solver decides, for all values, that the writer reads back what was written and '
    'that every observable of every holder equals that of the same specification freshly loaded at the current parameter '
    'values (identical hash-consed expressions are closed syntactically); solver vacuity guard per dependent holder (the update '
    'can change its value: sat); instance identity of every held reference and notification of the cache-less holders are '
    'checked concretely; counterexamples are replayed on plain tensors')

logging.disable(logging.CRITICAL)

P = 'p'
P0 = [0.3, 0.7, 1.1, 1.9]
ALL = frozenset(range(4))
RNG = (0.05, 6.0)      # p, fresh values written through p / a view / a CatParameter / a draw
RNG_T = (1.05, 6.0)    # fresh values written through a TransformedParameter(exp): constrained space, log(v) > 0 so that p stays
#                        a valid scale / positive variate for the other holders of the shape


# ===================================================================== loading as torchtree.py does
def register():
    import C13_factory

    C13_factory.register()


def load(spec):
    """-> registry.  One JSON document = list of top-level elements (torchtree.main)"""
    from torchtree.core.utils import expand_plates, process_objects, remove_comments

    data = copy.deepcopy(list(spec))
    remove_comments(data)
    expand_plates(data)
    dic = {}
    for el in data:
        process_objects(el, dic)
    return dic


def par(id_, values):
    return {'id': id_, 'type': 'Parameter', 'tensor': list(values)}


def view(id_, indices, parameter=P):
    return {'id': id_, 'type': 'ViewParameter', 'parameter': parameter, 'indices': indices}


def normal(id_, x, loc, scale):
    return {'id': id_, 'type': 'Distribution', 'distribution': 'torch.distributions.Normal', 'x': x,
            'parameters': {'loc': loc, 'scale': scale}}


TREE_PRE = [('taxa', cm.taxa_json(3)), ('tree', cm.unrooted_tree_json(((0, 1), 2), 3))]


# ===================================================================== descriptors
class Obs:
    """one observable of a holder.  reads: the elements of p (ints) / other parameter ids it is a function of"""

    def __init__(self, name, fn, reads, hsig):
        self.name, self.fn, self.reads, self.hsig = name, fn, frozenset(reads), hsig


class Write:
    """one write path.  how: assign (target.tensor = v) | inplace (p.tensor[...] = v + fire) | inplace-part
    (p.tensor[1:3] = v + fire) | rsample | sample (target.rsample() with the torch draw replaced by v)"""

    def __init__(self, name, target, how, writes, wsig, rng=RNG, reads_back=True):
        self.name, self.target, self.how, self.writes, self.wsig, self.rng = name, target, how, frozenset(writes), wsig, rng
        self.reads_back = reads_back  # False: the written value is over-determined (p occurs twice in the written holder)

    def shape(self, D):
        o = D[self.target]
        if self.how in ('rsample', 'sample'):
            return tuple(o.x.tensor.shape)
        if self.how == 'inplace-part':
            return (2,)
        return tuple(o.tensor.shape)

    def apply(self, D, v):
        o = D[self.target]
        if self.how == 'assign':
            o.tensor = v
        elif self.how == 'inplace':
            o.tensor[...] = v  # optimiser-style update of the tensor the parameter holds
            o.fire_parameter_changed()
        elif self.how == 'inplace-part':
            o.tensor[1:3] = v
            o.fire_parameter_changed()
        else:
            meth = self.how
            klass = o.dist
            own = meth in klass.__dict__
            saved = klass.__dict__.get(meth)
            try:
                setattr(klass, meth, lambda self_, sample_shape=torch.Size(): v)
                getattr(o, meth)()
            finally:
                if own:
                    setattr(klass, meth, saved)
                else:
                    delattr(klass, meth)

    def readback(self, D):
        o = D[self.target]
        if self.how in ('rsample', 'sample'):
            return o.x.tensor
        if self.how == 'inplace-part':
            return o.tensor[1:3]
        return o.tensor


class Kind:
    def __init__(self, name, spec, obs, refs, writes=(), sym=None, probe=None, callable_id=None, pre=(), depth=1, text=''):
        self.name, self.spec, self.obs, self.refs, self.writes = name, spec, list(obs), refs, list(writes)
        self.sym = sym or {}            # id -> (witness, lo, hi): further Parameter objects that are made symbolic
        self.probe = probe              # (registry id, 'parameter' | 'model', read set): a cache-less relay
        self.callable_id = callable_id  # id listed by the JointDistributionModel of the shape
        self.pre, self.depth, self.text = list(pre), depth, text


def _view_kind(name, indices, reads, idx_name, depth=1):
    return Kind(
        name, lambda others: [view(name, copy.deepcopy(indices))],
        [Obs(f'{name}.tensor', lambda D: D[name].tensor, reads, f'ViewParameter[{idx_name}].tensor')],
        lambda D: [(f'{name}.parameter', D[name].parameter, P)],
        [Write(f'{name}.tensor = v', name, 'assign', reads, f'ViewParameter[{idx_name}].tensor setter')],
        probe=(name, 'parameter', reads), depth=depth,
        text=f'ViewParameter(parameter="p", indices={indices!r})')


def kinds():
    K = []
    K.append(Kind(
        'dist_x', lambda o: [normal('dist_x', P, par('dist_x.loc', [0.4]), par('dist_x.scale', [0.5]))],
        [Obs('dist_x()', lambda D: D['dist_x'](), ALL, 'Distribution(x=p)()')],
        lambda D: [('dist_x.x', D['dist_x'].x, P)],
        [Write('dist_x.rsample()', 'dist_x', 'rsample', ALL, 'Distribution.rsample into x'),
         Write('dist_x.sample()', 'dist_x', 'sample', ALL, 'Distribution.sample into x')],
        sym={'dist_x.loc': ([0.4], None, None), 'dist_x.scale': ([0.5], 0.0, None)}, callable_id='dist_x',
        text='Distribution(Normal, x="p", loc, scale own)'))
    K.append(Kind(
        'dist_loc', lambda o: [normal('dist_loc', par('dist_loc.x', [0.1, -0.2, 0.35, 0.4]), P, par('dist_loc.scale', [0.5]))],
        [Obs('dist_loc()', lambda D: D['dist_loc'](), ALL, 'Distribution(loc=p)()')],
        lambda D: [('dist_loc.dict_parameters["loc"]', D['dist_loc'].dict_parameters['loc'], P),
                   ('the parameter dist_loc listens to (distribution_parameters container)',
                    D['dist_loc'].distribution_parameters._parameters.get('p'), P)],
        sym={'dist_loc.x': ([0.1, -0.2, 0.35, 0.4], None, None), 'dist_loc.scale': ([0.5], 0.0, None)}, callable_id='dist_loc',
        text='Distribution(Normal, x own, loc="p", scale own)'))
    K.append(Kind(
        'dist_scale', lambda o: [normal('dist_scale', par('dist_scale.x', [0.15, 0.2, -0.3, 0.45]), par('dist_scale.loc', [0.25]), P)],
        [Obs('dist_scale()', lambda D: D['dist_scale'](), ALL, 'Distribution(scale=p)()')],
        lambda D: [('dist_scale.dict_parameters["scale"]', D['dist_scale'].dict_parameters['scale'], P),
                   ('the parameter dist_scale listens to (distribution_parameters container)',
                    D['dist_scale'].distribution_parameters._parameters.get('p'), P)],
        sym={'dist_scale.x': ([0.15, 0.2, -0.3, 0.45], None, None), 'dist_scale.loc': ([0.25], None, None)}, callable_id='dist_scale',
        text='Distribution(Normal, x own, loc own, scale="p")'))
    K.append(Kind(
        'transformed', lambda o: [{'id': 'transformed', 'type': 'TransformedParameter', 'transform': 'torch.distributions.ExpTransform', 'x': P}],
        [Obs('transformed.tensor', lambda D: D['transformed'].tensor, ALL, 'TransformedParameter.tensor'),
         Obs('transformed() [log-Jacobian]', lambda D: D['transformed'](), ALL, 'TransformedParameter()')],
        lambda D: [('transformed.x', D['transformed'].x, P)],
        [Write('transformed.tensor = v', 'transformed', 'assign', ALL, 'TransformedParameter.tensor setter', RNG_T)],
        probe=('transformed', 'parameter', ALL), callable_id='transformed',
        text='TransformedParameter(ExpTransform, x="p")'))
    K.append(_view_kind('view_int', 1, {1}, 'int'))
    K.append(_view_kind('view_slice', '1:3', {1, 2}, 'slice'))
    K.append(_view_kind('view_negstep', '3:0:-1', {1, 2, 3}, 'negative-step slice'))
    K.append(_view_kind('view_list', [0, 2], {0, 2}, 'index list'))
    K.append(_view_kind('view_slice2', '2:4', {2, 3}, 'slice'))
    K.append(Kind(
        'cat', lambda o: [{'id': 'cat', 'type': 'CatParameter', 'parameters': [P, par('cat.q', [2.5, 3.5])], 'dim': -1}],
        [Obs('cat.tensor', lambda D: D['cat'].tensor, ALL | {'cat.q'}, 'CatParameter.tensor')],
        lambda D: [('first parameter of cat', list(D['cat']._parameter_container.params())[0], P)],
        [Write('cat.tensor = v', 'cat', 'assign', ALL | {'cat.q'}, 'CatParameter.tensor setter')],
        sym={'cat.q': ([2.5, 3.5], 0.0, None)}, probe=('cat', 'parameter', ALL | {'cat.q'}),
        text='CatParameter(["p", q own], dim=-1)'))
    K.append(Kind(
        'joint', lambda others: [{'id': 'joint', 'type': 'JointDistributionModel', 'distributions': [
            {'id': 'joint.d', 'type': 'Distribution', 'distribution': 'torch.distributions.Exponential', 'x': P,
             'parameters': {'rate': par('joint.d.rate', [1.5])}}] + [k.callable_id for k in others if k.callable_id]}],
        [Obs('joint()', lambda D: D['joint'](), ALL, 'JointDistributionModel()')],
        lambda D: [('joint.d.x', D['joint.d'].x, P)] + [
            (f'member {m.id} of joint', m, m.id) for m in list(D['joint']._distributions.models()) + list(D['joint']._distributions.params())],
        sym={'joint.d.rate': ([1.5], 0.0, None)},
        text='JointDistributionModel([Distribution(Exponential, x="p"), <ids of the callable holders of the shape>])'))
    K.append(Kind(
        'hky', lambda o: [{'id': 'hky', 'type': 'HKY', 'kappa': view('hky.kappa', '0:1'), 'frequencies': par('hky.freqs', [0.1, 0.2, 0.3, 0.4])}],
        [Obs('hky.q()', lambda D: D['hky'].q(), {0}, 'HKY(kappa=view of p).q()')],
        lambda D: [('hky._kappa', D['hky']._kappa, 'hky.kappa'), ('hky.kappa.parameter', D['hky.kappa'].parameter, P)],
        [Write('hky.kappa.tensor = v', 'hky.kappa', 'assign', {0}, 'ViewParameter[slice].tensor setter')],
        probe=('hky', 'model', {0}), text='HKY(kappa=ViewParameter("p", "0:1"), frequencies own)'))
    K.append(Kind(
        'clock', lambda o: [{'id': 'clock', 'type': 'StrictClockModel', 'tree_model': 'tree', 'rate': view('clock.rate', '3:4')}],
        [Obs('clock.rates', lambda D: D['clock'].rates, {3}, 'StrictClockModel(rate=view of p).rates')],
        lambda D: [('clock._rates', D['clock']._rates, 'clock.rate'), ('clock.rate.parameter', D['clock.rate'].parameter, P),
                   ('clock.tree', D['clock'].tree, 'tree')],
        [Write('clock.rate.tensor = v', 'clock.rate', 'assign', {3}, 'ViewParameter[slice].tensor setter')],
        probe=('clock', 'model', {3}), pre=TREE_PRE, text='StrictClockModel(rate=ViewParameter("p", "3:4"), tree_model="tree")'))
    K.append(Kind(
        'ctmc_scale', lambda o: [{'id': 'ctmc_scale', 'type': 'CTMCScale', 'x': view('ctmc_scale.x', '2:3'), 'tree_model': 'tree'}],
        [Obs('ctmc_scale()', lambda D: D['ctmc_scale'](), {2}, 'CTMCScale(x=view of p)()')],
        lambda D: [('ctmc_scale.x', D['ctmc_scale'].x, 'ctmc_scale.x'), ('ctmc_scale.x.parameter', D['ctmc_scale.x'].parameter, P),
                   ('ctmc_scale.tree_model', D['ctmc_scale'].tree_model, 'tree')],
        [Write('ctmc_scale.x.tensor = v', 'ctmc_scale.x', 'assign', {2}, 'ViewParameter[slice].tensor setter')],
        callable_id='ctmc_scale', pre=TREE_PRE, text='CTMCScale(x=ViewParameter("p", "2:3"), tree_model="tree") [cached model holding a view]'))
    # ------------------------------------------------------------------ nesting depth 2 (thorough tier)
    K.append(Kind(
        'dist_view', lambda o: [normal('dist_view', view('dist_view.x', '0:2'), par('dist_view.loc', [0.4]), par('dist_view.scale', [0.75]))],
        [Obs('dist_view()', lambda D: D['dist_view'](), {0, 1}, 'Distribution(x=view of p)()')],
        lambda D: [('dist_view.x', D['dist_view'].x, 'dist_view.x'), ('dist_view.x.parameter', D['dist_view.x'].parameter, P)],
        [Write('dist_view.rsample()', 'dist_view', 'rsample', {0, 1}, 'Distribution.rsample into a view')],
        callable_id='dist_view', depth=2, text='Distribution(Normal, x=ViewParameter("p", "0:2"))'))
    K.append(Kind(
        'transformed_view', lambda o: [{'id': 'transformed_view', 'type': 'TransformedParameter', 'transform': 'torch.distributions.ExpTransform',
                                        'x': view('transformed_view.x', '1:3')}],
        [Obs('transformed_view.tensor', lambda D: D['transformed_view'].tensor, {1, 2}, 'TransformedParameter(x=view of p).tensor'),
         Obs('transformed_view() [log-Jacobian]', lambda D: D['transformed_view'](), {1, 2}, 'TransformedParameter(x=view of p)()')],
        lambda D: [('transformed_view.x', D['transformed_view'].x, 'transformed_view.x'),
                   ('transformed_view.x.parameter', D['transformed_view.x'].parameter, P)],
        [Write('transformed_view.tensor = v', 'transformed_view', 'assign', {1, 2}, 'TransformedParameter.tensor setter (x = view)', RNG_T)],
        probe=('transformed_view', 'parameter', {1, 2}), callable_id='transformed_view', depth=2,
        text='TransformedParameter(ExpTransform, x=ViewParameter("p", "1:3"))'))
    K.append(Kind(
        'dist_transformed', lambda o: [{'id': 'dist_transformed', 'type': 'Distribution', 'distribution': 'torch.distributions.LogNormal',
                                        'x': {'id': 'dist_transformed.x', 'type': 'TransformedParameter',
                                              'transform': 'torch.distributions.ExpTransform', 'x': P},
                                        'parameters': {'loc': par('dist_transformed.loc', [0.4]), 'scale': par('dist_transformed.scale', [0.8])}}],
        [Obs('dist_transformed()', lambda D: D['dist_transformed'](), ALL, 'Distribution(x=transformed p)()')],
        lambda D: [('dist_transformed.x', D['dist_transformed'].x, 'dist_transformed.x'), ('dist_transformed.x.x', D['dist_transformed.x'].x, P)],
        [Write('dist_transformed.rsample()', 'dist_transformed', 'rsample', ALL, 'Distribution.rsample into a TransformedParameter', RNG_T)],
        callable_id='dist_transformed', depth=2, text='Distribution(LogNormal, x=TransformedParameter(ExpTransform, x="p"))'))
    K.append(Kind(
        'cat_view', lambda o: [{'id': 'cat_view', 'type': 'CatParameter', 'parameters': [view('cat_view.v', '2:4'), P], 'dim': -1}],
        [Obs('cat_view.tensor', lambda D: D['cat_view'].tensor, ALL, 'CatParameter([view of p, p]).tensor')],
        lambda D: [('second parameter of cat_view', list(D['cat_view']._parameter_container.params())[1], P),
                   ('cat_view.v.parameter', D['cat_view.v'].parameter, P)],
        [Write('cat_view.tensor = v', 'cat_view', 'assign', ALL, 'CatParameter.tensor setter (view of p and p)', reads_back=False)],
        probe=('cat_view', 'parameter', ALL), depth=2, text='CatParameter([ViewParameter("p", "2:4"), "p"], dim=-1)'))
    K.append(Kind(
        'view_transformed', lambda o: [view('view_transformed', '-1:', {'id': 'view_transformed.t', 'type': 'TransformedParameter',
                                                                       'transform': 'torch.distributions.ExpTransform', 'x': P})],
        [Obs('view_transformed.tensor', lambda D: D['view_transformed'].tensor, {3}, 'ViewParameter(of transformed p).tensor')],
        lambda D: [('view_transformed.parameter', D['view_transformed'].parameter, 'view_transformed.t'),
                   ('view_transformed.t.x', D['view_transformed.t'].x, P)],
        probe=('view_transformed', 'parameter', {3}), depth=2,
        text='ViewParameter(TransformedParameter(ExpTransform, x="p"), "-1:") as the command line writes it; read only'))
    K.append(Kind(
        'view_view', lambda o: [view('view_view', '0:2', view('view_view.inner', '1:4'))],
        [Obs('view_view.tensor', lambda D: D['view_view'].tensor, {1, 2}, 'ViewParameter(of a view of p).tensor')],
        lambda D: [('view_view.parameter', D['view_view'].parameter, 'view_view.inner'), ('view_view.inner.parameter', D['view_view.inner'].parameter, P)],
        [Write('view_view.tensor = v', 'view_view', 'assign', {1, 2}, 'ViewParameter[slice].tensor setter (view of a view)')],
        probe=('view_view', 'parameter', {1, 2}), depth=2, text='ViewParameter(ViewParameter("p", "1:4"), "0:2")'))
    K.append(Kind(
        'view_viewlist', lambda o: [view('view_viewlist', '0:2', view('view_viewlist.inner', [1, 2, 3]))],
        [Obs('view_viewlist.tensor', lambda D: D['view_viewlist'].tensor, {1, 2}, 'ViewParameter(of an index-list view of p).tensor')],
        lambda D: [('view_viewlist.parameter', D['view_viewlist'].parameter, 'view_viewlist.inner'),
                   ('view_viewlist.inner.parameter', D['view_viewlist.inner'].parameter, P)],
        [Write('view_viewlist.tensor = v', 'view_viewlist', 'assign', {1, 2}, 'ViewParameter[slice].tensor setter (view of an index-list view)')],
        probe=('view_viewlist', 'parameter', {1, 2}), depth=2, text='ViewParameter(ViewParameter("p", [1, 2, 3]), "0:2")'))
    K.append(Kind(
        'dist_list', lambda o: [normal('dist_list', [P, par('dist_list.q', [0.6])], par('dist_list.loc', [0.4]), par('dist_list.scale', [0.9]))],
        [Obs('dist_list()', lambda D: D['dist_list'](), ALL | {'dist_list.q'}, 'Distribution(x=[p, q])()')],
        lambda D: [('first parameter of dist_list.x', list(D['dist_list'].x._parameter_container.params())[0], P)],
        [Write('dist_list.rsample()', 'dist_list', 'rsample', ALL | {'dist_list.q'}, 'Distribution.rsample into a list x')],
        sym={'dist_list.q': ([0.6], 0.0, None)}, callable_id='dist_list', depth=2, text='Distribution(Normal, x=["p", q own])'))
    K.append(Kind(
        'transformed_list', lambda o: [{'id': 'transformed_list', 'type': 'TransformedParameter', 'transform': 'torch.distributions.ExpTransform',
                                        'x': [par('transformed_list.q', [0.45]), P]}],
        [Obs('transformed_list.tensor', lambda D: D['transformed_list'].tensor, ALL | {'transformed_list.q'}, 'TransformedParameter(x=[q, p]).tensor')],
        lambda D: [('second parameter of transformed_list.x', list(D['transformed_list'].x._parameter_container.params())[1], P)],
        [Write('transformed_list.tensor = v', 'transformed_list', 'assign', ALL | {'transformed_list.q'},
               'TransformedParameter.tensor setter (x = list)', RNG_T)],
        sym={'transformed_list.q': ([0.45], 0.0, None)}, probe=('transformed_list', 'parameter', ALL | {'transformed_list.q'}),
        callable_id='transformed_list', depth=2, text='TransformedParameter(ExpTransform, x=[q own, "p"])'))
    return K


_KINDS = None


def kind_table():
    global _KINDS
    if _KINDS is None:
        _KINDS = {k.name: k for k in kinds()}
    return _KINDS


ORDER = None


def shape_kinds(shape):
    """the holders of a shape in specification order: JointDistributionModel last (it names the others)"""
    T = kind_table()
    names = sorted(shape, key=lambda n: (n == 'joint', list(T).index(n)))
    return [T[n] for n in names]


def spec_of(shape):
    ks = shape_kinds(shape)
    spec = [par(P, P0)]
    seen = set()
    for k in ks:
        for key, el in k.pre:
            if key not in seen:
                seen.add(key)
                spec.append(copy.deepcopy(el))
    for k in ks:
        spec += k.spec([o for o in ks if o is not k])
    return spec


BASE_WRITES = [
    Write('p.tensor = v', P, 'assign', ALL, 'Parameter.tensor setter'),
    Write('p.tensor[...] = v; p.fire_parameter_changed()', P, 'inplace', ALL, 'in-place write + fire_parameter_changed'),
    Write('p.tensor[1:3] = v; p.fire_parameter_changed()', P, 'inplace-part', {1, 2}, 'in-place write + fire_parameter_changed'),
]
THOROUGH_ONLY_WRITES = {'p.tensor[1:3] = v; p.fire_parameter_changed()', 'dist_x.sample()'}


def writes_of(shape, tier):
    ws = list(BASE_WRITES)
    for k in shape_kinds(shape):
        ws += k.writes
    if tier != 'thorough':
        ws = [w for w in ws if w.name not in THOROUGH_ONLY_WRITES]
    return {w.name: w for w in ws}


def syms_of(shape):
    out = {P: (P0, 0.0, None)}
    for k in shape_kinds(shape):
        out.update(k.sym)
    return out


def histories_of(shape, tier):
    W = writes_of(shape, tier)
    hs = [(n,) for n in W]
    if tier == 'thorough' and len(shape) <= 2:
        for a, b in itertools.permutations(W, 2):
            if W[a].target != W[b].target:  # two updates through DIFFERENT holders
                hs.append((a, b))
    return hs


# ===================================================================== witnesses / values
def fresh_witness(step, w, shape):
    lo, hi = w.rng
    n = 1
    for s in shape:
        n *= s
    seed = sum(ord(c) for c in w.name) % 17
    vals = [round(lo + (hi - lo) * ((0.37 + 0.61803 * (step * 11 + seed * 3 + i)) % 1.0), 3) for i in range(n)]
    return torch.tensor(vals, dtype=torch.float64).reshape(shape)


def wkey(w):
    return re.sub(r'[^A-Za-z0-9_.]+', '_', w.name).strip('_')


class Probe:
    """listener of a cache-less holder: counts the notifications it relays"""

    def __init__(self):
        self.n = 0

    def handle_parameter_changed(self, variable, index, event):
        self.n += 1

    def handle_model_changed(self, model, obj, index):
        self.n += 1


def attach_probes(D, ks):
    out = {}
    for k in ks:
        if k.probe:
            pid, what, reads = k.probe
            pr = Probe()
            if what == 'parameter':
                D[pid].add_parameter_listener(pr)
            else:
                D[pid].add_model_listener(pr)
            out[k.name] = (pr, frozenset(reads), pid)
    return out


def base_parameters(D):
    from torchtree.core.parameter import Parameter

    return [k for k, o in D.items() if type(o) is Parameter]


def fresh_copy(spec, A, plain=False):
    """the same specification freshly loaded, every Parameter object given the current value of its counterpart"""
    B = load(spec)
    for pid in base_parameters(A):
        cur_t = A[pid].tensor
        if isinstance(cur_t, SymTensor) and not plain:
            B[pid].tensor = from_ids(cur_t._ids.clone())
        else:
            B[pid].tensor = cur_t.detach().clone()
    return B


def flat_ids(d, x):
    if isinstance(x, SymTensor):
        return x._ids.reshape(-1).tolist(), tuple(x.shape)
    x = torch.as_tensor(x)
    return [d.const(float(v)) for v in x.detach().reshape(-1).tolist()], tuple(x.shape)


def label_of(shape, history):
    return f'holders {" + ".join(k.name for k in shape_kinds(shape))}: ' + ' ; '.join(history)


# ===================================================================== replay on plain tensors
def replay_history(shape, history, vals, tier='thorough', focus=None):
    """The history on the unmodified classes with plain tensors; oracle = the specification freshly loaded at the current
    values.  focus = (step, kind of fact, key) restricts the verdict to one fact.  -> (differs, detail)"""
    spec = spec_of(shape)
    ks = shape_kinds(shape)
    W = writes_of(shape, 'thorough')
    vals = {k: v for k, v in (vals or {}).items() if v is not None}

    def tensor_for(prefix, default):
        names = cm.names_shaped(prefix, tuple(default.shape))
        flat = default.reshape(-1).tolist()
        return torch.tensor([float(vals.get(n, dv)) for n, dv in zip(names, flat)], dtype=torch.float64).reshape(default.shape)

    def wanted(step, what, key):
        return focus is None or tuple(focus) == (step, what, key)

    try:
        A = load(spec)
        for pid, (w0, lo, hi) in syms_of(shape).items():
            A[pid].tensor = tensor_for(f'init_{pid}', torch.tensor(w0, dtype=torch.float64))
        probes = attach_probes(A, ks)

        def ev(D):
            return {o.name: o.fn(D).detach().clone().to(torch.float64) for k in ks for o in k.obs}

        ev(A)
        for step, wn in enumerate(history):
            w = W[wn]
            v = tensor_for(f'u{step}_{wkey(w)}', fresh_witness(step, w, w.shape(A)))
            for pr, _, _ in probes.values():
                pr.n = 0
            w.apply(A, v)
            rb = w.readback(A).detach().to(torch.float64)
            if w.reads_back and wanted(step, 'readback', wn) and (rb.shape != v.shape or not torch.allclose(rb, v, rtol=RTOL, atol=1e-12)):
                return True, f'after "{wn}" with v = {v.tolist()} the writer reads back {rb.tolist()}'
            B = fresh_copy(spec, A, plain=True)
            got, want = ev(A), ev(B)
            for k in ks:
                for o in k.obs:
                    a, b = got[o.name], want[o.name]
                    if wanted(step, 'value', o.name) and (a.shape != b.shape or not torch.allclose(a, b, rtol=RTOL, atol=1e-12, equal_nan=True)):
                        return True, (f'after "{wn}" (p = {A[P].tensor.tolist()}): {o.name} = {a.tolist()} but the same specification '
                                      f'freshly loaded at the current values gives {b.tolist()}')
            for kn, (pr, reads, pid) in probes.items():
                if wanted(step, 'notified', kn) and (reads & w.writes) and pr.n == 0:
                    return True, f'after "{wn}" the holder {pid} did not notify its listeners although the update changes what it reads'
    except Exception as e:  # noqa
        frames = [f for f in traceback.extract_tb(e.__traceback__) if '/torchtree/' in f.filename] or traceback.extract_tb(e.__traceback__)
        tb = frames[-1]
        return True, f'raised {type(e).__name__}: {e} [{os.path.basename(tb.filename)} {tb.name}]'
    return False, 'every holder agrees with the fresh load'


def identity_facts(shape, D, p_first):
    bad = []
    if D.get(P) is not p_first:
        bad.append((f'{SIG}:identity:registry', f'the registry entry of "{P}" was replaced by another instance while the holders were loaded'))
    for k in shape_kinds(shape):
        try:
            refs = k.refs(D)
        except Exception as e:  # noqa
            bad.append((f'{SIG}:identity:{k.name}', f'reading the references of {k.name} raises {type(e).__name__}: {e}'))
            continue
        for text, held, rid in refs:
            if rid not in D or held is not D[rid]:
                bad.append((f'{SIG}:identity:{k.name}:{text}', f'{text} is not the instance registered as "{rid}" (a copy instead of a reference)'))
    return bad


def load_with_first(spec):
    """-> (registry, the instance registered as p right after its own element was processed)"""
    from torchtree.core.utils import expand_plates, process_objects, remove_comments

    data = copy.deepcopy(list(spec))
    remove_comments(data)
    expand_plates(data)
    dic = {}
    first = None
    for el in data:
        process_objects(el, dic)
        if first is None:
            first = dic.get(P)
    return dic, first


# ===================================================================== one shape = one task
def run_shape(task, tr):
    shape, tier = tuple(task[0]), task[1]
    from torchtree.core import model as coremodel
    from torchtree.core import parameter as cp
    from torchtree.core.utils import process_object, process_objects
    from torchtree.distributions.distributions import Distribution
    from torchtree.distributions.joint_distribution import JointDistributionModel

    tr.fn(process_object, process_objects, cp.Parameter.tensor.fset, cp.Parameter.fire_parameter_changed, cp.ViewParameter.from_json,
          cp.ViewParameter.__init__, cp.ViewParameter.tensor.fget, cp.ViewParameter.tensor.fset, cp.ViewParameter.handle_parameter_changed,
          cp.TransformedParameter.from_json, cp.TransformedParameter.__init__, cp.TransformedParameter.tensor.fget,
          cp.TransformedParameter.tensor.fset, cp.TransformedParameter.handle_parameter_changed, cp.TransformedParameter.__call__,
          cp.CatParameter.from_json, cp.CatParameter.__init__, cp.CatParameter.tensor.fget, cp.CatParameter.tensor.fset,
          cp.CatParameter.handle_parameter_changed, Distribution.from_json, Distribution.__init__, Distribution.rsample, Distribution.sample,
          Distribution.log_prob, JointDistributionModel.from_json, JointDistributionModel.log_prob, coremodel.CallableModel.__call__,
          coremodel.CallableModel.handle_parameter_changed, coremodel.CallableModel.handle_model_changed)
    if any(k.pre for k in shape_kinds(shape)) or 'hky' in shape:
        from torchtree.distributions.ctmc_scale import CTMCScale
        from torchtree.evolution.branch_model import AbstractClockModel, StrictClockModel
        from torchtree.evolution.substitution_model.nucleotide import HKY

        tr.fn(HKY.from_json, HKY.q, HKY.handle_parameter_changed, StrictClockModel.from_json, StrictClockModel.rates.fget,
              AbstractClockModel.handle_parameter_changed, CTMCScale.from_json, CTMCScale._call)
    spec = spec_of(shape)
    name = ' + '.join(k.name for k in shape_kinds(shape))
    # ---------------------------------------------------------------- loads; identity of every held reference (concrete)
    try:
        D, p_first = load_with_first(spec)
    except Exception as e:  # noqa
        try:  # replay: once more from scratch
            load(spec)
            tr.inconc(f'holders {name}: the specification raised {type(e).__name__}: {e} once and loads on the second attempt')
        except Exception as e2:  # noqa
            tr.violation(f'{SIG}:load-error:{"+".join(sorted(shape))}', f'holders {name}: the specification {spec} does not load: '
                         f'{type(e2).__name__}: {(str(e2).splitlines() or [""])[0][:200]}', {'shape': list(shape), 'spec': spec})
        return
    tr.witness_runs += 1
    tr.sample({'case': f'holders {name}', 'spec': spec, 'histories': [list(h) for h in histories_of(shape, tier)][:8]}, limit=2)
    for sig, text in identity_facts(shape, D, p_first):
        D2, first2 = load_with_first(spec)  # replay: a second load from scratch
        if any(s == sig for s, _ in identity_facts(shape, D2, first2)):
            tr.violation(sig, f'holders {name}: {text}', {'shape': list(shape), 'spec': spec})
        else:
            tr.inconc(f'holders {name}: {text} on the first load only')
    reported = set()
    for history in histories_of(shape, tier):
        try:
            run_history(shape, history, tier, spec, tr, reported)
        except (EngineError, UnsupportedOp) as e:
            tr.inconc(f'{label_of(shape, history)}: the engine cannot execute the history: {type(e).__name__}: {e}')
        except Exception as e:  # noqa
            tr.inconc(f'{label_of(shape, history)}: harness raised {type(e).__name__}: {e} {traceback.format_exc()[-700:]}')


def run_history(shape, history, tier, spec, tr, reported):
    ks = shape_kinds(shape)
    W = writes_of(shape, tier)
    label = label_of(shape, history)
    with tracing() as t:
        d = t.dag
        dom = []

        def bound(st, lo, hi):
            for i in st._ids.reshape(-1).tolist():
                if lo is not None:
                    dom.append(d.lt(d.const(lo), i))
                if hi is not None:
                    dom.append(d.lt(i, d.const(hi)))

        A = load(spec)
        for pid, (w0, lo, hi) in syms_of(shape).items():
            st = new_vars(f'init_{pid}', torch.tensor(w0, dtype=torch.float64))
            bound(st, lo, hi)
            A[pid].tensor = st
        probes = attach_probes(A, ks)

        def evaluate(D):
            return {o.name: flat_ids(d, o.fn(D)) for k in ks for o in k.obs}

        goals = []   # (label, node, signature, focus)
        guards = []  # (step, write, holder kind, [candidate equalities, smallest first])
        facts = []   # concrete: (signature, text, focus)
        prev = evaluate(A)  # every cache is filled
        for step, wn in enumerate(history):
            w = W[wn]
            v = new_vars(f'u{step}_{wkey(w)}', fresh_witness(step, w, w.shape(A)))
            bound(v, *w.rng)
            v_ids = v._ids.reshape(-1).tolist()
            for pr, _, _ in probes.values():
                pr.n = 0
            try:
                w.apply(A, v)
                rb, rb_shape = flat_ids(d, w.readback(A))
                B = fresh_copy(spec, A)
                got, want = evaluate(A), evaluate(B)
            except (EngineError, UnsupportedOp):
                raise
            except Exception as e:  # noqa
                wit = {n: d.vals[i] for n, i in d.var_ids.items()}
                ok, detail = replay_history(shape, history, wit, tier)
                if ok and detail.startswith('raised'):
                    sig = f'{SIG}:raises:after {w.wsig}:{type(e).__name__}'
                    if sig not in reported:
                        reported.add(sig)
                        tr.violation(sig, f'{label}: "{wn}" or the evaluation that follows raised {type(e).__name__}: {e} (plain tensors: {detail})',
                                     {'shape': list(shape), 'history': list(history), 'values': wit, 'spec': spec})
                else:
                    tr.inconc(f'{label}: "{wn}" raised {type(e).__name__}: {e} on the symbolic run but the replay on plain tensors says: '
                              f'{detail} {traceback.format_exc()[-500:]}')
                return
            tag = f'after step {step + 1} ({wn})'
            # (1) the writer reads back what was written
            if w.reads_back:
                node = d.FALSE if len(rb) != len(v_ids) else d.and_(*[d.eq(a, b) for a, b in zip(rb, v_ids)])
                goals.append((f'{tag}: the writer reads back the written value', node, f'{SIG}:lost-update:{w.wsig}', (step, 'readback', wn)))
            # (2) every holder == fresh load at the current values; (3) guard candidates
            for k in ks:
                cands = []
                for o in k.obs:
                    (a, ash), (b, bsh) = got[o.name], want[o.name]
                    node = d.FALSE if ash != bsh else d.and_(*[d.eq(x, y) for x, y in zip(a, b)])
                    goals.append((f'{tag}: {o.name} == value of the same specification freshly loaded at the current values', node,
                                  f'{SIG}:not-observed:after {w.wsig}', (step, 'value', o.name)))
                    if o.reads & w.writes:
                        pa, psh = prev[o.name]
                        if psh != bsh:
                            cands.append((0, d.FALSE))
                        for x, y in zip(pa, b):
                            if x != y:
                                cands.append((d.size([x, y]), d.eq(x, y)))
                if any(o.reads & w.writes for o in k.obs):
                    guards.append((step, wn, k.name, [c[1] for c in sorted(cands)]))
            for kn, (pr, reads, pid) in probes.items():
                if (reads & w.writes) and pr.n == 0:
                    facts.append((f'{SIG}:not-observed:after {w.wsig}', f'{tag}: notification of the listeners of {pid}', (step, 'notified', kn)))
            prev = got
        if t.concretized:
            tr.inconc(f'{label}: concretised {t.concretized[:2]}')
            return
        tr.witness_runs += 1
        tr.ops_checked += t.nchecked
        tr.regions += 1
        hyps = dom + list(t.pcs)
        V = dict(d.var_ids)
        wit = {n: d.vals[i] for n, i in V.items()}
        tr.sample({'case': label, 'goals': len(goals), 'closed syntactically': sum(1 for g in goals if g[1] == d.TRUE),
                   'guards': len(guards), 'path conditions': [d.to_str(c, 5) for c in t.pcs[:6]]}, limit=3)
        # ---------------------------------------------------------------- obligations
        lost_steps = set()  # steps whose update did not reach the writer itself
        for glabel, node, sig, focus in goals:
            if node != d.TRUE and focus[1] == 'readback':
                lost_steps.add(focus[0])  # (removed again below when the solver proves the read-back)
            if sig in reported and node != d.TRUE:
                continue  # this write path is already reported by this task: same defect, same signature
            st, r, _ = prove(d, hyps, node, timeout=30.0, get_values=list(V.values()), tr=tr, label=glabel, parallel=True)
            if st == 'proved':
                lost_steps.discard(focus[0]) if focus[1] == 'readback' else None
                continue
            rp = {'shape': list(shape), 'history': list(history), 'spec': spec, 'focus': list(focus)}
            if st == 'refuted':
                vals = {n: _to_float(r.values[i]) for n, i in V.items() if i in r.values}
                ok, detail = replay_history(shape, history, vals, tier, focus)
                if not ok:  # uninterpreted exp / log: the model point may be spurious; the region's own witness
                    vals = wit
                    ok, detail = replay_history(shape, history, vals, tier, focus)
                if ok:
                    reported.add(sig)
                    tr.violation(sig, f'{label}: {glabel} fails: {detail}', dict(rp, values=vals))
                else:
                    tr.inconc(f'{label}: counterexample for "{glabel}" did not reproduce on the real code ({detail})')
            else:
                ok, detail = replay_history(shape, history, wit, tier, focus)
                if ok:
                    reported.add(sig)
                    tr.violation(sig, f'{label}: {glabel}: solver undecided, the witness separates: {detail}', dict(rp, values=wit))
                else:
                    tr.inconc(f'{label}: "{glabel}" undecided by the solver portfolio ({r.raw[:100] if r else ""})')
        # ---------------------------------------------------------------- concrete facts
        for sig, text, focus in facts:
            if sig in reported or focus[0] in lost_steps:
                continue  # (an update that did not happen at all is reported as lost update, once)
            ok, detail = replay_history(shape, history, wit, tier, focus)
            if ok:
                reported.add(sig)
                tr.violation(sig, f'{label}: {text} fails: {detail}',
                             {'shape': list(shape), 'history': list(history), 'values': wit, 'spec': spec, 'focus': list(focus)})
            else:
                tr.inconc(f'{label}: {text} fails on the symbolic run, not on plain tensors ({detail})')
        # ---------------------------------------------------------------- vacuity guards (sat expected)
        for step, wn, kn, cands in guards:
            if step in lost_steps:
                continue  # reported above as a lost update; a guard about its effect on other holders has no object
            st = 'proved'
            glabel = f'vacuity guard: "{wn}" can change {kn}'
            for same in cands[:6]:
                # an existence statement: one back end with a short limit first, then the portfolio, then the same query with
                # every variable pinned to the witness of the run (the witness satisfies the hypotheses)
                st = prove(d, hyps, same, timeout=3.0, solvers=('z3',), tr=tr, label=glabel)[0]
                if st == 'unknown':
                    st = prove(d, hyps, same, timeout=15.0, tr=tr, label=glabel, parallel=True)[0]
                if st == 'unknown':
                    roots = [same] + hyps
                    pin = {i: d.const(d.vals[i]) for i in d.topo(roots) if d.ops[i] == 'var'}
                    rs = d.substitute(roots, pin)
                    st = prove(d, rs[1:], rs[0], timeout=15.0, tr=tr, label=glabel + ' (at the witness)', parallel=True)[0]
                if st == 'refuted':
                    break
            if st != 'refuted':
                tr.inconc(f'{label}: vacuity guard: "{wn}" has no effect the solver can exhibit on holder {kn}, which reads what it '
                          f'writes ({st}{"" if cands else ": the fresh load after the update gives the expressions from before it"})')


# ===================================================================== entry points
def shapes_for(tier):
    T = kind_table()
    d1 = [n for n, k in T.items() if k.depth == 1]
    if tier != 'thorough':
        return [c for c in itertools.combinations(d1, 2)]
    allk = list(T)
    out = [c for c in itertools.combinations(allk, 2)]
    out += [c for c in itertools.combinations(allk, 3)]
    return out


def select(tier):
    shapes = shapes_for(tier)
    only = os.environ.get('C13S_ONLY')
    if only:
        shapes = [s for s in shapes if re.search(only, '+'.join(s))]
    return shapes


def run(chk):
    """called from checks/C13.py (both tiers) and from this file's own __main__"""
    register()
    tier = chk.tier if chk.tier in ('quick', 'thorough') else 'quick'
    tot = chk.total
    T = kind_table()
    shapes = select(tier)
    nh = sum(len(histories_of(s, tier)) for s in shapes)
    tot.bounds['sharing: holder kinds'] = {n: k.text for n, k in T.items() if tier == 'thorough' or k.depth == 1}
    tot.bounds['sharing: shapes and histories'] = (
        f'{len(shapes)} shapes = ' + ('every pair and every triple of the holder kinds (nesting depth 1 and 2)' if tier == 'thorough'
                                      else 'every pair of the holder kinds of nesting depth 1')
        + f', each holding the SAME parameter "p" (4 elements) by its id string; {nh} histories = per shape one history per write path '
        + ('(p.tensor = v, in-place write of all / of two elements + fire_parameter_changed, tensor setter of every view / '
           'TransformedParameter / CatParameter of the shape incl. the nested views of HKY, StrictClockModel, CTMCScale, '
           'Distribution.rsample / sample into p, into a view, into a TransformedParameter, into a list x) and, for the pairs, '
           'every ordered pair of write paths through two different holders' if tier == 'thorough' else
           '(p.tensor = v, in-place write + fire_parameter_changed, tensor setter of every view / TransformedParameter / CatParameter of '
           'the shape incl. the nested views of HKY, StrictClockModel, CTMCScale, Distribution.rsample into p); one update per history')
        + '; every holder is evaluated before the first and after every update')
    tot.bounds['sharing: symbolic inputs'] = (
        'every element of p, of the own parameters of the holders (loc / scale / x / rate / the second CatParameter member) and of every '
        'written value; domains: p, scales, rates > 0, written values in (0.05, 6), values written through an exp-TransformedParameter '
        'in (1.05, 6); frequencies of HKY and the branch lengths of the 3-taxon tree stay constants')
    tot.assumptions |= {
        'sharing: the oracle is the same specification loaded once more by the same loader and evaluated by the same code at the current '
        'values of all its Parameter objects: the clause is about who sees an update, not about the formulas (C08 / C10 / C20) nor '
        'about what an indices value selects (json_factory clause)',
        'sharing: a holder that takes a COPY of the shared object while it is loaded is copied in the fresh load as well, so obligation '
        '(2) alone does not see it: it is reported by the identity facts (violation) and makes the vacuity guard of that holder fail',
        'sharing: value-dependent decisions (argument validation of torch.distributions: scale > 0, support of Exponential / LogNormal) '
        'are path conditions of the witness region; a validation error is the only other path',
        'sharing: well-definedness (log arguments) is not proved here: both sides run the same operations',
        'sharing: which elements of p a holder reads / a write path writes (used only to decide where a vacuity guard and a notification '
        'are REQUIRED) is declared per holder kind in this file',
        'sharing: CatParameter([view of p, p]).tensor = v writes p twice (the view first, then p itself): the written value is '
        'over-determined, so the read-back obligation is not stated for this write path; every other obligation is',
        'sharing: a write through a view of a TransformedParameter (the command line uses such a view for logging only) writes into a '
        'derived tensor, not into p: that holder is read only; JointDistributionModel has no write path of its own '
        '(its rsample is the members\' rsample)',
        'sharing: the draw of Distribution.rsample / sample is the environment: the torch distribution\'s rsample / sample returns the '
        'fresh symbols (plain replay: the corresponding numbers)',
    }
    tot.stubs.add('sharing clause: torch.distributions.<X>.rsample / .sample return the fresh symbols during Distribution.rsample() / '
                  'sample(); no contract stubs')
    # heavier shapes first
    shapes.sort(key=lambda s: -len(histories_of(s, tier)))
    pmap(run_shape, [(s, tier) for s in shapes], tot)


def body(chk):
    chk.explanation = EXPLANATION
    chk.rule = ('one case = one solver obligation (an observable of a holder after an update == that of the freshly loaded '
                'specification, the writer\'s read-back, a vacuity guard); identical hash-consed expressions are closed without a '
                'solver call and counted as trivial')
    run(chk)


def do_replay(path):
    import json

    register()
    r = json.load(open(path))['replay']
    if 'history' not in r:
        D, first = load_with_first(r['spec'])
        bad = identity_facts(tuple(r['shape']), D, first)
        print(('REPRODUCED ' + '; '.join(t for _, t in bad)) if bad else 'NOT REPRODUCED every held reference is the registry instance')
        return 1 if bad else 0
    ok, detail = replay_history(tuple(r['shape']), tuple(r['history']), r.get('values'), 'thorough', r.get('focus'))
    print(('REPRODUCED ' if ok else 'NOT REPRODUCED ') + detail)
    return 1 if ok else 0


if __name__ == '__main__':
    if '--replay' in sys.argv:
        torch.set_default_dtype(torch.float64)
        sys.exit(do_replay(sys.argv[sys.argv.index('--replay') + 1]))
    sys.exit(main_for(PID, body, level='other'))
