"""C10 A sample dimension never mixes samples.

Relational: each callable model is evaluated once with a chosen subset of its
parameters carrying a leading sample dimension [2] (distinct symbols per sample)
and once per slice on a freshly built copy; the solver decides equality for every
sample index.  A configuration that raises is accepted ("fails with an error
rather than returning a number"); one that returns must match.
"""
from __future__ import annotations

import itertools
import math
import sys

import torch

import common as cm
from symtorch import SymTensor, cur, from_ids, new_vars, tracing
from symtorch.axioms import ground_axioms
from vlib.core import main_for, pmap

PID = 'C10'
S = 2
SEQS = {'t0': 'ACRA', 't1': 'CG-C', 't2': 'GTNG'}


def register():
    import torchtree.distributions.ctmc_scale  # noqa
    import torchtree.distributions.distributions  # noqa
    import torchtree.distributions.gmrf  # noqa
    import torchtree.distributions.joint_distribution  # noqa
    import torchtree.distributions.tree_prior  # noqa
    import torchtree.evolution.coalescent  # noqa
    import torchtree.evolution.tree_likelihood  # noqa


# ------------------------------------------------------------------ cases: (spec list, params {id: (values, domain)}, evaluator id)
def P(vals, lo=None, hi=None):
    return (vals, lo, hi)


def case_coalescent(kind):
    taxa = cm.taxa_json(3)
    tree = cm.time_tree_json(((0, 1), 2), 3)
    tree['taxa'] = taxa
    params = {'tree.heights': P([1.0, 2.5], 0.01, None)}
    if kind == 'constant':
        m = {'id': 'm', 'type': 'ConstantCoalescentModel', 'theta': {'id': 'theta', 'type': 'Parameter', 'tensor': [2.0]}, 'tree_model': tree}
        params['theta'] = P([2.0], 0.01, None)
    elif kind == 'exponential':
        m = {'id': 'm', 'type': 'ExponentialCoalescentModel', 'theta': {'id': 'theta', 'type': 'Parameter', 'tensor': [2.0]},
             'growth': {'id': 'growth', 'type': 'Parameter', 'tensor': [0.4]}, 'tree_model': tree}
        params['theta'] = P([2.0], 0.01, None)
        params['growth'] = P([0.4], 0.01, None)
    elif kind == 'skyride':
        m = {'id': 'm', 'type': 'PiecewiseConstantCoalescentModel', 'theta': {'id': 'theta', 'type': 'Parameter', 'tensor': [2.0, 3.0]},
             'tree_model': tree}
        params['theta'] = P([2.0, 3.0], 0.01, None)
    else:
        m = {'id': 'm', 'type': 'PiecewiseConstantCoalescentGridModel',
             'theta': {'id': 'theta', 'type': 'Parameter', 'tensor': [2.0, 3.0]}, 'grid': [1.7], 'tree_model': tree}
        params['theta'] = P([2.0, 3.0], 0.01, None)
    return [m], params, 'm', {'heights_order': True}


def case_plinear():
    taxa = cm.taxa_json(3)
    tree = cm.time_tree_json(((0, 1), 2), 3)
    tree['taxa'] = taxa
    m = {'id': 'm', 'type': 'PiecewiseLinearCoalescentGridModel', 'theta': {'id': 'theta', 'type': 'Parameter', 'tensor': [2.0, 3.0]},
         'grid': [1.7], 'tree_model': tree}
    return [m], {'theta': P([2.0, 3.0], 0.01, None), 'tree.heights': P([1.0, 2.5], 0.01, None)}, 'm', {'heights_order': True}


def case_subst(kind):
    """p_t of a substitution model as the evaluated quantity (value shape [S, 1, 1, 4, 4] flattened per sample)"""
    if kind == 'GTR':
        sm = {'id': 'subst', 'type': 'GTR', 'rates': {'id': 'rates', 'type': 'Parameter', 'tensor': [0.8, 1.1, 1.4, 1.7, 2.0, 2.3]},
              'frequencies': {'id': 'freqs', 'type': 'Parameter', 'tensor': [0.1, 0.2, 0.3, 0.4]}}
        params = {'rates': P([0.8, 1.1, 1.4, 1.7, 2.0, 2.3], 0.01, None), 'freqs': P([0.1, 0.2, 0.3, 0.4], 0.01, None)}
    else:
        sm = {'id': 'subst', 'type': 'HKY', 'kappa': {'id': 'kappa', 'type': 'Parameter', 'tensor': [3.0]},
              'frequencies': {'id': 'freqs', 'type': 'Parameter', 'tensor': [0.1, 0.2, 0.3, 0.4]}}
        params = {'kappa': P([3.0], 0.01, None), 'freqs': P([0.1, 0.2, 0.3, 0.4], 0.01, None)}
    return [sm], params, 'subst', {'evaluate': 'q'}


def case_gmrf():
    m = {'id': 'm', 'type': 'GMRF', 'x': {'id': 'field', 'type': 'Parameter', 'tensor': [0.1, 0.5, 0.2]},
         'precision': {'id': 'tau', 'type': 'Parameter', 'tensor': [1.5]}}
    return [m], {'field': P([0.1, 0.5, 0.2]), 'tau': P([1.5], 0.01, None)}, 'm', {}


def case_ctmc():
    taxa = cm.taxa_json(3)
    tree = cm.time_tree_json(((0, 1), 2), 3)
    tree['taxa'] = taxa
    m = {'id': 'm', 'type': 'CTMCScale', 'x': {'id': 'rate', 'type': 'Parameter', 'tensor': [0.02]}, 'tree_model': tree}
    return [m], {'rate': P([0.02], 0.001, None), 'tree.heights': P([1.0, 2.5], 0.01, None)}, 'm', {'heights_order': True}


def case_tree_prior():
    taxa = cm.taxa_json(4)
    tree = cm.unrooted_tree_json(cm.balanced(4), 4)
    tree['taxa'] = taxa
    m = {'id': 'm', 'type': 'CompoundGammaDirichletPrior', 'tree_model': tree,
         'alpha': {'id': 'alpha', 'type': 'Parameter', 'tensor': [1.3]}, 'c': {'id': 'c', 'type': 'Parameter', 'tensor': [0.7]},
         'shape': {'id': 'shape', 'type': 'Parameter', 'tensor': [1.1]}, 'rate': {'id': 'rate', 'type': 'Parameter', 'tensor': [0.9]}}
    return [m], {'tree.blens': P([0.1, 0.2, 0.15, 0.3, 0.25], 0.001, None), 'alpha': P([1.3], 0.01, None)}, 'm', {}


def case_distribution(kind):
    if kind == 'normal':
        m = {'id': 'm', 'type': 'Distribution', 'distribution': 'torch.distributions.Normal',
             'x': {'id': 'x', 'type': 'Parameter', 'tensor': [0.3, -0.2]},
             'parameters': {'loc': {'id': 'loc', 'type': 'Parameter', 'tensor': [0.1, 0.4]},
                            'scale': {'id': 'scale', 'type': 'Parameter', 'tensor': [0.5, 1.5]}}}
        params = {'x': P([0.3, -0.2]), 'loc': P([0.1, 0.4]), 'scale': P([0.5, 1.5], 0.01, None)}
    else:
        m = {'id': 'm', 'type': 'Distribution', 'distribution': 'torch.distributions.Gamma',
             'x': {'id': 'x', 'type': 'Parameter', 'tensor': [0.7]},
             'parameters': {'concentration': {'id': 'conc', 'type': 'Parameter', 'tensor': [2.0]},
                            'rate': {'id': 'grate', 'type': 'Parameter', 'tensor': [1.5]}}}
        params = {'x': P([0.7], 0.01, None), 'conc': P([2.0], 0.01, None), 'grate': P([1.5], 0.01, None)}
    return [m], params, 'm', {}


def case_joint():
    specs = [
        {'id': 'd1', 'type': 'Distribution', 'distribution': 'torch.distributions.Normal',
         'x': {'id': 'x', 'type': 'Parameter', 'tensor': [0.3, -0.2]},
         'parameters': {'loc': {'id': 'loc', 'type': 'Parameter', 'tensor': [0.1]},
                        'scale': {'id': 'scale', 'type': 'Parameter', 'tensor': [0.5]}}},
        {'id': 'd2', 'type': 'Distribution', 'distribution': 'torch.distributions.Exponential',
         'x': 'scale', 'parameters': {'rate': {'id': 'erate', 'type': 'Parameter', 'tensor': [2.0]}}},
        {'id': 'g', 'type': 'GMRF', 'x': 'x', 'precision': {'id': 'tau', 'type': 'Parameter', 'tensor': [1.5]}},
        {'id': 'm', 'type': 'JointDistributionModel', 'distributions': ['d1', 'd2', 'g']},
    ]
    return specs, {'x': P([0.3, -0.2]), 'scale': P([0.5], 0.01, None), 'tau': P([1.5], 0.01, None), 'loc': P([0.1])}, 'm', {}


def case_joint_mixed():
    """a batched scalar component next to a component over an UN-batched vector whose length equals the sample count"""
    specs = [
        {'id': 'da', 'type': 'Distribution', 'distribution': 'torch.distributions.Normal',
         'x': {'id': 'a', 'type': 'Parameter', 'tensor': [0.3]},
         'parameters': {'loc': {'id': 'a_loc', 'type': 'Parameter', 'tensor': [0.0]},
                        'scale': {'id': 'a_scale', 'type': 'Parameter', 'tensor': [1.0]}}},
        {'id': 'dy', 'type': 'Distribution', 'distribution': 'torch.distributions.Normal',
         'x': {'id': 'y', 'type': 'Parameter', 'tensor': [-1.0, 0.8]},
         'parameters': {'loc': {'id': 'y_loc', 'type': 'Parameter', 'tensor': [0.5]},
                        'scale': {'id': 'y_scale', 'type': 'Parameter', 'tensor': [2.0]}}},
        {'id': 'm', 'type': 'JointDistributionModel', 'distributions': ['da', 'dy']},
    ]
    return specs, {'a': P([0.3]), 'y': P([-1.0, 0.8]), 'a_scale': P([1.0], 0.01, None)}, 'm', {}


def case_likelihood(tree_kind, site_kind, subst):
    taxa = cm.taxa_json(3)
    params = {}
    if tree_kind == 'unrooted':
        tree = cm.unrooted_tree_json(((0, 1), 2), 3)
        params['tree.blens'] = P([0.1, 0.2, 0.15], 0.001, None)
    else:
        tree = cm.time_tree_json(((0, 1), 2), 3)
        params['tree.heights'] = P([1.0, 2.5], 0.01, None)
    tree['taxa'] = taxa
    site = {'id': 'site', 'type': 'ConstantSiteModel'}
    if site_kind == 'weibull':
        site = {'id': 'site', 'type': 'WeibullSiteModel', 'categories': 2, 'shape': {'id': 'shape', 'type': 'Parameter', 'tensor': [0.7]}}
        params['shape'] = P([0.7], 0.05, None)
    elif site_kind == 'invariant':
        site = {'id': 'site', 'type': 'InvariantSiteModel', 'invariant': {'id': 'pinv', 'type': 'Parameter', 'tensor': [0.2]}}
        params['pinv'] = P([0.2], 0.01, 0.9)
    if subst == 'JC69':
        sm = {'id': 'subst', 'type': 'JC69'}
    else:
        sm = {'id': 'subst', 'type': 'HKY', 'kappa': {'id': 'kappa', 'type': 'Parameter', 'tensor': [3.0]},
              'frequencies': {'id': 'freqs', 'type': 'Parameter', 'tensor': [0.1, 0.2, 0.3, 0.4]}}
        params['kappa'] = P([3.0], 0.1, None)
    like = {'id': 'm', 'type': 'TreeLikelihoodModel', 'tree_model': tree, 'site_model': site, 'substitution_model': sm,
            'site_pattern': {'id': 'sp', 'type': 'SitePattern', 'alignment': cm.alignment_json(SEQS, taxa='taxa')}}
    if tree_kind == 'strict':
        like['branch_model'] = {'id': 'clock', 'type': 'StrictClockModel', 'tree_model': 'tree',
                                'rate': {'id': 'rate', 'type': 'Parameter', 'tensor': [0.01]}}
        params['rate'] = P([0.01], 0.0001, None)
    elif tree_kind == 'simple':
        like['branch_model'] = {'id': 'clock', 'type': 'SimpleClockModel', 'tree_model': 'tree',
                                'rate': {'id': 'rate', 'type': 'Parameter', 'tensor': [0.01, 0.02, 0.015, 0.03]}}
        params['rate'] = P([0.01, 0.02, 0.015, 0.03], 0.0001, None)
    return [like], params, 'm', {'heights_order': tree_kind != 'unrooted', 'pstub': subst == 'HKYstub'}


CASES = {
    'coalescent:constant': lambda: case_coalescent('constant'),
    'coalescent:exponential': lambda: case_coalescent('exponential'),
    'coalescent:skyride': lambda: case_coalescent('skyride'),
    'coalescent:skygrid': lambda: case_coalescent('skygrid'),
    'coalescent:piecewise-linear': case_plinear,
    'substitution:GTR.q': lambda: case_subst('GTR'),
    'substitution:HKY.q': lambda: case_subst('HKY'),
    'gmrf': case_gmrf,
    'ctmc_scale': case_ctmc,
    'tree_prior': case_tree_prior,
    'distribution:normal': lambda: case_distribution('normal'),
    'distribution:gamma': lambda: case_distribution('gamma'),
    'joint': case_joint,
    'joint:batched scalar + unbatched vector of length S': case_joint_mixed,
    'likelihood:unrooted/constant/JC69': lambda: case_likelihood('unrooted', 'constant', 'JC69'),
    'likelihood:strict/weibull/JC69': lambda: case_likelihood('strict', 'weibull', 'JC69'),
    'likelihood:simple/invariant/JC69': lambda: case_likelihood('simple', 'invariant', 'JC69'),
    'likelihood:unrooted/weibull/HKY': lambda: case_likelihood('unrooted', 'weibull', 'HKY'),
    'likelihood:strict/constant/HKY': lambda: case_likelihood('strict', 'constant', 'HKY'),
}


def build(specs):
    from torchtree.core.utils import process_objects

    register()
    dic = {}
    for sp in specs:
        process_objects(sp, dic)
    return dic


def evaluate(obj, opts):
    if opts.get('evaluate') == 'q':
        return obj.q()
    return obj()


def run_task(task, tr):
    from torchtree.core import model as coremodel
    from torchtree.distributions.joint_distribution import JointDistributionModel
    from torchtree.evolution.tree_likelihood import TreeLikelihoodModel

    cname, batched = task
    label = f'{cname} batched={sorted(batched)}'
    tr.fn(coremodel.CallableModel.__call__, JointDistributionModel.log_prob, TreeLikelihoodModel._call)
    tr.bounds['shapes'] = 'sample shape [2]; quick: all-batched, each-one-unbatched, each-one-batched; thorough: every subset'
    specs, params, target, opts = CASES[cname]()
    with tracing() as t:
        d = t.dag
        dom = []
        V = {}

        def symbols(pname, s):
            vals, lo, hi = params[pname]
            off = 0.0 if s is None else 0.11 * (s + 1)
            vv = [v * (1 + off) + (off if lo is None else 0) for v in vals]
            nm = pname if s is None else f'{pname}@{s}'
            st = new_vars(nm, torch.tensor(vv, dtype=torch.float64))
            for i in st._ids.tolist():
                V[d.args[i][0]] = i
                if lo is not None:
                    dom.append(d.lt(d.const(lo), i))
                if hi is not None:
                    dom.append(d.lt(i, d.const(hi)))
            return st

        shared = {p: symbols(p, None) for p in params if p not in batched}
        per_s = {p: [symbols(p, s) for s in range(S)] for p in batched}
        if opts.get('heights_order'):
            hs = [per_s['tree.heights'][s] for s in range(S)] if 'tree.heights' in batched else [shared['tree.heights']]
            for h in hs:
                ids = h._ids.tolist()
                dom.append(d.lt(ids[0], ids[1]))
        # batched run
        A = build(specs)
        raised = None
        try:
            for p in params:
                if p in batched:
                    ids = torch.stack([x._ids for x in per_s[p]])
                    A[p].tensor = from_ids(ids)
                else:
                    A[p].tensor = from_ids(shared[p]._ids.clone())
            val = evaluate(A[target], opts)
        except Exception as e:  # unsupported shape combination: allowed to fail loudly
            raised = f'{type(e).__name__}: {e}'
        tr.witness_runs += 1
        tr.regions += 1
        if raised is not None:
            tr.notes.append(f'{label}: raises ({raised[:80]}) - accepted: fails with an error rather than returning a number')
            tr.sample({'case': label, 'outcome': 'raises', 'error': raised[:100]})
            tr.obligation(f'raises:{label}', nontrivial=False)
            return
        if t.concretized:
            tr.inconc(f'{label}: concretised {t.concretized[:2]}')
            return
        goals = []
        vb = val._ids
        if vb.dim() == 0 or vb.shape[0] != S or vb.numel() % S:
            goals.append((f'value has one entry per sample (shape {tuple(vb.shape)})', d.FALSE, [], f'{cname}:batched={sorted(batched)}:shape'))
        else:
            for s in range(S):
                B = build(specs)
                for p in params:
                    src = per_s[p][s] if p in batched else shared[p]
                    B[p].tensor = from_ids(src._ids.clone())
                vs = evaluate(B[target], opts)
                a = vb[s].reshape(-1).tolist()
                b = vs._ids.reshape(-1).tolist()
                if len(a) != len(b):
                    goals.append((f'sample {s}: slice value has the same number of entries', d.FALSE, [], f'{cname}:batched={sorted(batched)}:shape'))
                else:
                    g = d.and_(*[d.eq(x, y) for x, y in zip(a, b)])
                    goals.append((f'sample {s}: value[{s}] == value computed from slice {s} alone', g, ground_axioms(d, [g]),
                                  f'{cname}:batched={sorted(batched)}:mixes-samples'))
        # vacuity guard (solver): the two samples must be able to produce different values, otherwise mixing
        # could not be observed
        if vb.dim() >= 1 and vb.shape[0] == S:
            from symtorch.explore import prove

            a0, a1 = vb[0].reshape(-1).tolist(), vb[1].reshape(-1).tolist()
            cands = [(d.size([x, y]), d.eq(x, y)) for x, y in zip(a0, a1) if x != y]
            if not cands:
                tr.inconc(f'{label}: vacuity guard: the value does not depend on the batched parameters')
            else:
                st, r, _ = prove(d, dom + list(t.pcs), min(cands)[1], timeout=30, tr=tr, label='vacuity guard', parallel=True)
                if st == 'proved':
                    tr.inconc(f'{label}: vacuity guard: both samples always give the same value')
        tr.ops_checked += t.nchecked
        tr.sample({'case': label, 'outcome': 'returns', 'shape': list(vb.shape), 'path_conditions': len(t.pcs)})

        def replay(vals):
            return replay_case(cname, batched, vals)

        # eigen contract rows as hypotheses are not needed: the stub is functional (same input -> same symbols)
        cm.discharge(tr, d, dom + list(t.pcs), goals, label, replay=replay, varnodes=V, defined=False, timeout=40,
                     threads=2, parallel=True)


def replay_case(cname, batched, vals):
    specs, params, target, opts = CASES[cname]()

    def value(p, s):
        base, lo, hi = params[p]
        names = cm.names_shaped(p if s is None else f'{p}@{s}', (len(base),))
        out = []
        for nm, b in zip(names, base):
            v = vals.get(nm, b * (1 + (0 if s is None else 0.11 * (s + 1))))
            if lo is not None and v <= lo:
                v = lo + abs(b)
            if hi is not None and v >= hi:
                v = hi - 0.05
            out.append(v)
        if p == 'tree.heights':
            out = sorted(out)
            if out[0] == out[1]:
                out[1] += 0.5
        return out

    A = build(specs)
    try:
        for p in params:
            if p in batched:
                A[p].tensor = torch.tensor([value(p, s) for s in range(S)], dtype=torch.float64)
            else:
                A[p].tensor = torch.tensor(value(p, None), dtype=torch.float64)
        for k in ('freqs',):
            if k in A:
                A[k].tensor = A[k].tensor.to(torch.float64)
        val = evaluate(A[target], opts).to(torch.float64)
    except Exception as e:
        return False, f'batched evaluation raises ({type(e).__name__}): accepted'
    if val.dim() == 0 or val.shape[0] != S:
        return True, f'value has shape {tuple(val.shape)}: not one entry per sample'
    for s in range(S):
        B = build(specs)
        for p in params:
            B[p].tensor = torch.tensor(value(p, s if p in batched else None), dtype=torch.float64)
        for k in ('freqs',):
            if k in B:
                B[k].tensor = B[k].tensor.to(torch.float64)
        vs = evaluate(B[target], opts).to(torch.float64)
        if vs.numel() != val[s].numel() or not torch.allclose(val[s].reshape(-1), vs.reshape(-1), rtol=1e-8, atol=1e-10):
            return True, f'sample {s}: batched value {val[s].tolist()} but slice alone gives {vs.tolist()}'
    return False, 'agree'


def subsets(names, tier):
    names = sorted(names)
    allp = frozenset(names)
    out = {allp}
    for n in names:
        out.add(frozenset([n]))
        out.add(allp - {n})
    if tier == 'thorough':
        for r in range(1, len(names) + 1):
            for c in itertools.combinations(names, r):
                out.add(frozenset(c))
    out.discard(frozenset())
    return sorted(out, key=lambda s: (len(s), sorted(s)))


def tasks_for(tier):
    ts = []
    for cname, mk in CASES.items():
        _, params, _, _ = mk()
        for sub in subsets(params.keys(), tier):
            ts.append((cname, sub))
    return ts


def body(chk):
    chk.explanation = ('two-run relational symbolic execution: the real model evaluated with a subset of parameters batched '
                       '[2] (distinct symbols per sample) versus freshly built copies evaluated on each slice; equality per '
                       'sample index decided by the solver for all parameter values (a mixing bug gives a value that mentions '
                       'symbols of the other sample)')
    chk.total.assumptions |= {'eigh is a functional contract stub (same symbolic input -> same symbols), so batched and sliced runs see the same eigen symbols',
                              'a batched evaluation that raises is accepted by the property ("fails with an error"); such configurations are listed in the notes',
                              'site models and node-height transforms are covered batched in C05 / C06; BDSK in C09'}
    pmap(run_task, tasks_for(chk.tier), chk.total)


if __name__ == '__main__':
    if '--replay' in sys.argv:
        import json

        r = json.load(open(sys.argv[sys.argv.index('--replay') + 1]))
        print('replay:', r['what'])
        sys.exit(1)
    sys.exit(main_for(PID, body))
