"""C10 A sample dimension never mixes samples.

Relational: each callable model is evaluated once with a chosen subset of its
parameters carrying a leading sample shape (distinct symbols per sample) and once
per slice on a freshly built copy; equality is decided for every sample index.
A configuration that raises is accepted ("fails with an error rather than
returning a number"); one that returns must match.

Sample shape [2] for every case.  For the tree likelihood (expand / reshape of
rates, branch lengths, matrices, frequencies: TreeLikelihoodModel._call, p_t, the
calculate_treelikelihood_* kernels) EVERY parameter of the composite - including
the equilibrium frequencies and GTR rates - is batchable, and the sample shapes
[S] / [S,K] are chosen so that a sample axis has the size of each structural axis
of the kernel in turn (rate categories 1..5, 4 states, 4 branches, 3 patterns):
a broadcast of a sample axis against one of those axes needs equal sizes (or 1).
"""
from __future__ import annotations

import itertools
import math
import sys

import torch

import common as cm
from symtorch import SymTensor, cur, from_ids, new_vars, tracing
from symtorch.axioms import ground_axioms
from vlib.core import main_for, pmap

PID = 'C10'
PIN_TIMEOUT = 4  # s, z3 only; pinned (witness-point) queries answer in < 1 s on an idle machine
S = 2  # default sample shape [2]; tasks carry their own sample shape (see SHAPES_*)
SEQS = {'t0': 'ACRA', 't1': 'CG-C', 't2': 'GTNG'}
# rescaled kernels: no column in which two tips are both missing - such a cherry has partials identically 1, the scaler is an exact
# tie over all categories x states and the argmax decided on the float witness is not reproducible over the reals
SEQS_RESCALED = {'t0': 'ACRA', 't1': 'CGTC', 't2': 'GT-G'}


def register():
    import torchtree.distributions.ctmc_scale  # noqa
    import torchtree.distributions.distributions  # noqa
    import torchtree.distributions.gmrf  # noqa
    import torchtree.distributions.joint_distribution  # noqa
    import torchtree.distributions.tree_prior  # noqa
    import torchtree.evolution.coalescent  # noqa
    import torchtree.evolution.tree_likelihood  # noqa


# ------------------------------------------------------------------ cases: (spec list, params {id: (values, domain)}, evaluator id)
def P(vals, lo=None, hi=None):
    return (vals, lo, hi)


def case_coalescent(kind):
    taxa = cm.taxa_json(3)
    tree = cm.time_tree_json(((0, 1), 2), 3)
    tree['taxa'] = taxa
    params = {'tree.heights': P([1.0, 2.5], 0.01, None)}
    if kind == 'constant':
        m = {'id': 'm', 'type': 'ConstantCoalescentModel', 'theta': {'id': 'theta', 'type': 'Parameter', 'tensor': [2.0]}, 'tree_model': tree}
        params['theta'] = P([2.0], 0.01, None)
    elif kind == 'exponential':
        m = {'id': 'm', 'type': 'ExponentialCoalescentModel', 'theta': {'id': 'theta', 'type': 'Parameter', 'tensor': [2.0]},
             'growth': {'id': 'growth', 'type': 'Parameter', 'tensor': [0.4]}, 'tree_model': tree}
        params['theta'] = P([2.0], 0.01, None)
        params['growth'] = P([0.4], 0.01, None)
    elif kind == 'skyride':
        m = {'id': 'm', 'type': 'PiecewiseConstantCoalescentModel', 'theta': {'id': 'theta', 'type': 'Parameter', 'tensor': [2.0, 3.0]},
             'tree_model': tree}
        params['theta'] = P([2.0, 3.0], 0.01, None)
    else:
        m = {'id': 'm', 'type': 'PiecewiseConstantCoalescentGridModel',
             'theta': {'id': 'theta', 'type': 'Parameter', 'tensor': [2.0, 3.0]}, 'grid': [1.7], 'tree_model': tree}
        params['theta'] = P([2.0, 3.0], 0.01, None)
    return [m], params, 'm', {'heights_order': True}


def case_plinear():
    taxa = cm.taxa_json(3)
    tree = cm.time_tree_json(((0, 1), 2), 3)
    tree['taxa'] = taxa
    m = {'id': 'm', 'type': 'PiecewiseLinearCoalescentGridModel', 'theta': {'id': 'theta', 'type': 'Parameter', 'tensor': [2.0, 3.0]},
         'grid': [1.7], 'tree_model': tree}
    return [m], {'theta': P([2.0, 3.0], 0.01, None), 'tree.heights': P([1.0, 2.5], 0.01, None)}, 'm', {'heights_order': True}


def case_subst(kind):
    """p_t of a substitution model as the evaluated quantity (value shape [S, 1, 1, 4, 4] flattened per sample)"""
    if kind == 'GTR':
        sm = {'id': 'subst', 'type': 'GTR', 'rates': {'id': 'rates', 'type': 'Parameter', 'tensor': [0.8, 1.1, 1.4, 1.7, 2.0, 2.3]},
              'frequencies': {'id': 'freqs', 'type': 'Parameter', 'tensor': [0.1, 0.2, 0.3, 0.4]}}
        params = {'rates': P([0.8, 1.1, 1.4, 1.7, 2.0, 2.3], 0.01, None), 'freqs': P([0.1, 0.2, 0.3, 0.4], 0.01, None)}
    else:
        sm = {'id': 'subst', 'type': 'HKY', 'kappa': {'id': 'kappa', 'type': 'Parameter', 'tensor': [3.0]},
              'frequencies': {'id': 'freqs', 'type': 'Parameter', 'tensor': [0.1, 0.2, 0.3, 0.4]}}
        params = {'kappa': P([3.0], 0.01, None), 'freqs': P([0.1, 0.2, 0.3, 0.4], 0.01, None)}
    return [sm], params, 'subst', {'evaluate': 'q'}


def case_gmrf():
    m = {'id': 'm', 'type': 'GMRF', 'x': {'id': 'field', 'type': 'Parameter', 'tensor': [0.1, 0.5, 0.2]},
         'precision': {'id': 'tau', 'type': 'Parameter', 'tensor': [1.5]}}
    return [m], {'field': P([0.1, 0.5, 0.2]), 'tau': P([1.5], 0.01, None)}, 'm', {}


def case_ctmc():
    taxa = cm.taxa_json(3)
    tree = cm.time_tree_json(((0, 1), 2), 3)
    tree['taxa'] = taxa
    m = {'id': 'm', 'type': 'CTMCScale', 'x': {'id': 'rate', 'type': 'Parameter', 'tensor': [0.02]}, 'tree_model': tree}
    return [m], {'rate': P([0.02], 0.001, None), 'tree.heights': P([1.0, 2.5], 0.01, None)}, 'm', {'heights_order': True}


def case_tree_prior():
    taxa = cm.taxa_json(4)
    tree = cm.unrooted_tree_json(cm.balanced(4), 4)
    tree['taxa'] = taxa
    m = {'id': 'm', 'type': 'CompoundGammaDirichletPrior', 'tree_model': tree,
         'alpha': {'id': 'alpha', 'type': 'Parameter', 'tensor': [1.3]}, 'c': {'id': 'c', 'type': 'Parameter', 'tensor': [0.7]},
         'shape': {'id': 'shape', 'type': 'Parameter', 'tensor': [1.1]}, 'rate': {'id': 'rate', 'type': 'Parameter', 'tensor': [0.9]}}
    return [m], {'tree.blens': P([0.1, 0.2, 0.15, 0.3, 0.25], 0.001, None), 'alpha': P([1.3], 0.01, None)}, 'm', {}


def case_distribution(kind):
    if kind == 'normal':
        m = {'id': 'm', 'type': 'Distribution', 'distribution': 'torch.distributions.Normal',
             'x': {'id': 'x', 'type': 'Parameter', 'tensor': [0.3, -0.2]},
             'parameters': {'loc': {'id': 'loc', 'type': 'Parameter', 'tensor': [0.1, 0.4]},
                            'scale': {'id': 'scale', 'type': 'Parameter', 'tensor': [0.5, 1.5]}}}
        params = {'x': P([0.3, -0.2]), 'loc': P([0.1, 0.4]), 'scale': P([0.5, 1.5], 0.01, None)}
    else:
        m = {'id': 'm', 'type': 'Distribution', 'distribution': 'torch.distributions.Gamma',
             'x': {'id': 'x', 'type': 'Parameter', 'tensor': [0.7]},
             'parameters': {'concentration': {'id': 'conc', 'type': 'Parameter', 'tensor': [2.0]},
                            'rate': {'id': 'grate', 'type': 'Parameter', 'tensor': [1.5]}}}
        params = {'x': P([0.7], 0.01, None), 'conc': P([2.0], 0.01, None), 'grate': P([1.5], 0.01, None)}
    return [m], params, 'm', {}


def case_joint():
    specs = [
        {'id': 'd1', 'type': 'Distribution', 'distribution': 'torch.distributions.Normal',
         'x': {'id': 'x', 'type': 'Parameter', 'tensor': [0.3, -0.2]},
         'parameters': {'loc': {'id': 'loc', 'type': 'Parameter', 'tensor': [0.1]},
                        'scale': {'id': 'scale', 'type': 'Parameter', 'tensor': [0.5]}}},
        {'id': 'd2', 'type': 'Distribution', 'distribution': 'torch.distributions.Exponential',
         'x': 'scale', 'parameters': {'rate': {'id': 'erate', 'type': 'Parameter', 'tensor': [2.0]}}},
        {'id': 'g', 'type': 'GMRF', 'x': 'x', 'precision': {'id': 'tau', 'type': 'Parameter', 'tensor': [1.5]}},
        {'id': 'm', 'type': 'JointDistributionModel', 'distributions': ['d1', 'd2', 'g']},
    ]
    return specs, {'x': P([0.3, -0.2]), 'scale': P([0.5], 0.01, None), 'tau': P([1.5], 0.01, None), 'loc': P([0.1])}, 'm', {}


def case_joint_mixed():
    """a batched scalar component next to a component over an UN-batched vector whose length equals the sample count"""
    specs = [
        {'id': 'da', 'type': 'Distribution', 'distribution': 'torch.distributions.Normal',
         'x': {'id': 'a', 'type': 'Parameter', 'tensor': [0.3]},
         'parameters': {'loc': {'id': 'a_loc', 'type': 'Parameter', 'tensor': [0.0]},
                        'scale': {'id': 'a_scale', 'type': 'Parameter', 'tensor': [1.0]}}},
        {'id': 'dy', 'type': 'Distribution', 'distribution': 'torch.distributions.Normal',
         'x': {'id': 'y', 'type': 'Parameter', 'tensor': [-1.0, 0.8]},
         'parameters': {'loc': {'id': 'y_loc', 'type': 'Parameter', 'tensor': [0.5]},
                        'scale': {'id': 'y_scale', 'type': 'Parameter', 'tensor': [2.0]}}},
        {'id': 'm', 'type': 'JointDistributionModel', 'distributions': ['da', 'dy']},
    ]
    return specs, {'a': P([0.3]), 'y': P([-1.0, 0.8]), 'a_scale': P([1.0], 0.01, None)}, 'm', {}


def case_likelihood(tree_kind, site_kind, subst, categories=2, tip_states=False, mu=False, rescale=False):
    """TreeLikelihoodModel on 3 taxa / 3 site patterns.  Structural axes of the kernel: branches 4, rate categories K
    (1 constant, 2 invariant, `categories` Weibull), states 4, patterns 3 - the sample shapes of SHAPES_LIKE are chosen
    to collide with each of them.  Every parameter of the composite is in `params` (= may carry the sample dimension):
    branch lengths / heights, clock rates, site-model shape / pinv / mu, kappa or GTR rates, AND the frequencies."""
    taxa = cm.taxa_json(3)
    params = {}
    if tree_kind == 'unrooted':
        tree = cm.unrooted_tree_json(((0, 1), 2), 3)
        params['tree.blens'] = P([0.1, 0.2, 0.15], 0.001, None)
    else:
        tree = cm.time_tree_json(((0, 1), 2), 3)
        params['tree.heights'] = P([1.0, 2.5], 0.01, None)
    tree['taxa'] = taxa
    site = {'id': 'site', 'type': 'ConstantSiteModel'}
    if site_kind == 'weibull':
        site = {'id': 'site', 'type': 'WeibullSiteModel', 'categories': categories,
                'shape': {'id': 'shape', 'type': 'Parameter', 'tensor': [0.7]}}
        params['shape'] = P([0.7], 0.05, None)
    elif site_kind == 'invariant':
        site = {'id': 'site', 'type': 'InvariantSiteModel', 'invariant': {'id': 'pinv', 'type': 'Parameter', 'tensor': [0.2]}}
        params['pinv'] = P([0.2], 0.01, 0.9)
    if mu:
        site['mu'] = {'id': 'mu', 'type': 'Parameter', 'tensor': [1.3]}
        params['mu'] = P([1.3], 0.01, None)
    if subst == 'JC69':
        sm = {'id': 'subst', 'type': 'JC69'}
    elif subst == 'GTR':
        sm = {'id': 'subst', 'type': 'GTR', 'rates': {'id': 'rates', 'type': 'Parameter', 'tensor': [0.8, 1.1, 1.4, 1.7, 2.0, 2.3]},
              'frequencies': {'id': 'freqs', 'type': 'Parameter', 'tensor': [0.1, 0.2, 0.3, 0.4]}}
        params['rates'] = P([0.8, 1.1, 1.4, 1.7, 2.0, 2.3], 0.01, None)
        params['freqs'] = P([0.1, 0.2, 0.3, 0.4], 0.01, None)
    else:
        sm = {'id': 'subst', 'type': 'HKY', 'kappa': {'id': 'kappa', 'type': 'Parameter', 'tensor': [3.0]},
              'frequencies': {'id': 'freqs', 'type': 'Parameter', 'tensor': [0.1, 0.2, 0.3, 0.4]}}
        params['kappa'] = P([3.0], 0.1, None)
        params['freqs'] = P([0.1, 0.2, 0.3, 0.4], 0.01, None)
    like = {'id': 'm', 'type': 'TreeLikelihoodModel', 'tree_model': tree, 'site_model': site, 'substitution_model': sm,
            'site_pattern': {'id': 'sp', 'type': 'SitePattern', 'alignment': cm.alignment_json(SEQS_RESCALED if rescale else SEQS, taxa='taxa')}}
    if tip_states:
        like['use_tip_states'] = True
    if tree_kind == 'strict':
        like['branch_model'] = {'id': 'clock', 'type': 'StrictClockModel', 'tree_model': 'tree',
                                'rate': {'id': 'rate', 'type': 'Parameter', 'tensor': [0.01]}}
        params['rate'] = P([0.01], 0.0001, None)
    elif tree_kind == 'simple':
        like['branch_model'] = {'id': 'clock', 'type': 'SimpleClockModel', 'tree_model': 'tree',
                                'rate': {'id': 'rate', 'type': 'Parameter', 'tensor': [0.01, 0.02, 0.015, 0.03]}}
        params['rate'] = P([0.01, 0.02, 0.015, 0.03], 0.0001, None)
    return [like], params, 'm', {'heights_order': tree_kind != 'unrooted', 'likelihood': True, 'rescale': rescale}


CASES = {
    'coalescent:constant': lambda: case_coalescent('constant'),
    'coalescent:exponential': lambda: case_coalescent('exponential'),
    'coalescent:skyride': lambda: case_coalescent('skyride'),
    'coalescent:skygrid': lambda: case_coalescent('skygrid'),
    'coalescent:piecewise-linear': case_plinear,
    'substitution:GTR.q': lambda: case_subst('GTR'),
    'substitution:HKY.q': lambda: case_subst('HKY'),
    'gmrf': case_gmrf,
    'ctmc_scale': case_ctmc,
    'tree_prior': case_tree_prior,
    'distribution:normal': lambda: case_distribution('normal'),
    'distribution:gamma': lambda: case_distribution('gamma'),
    'joint': case_joint,
    'joint:batched scalar + unbatched vector of length S': case_joint_mixed,
    'likelihood:unrooted/constant/JC69': lambda: case_likelihood('unrooted', 'constant', 'JC69'),
    'likelihood:strict/weibull/JC69': lambda: case_likelihood('strict', 'weibull', 'JC69'),
    'likelihood:simple/invariant/JC69': lambda: case_likelihood('simple', 'invariant', 'JC69'),
    'likelihood:unrooted/weibull/HKY': lambda: case_likelihood('unrooted', 'weibull', 'HKY'),
    'likelihood:strict/constant/HKY': lambda: case_likelihood('strict', 'constant', 'HKY'),
    # --- substitution-model parameters (incl. frequencies) batched against every structural axis of the kernel
    'likelihood:unrooted/constant/HKY': lambda: case_likelihood('unrooted', 'constant', 'HKY'),
    'likelihood:unrooted/weibull3/HKY': lambda: case_likelihood('unrooted', 'weibull', 'HKY', categories=3),
    'likelihood:unrooted/weibull4/HKY': lambda: case_likelihood('unrooted', 'weibull', 'HKY', categories=4),
    'likelihood:unrooted/weibull5/HKY': lambda: case_likelihood('unrooted', 'weibull', 'HKY', categories=5),
    'likelihood:unrooted/invariant/HKY': lambda: case_likelihood('unrooted', 'invariant', 'HKY'),
    'likelihood:unrooted/constant+mu/HKY': lambda: case_likelihood('unrooted', 'constant', 'HKY', mu=True),
    'likelihood:simple/weibull3/HKY': lambda: case_likelihood('simple', 'weibull', 'HKY', categories=3),
    'likelihood:unrooted/constant/GTR': lambda: case_likelihood('unrooted', 'constant', 'GTR'),
    'likelihood:unrooted/weibull/GTR': lambda: case_likelihood('unrooted', 'weibull', 'GTR'),
    'likelihood:unrooted/weibull3/GTR': lambda: case_likelihood('unrooted', 'weibull', 'GTR', categories=3),
    'likelihood:unrooted/constant/HKY/tip-states': lambda: case_likelihood('unrooted', 'constant', 'HKY', tip_states=True),
    'likelihood:unrooted/weibull/HKY/tip-states': lambda: case_likelihood('unrooted', 'weibull', 'HKY', tip_states=True),
    'likelihood:unrooted/weibull3/HKY/tip-states': lambda: case_likelihood('unrooted', 'weibull', 'HKY', categories=3, tip_states=True),
    'likelihood:unrooted/weibull/JC69/tip-states': lambda: case_likelihood('unrooted', 'weibull', 'JC69', tip_states=True),
    'likelihood:unrooted/constant/HKY/rescaled': lambda: case_likelihood('unrooted', 'constant', 'HKY', rescale=True),
    'likelihood:unrooted/weibull/HKY/rescaled': lambda: case_likelihood('unrooted', 'weibull', 'HKY', rescale=True),
    'likelihood:unrooted/weibull3/HKY/rescaled': lambda: case_likelihood('unrooted', 'weibull', 'HKY', categories=3, rescale=True),
    'likelihood:unrooted/weibull/HKY/tip-states/rescaled': lambda: case_likelihood('unrooted', 'weibull', 'HKY', tip_states=True, rescale=True),
}

# number of rate categories of a likelihood case (the structural axis next to the sample axes in mats / partials / props)
CATS = {'constant': 1, 'constant+mu': 1, 'invariant': 2, 'weibull': 2, 'weibull3': 3, 'weibull4': 4, 'weibull5': 5}


def categories_of(cname):
    return CATS[cname.split('/')[1]]


def build(specs):
    from torchtree.core.utils import process_objects

    register()
    dic = {}
    for sp in specs:
        process_objects(sp, dic)
    return dic


def evaluate(obj, opts):
    if opts.get('evaluate') == 'q':
        return obj.q()
    if opts.get('rescale'):
        obj.rescale = True  # the state TreeLikelihoodModel keeps after the first underflow: rescaled kernels from then on
    return obj()


def sample_indices(shape):
    return list(itertools.product(*[range(n) for n in shape]))


def tag_of(idx):
    """name suffix of the per-sample symbols: 'p@1' for sample shape [S], 'p@1.0' for [S,K]"""
    return '.'.join(str(i) for i in idx)


def offset_of(k, n):
    """generic per-sample witness offset (k = flat sample index, n = number of samples): distinct values per sample"""
    return (0.11 if n <= 5 else 0.04) * (k + 1)


def exact_model(d, roots):
    """Explicit model at the witness point, evaluated in exact rational arithmetic: input symbols and stub output symbols
    take their witness values, every uninterpreted application (exp, log, sqrt, pow, lgamma, ...) takes the value it had in the
    witness execution (applications whose exact arguments coincide share one value, so the interpretation is a function).
    Returns {node: value} for the cone of `roots`, or None when no such model could be built (division by zero,
    non-finite value, unknown operator)."""
    from fractions import Fraction

    out = {}
    table = {}
    try:
        for n in d.topo(list(roots)):
            op = d.ops[n]
            a = d.args[n]
            if op == 'const':
                v = a[0]
            elif op == 'bconst':
                v = a[0]
            elif op == 'var':
                v = Fraction(d.vals[n])
            elif op == 'uf':
                if not math.isfinite(d.vals[n]):
                    return None
                # one value per (function, exact arguments): the witness value of the first application met
                key = (a[0],) + tuple(out[c] for c in a[1:])
                v = table.setdefault(key, Fraction(d.vals[n]))
            elif op == 'add':
                v = out[a[0]] + out[a[1]]
            elif op == 'mul':
                v = out[a[0]] * out[a[1]]
            elif op == 'div':
                if out[a[1]] == 0:
                    return None
                v = out[a[0]] / out[a[1]]
            elif op == 'ipow':
                if a[1] < 0 and out[a[0]] == 0:
                    return None
                v = out[a[0]] ** a[1]
            elif op == 'stop':
                v = out[a[0]]
            elif op == 'ite':
                v = out[a[1]] if out[a[0]] else out[a[2]]
            elif op == 'le':
                v = out[a[0]] <= out[a[1]]
            elif op == 'lt':
                v = out[a[0]] < out[a[1]]
            elif op == 'eq':
                v = out[a[0]] == out[a[1]]
            elif op == 'and':
                v = all(out[c] for c in a)
            elif op == 'or':
                v = any(out[c] for c in a)
            elif op == 'not':
                v = not out[a[0]]
            else:
                return None
            out[n] = v
    except (ValueError, OverflowError, ZeroDivisionError, TypeError):
        return None
    return out


def model_separates(d, hyps, eq_node):
    """True when the explicit witness model satisfies every hypothesis and falsifies eq_node (a constructive `sat`)"""
    m = exact_model(d, list(hyps) + [eq_node])
    return m is not None and all(m[h] is True for h in hyps) and m[eq_node] is False


def witness_differs(d, eq_node):
    """float witness values of the two sides of a conjunction of equalities differ visibly (candidate for a replay only)"""
    eqs = [eq_node] if d.ops[eq_node] == 'eq' else [c for c in d.args[eq_node] if d.ops[c] == 'eq'] if d.ops[eq_node] == 'and' else []
    for e in eqs:
        x, y = (d.vals[c] for c in d.args[e])
        if not (abs(x - y) <= 1e-9 * max(1.0, abs(x), abs(y))):
            return True
    return False


def label_of(cname, batched, shape):
    label = f'{cname} batched={sorted(batched)}'
    if tuple(shape) != (S,):
        label += f' sample_shape={list(shape)}'
    return label


def run_task(task, tr):
    from symtorch.tensor import UnsupportedOp
    from torchtree.core import model as coremodel
    from torchtree.distributions.joint_distribution import JointDistributionModel
    from torchtree.evolution import tree_likelihood as tl
    from torchtree.evolution.substitution_model.abstract import SymmetricSubstitutionModel
    from torchtree.evolution.tree_likelihood import TreeLikelihoodModel

    cname, batched = task[0], task[1]
    shape = tuple(task[2]) if len(task) > 2 else (S,)
    idxs = sample_indices(shape)
    nS = len(idxs)
    label = label_of(cname, batched, shape)
    tr.fn(coremodel.CallableModel.__call__, JointDistributionModel.log_prob, TreeLikelihoodModel._call)
    tr.bounds['shapes'] = ('sample shape [2] for every case; quick: all-batched, each-one-unbatched, each-one-batched; '
                           'thorough: every subset at [2], and the quick selection at [3] and [2,2]; likelihood cases: see "likelihood"')
    specs, params, target, opts = CASES[cname]()
    if opts.get('likelihood'):
        tr.fn(tl.calculate_treelikelihood_discrete, tl.calculate_treelikelihood_tip_states_discrete,
              SymmetricSubstitutionModel.p_t, TreeLikelihoodModel._sample_shape)
        tr.bounds['likelihood'] = BOUNDS_LIKE
        tr.stubs.add('torch.linalg.eigh / inverse of the eigenvector matrix (HKY, GTR p_t): functional contract stub, batch-capable - '
                     'the same symbolic matrix gives the same eigen symbols in the batched and in the per-slice run')
        tr.assumptions.add('likelihood cases: 3 taxa, topology ((t0,t1),t2), alignment ACRA/CG-C/GTNG (3 patterns, weights 2,1,1, '
                           'one ambiguity code, one gap, one N; ACRA/CGTC/GT-G for the rescaled kernels: no column with two missing tips, '
                           'whose scaler would be an exact tie); parameter values are symbolic, topology and data are fixed')
        tr.assumptions.add('likelihood cases: over the reals every log-likelihood is finite, so the isinf test of _call takes the '
                           'non-rescaled kernel; the rescaled kernels are entered through the state rescale=True that the model keeps after '
                           'a first underflow ("/rescaled" cases); calculate_treelikelihood_discrete_safe (the one call in which the '
                           'underflow is detected) is not covered here - C03')
        if opts.get('rescale'):
            tr.fn(tl.calculate_treelikelihood_discrete_rescaled, tl.calculate_treelikelihood_tip_states_discrete_rescaled)
            tr.bounds['likelihood, rescaled kernels'] = ('decided on the path region of the witness only: the position of the per-site '
                                                         'maximum (scaler) of every internal node is fixed by path conditions, identical in the '
                                                         'batched and the per-slice run; no coverage certificate over the other argmax patterns')
    with tracing() as t:
        d = t.dag
        dom = []
        V = {}

        def symbols(pname, k, idx):
            vals, lo, hi = params[pname]
            off = 0.0 if idx is None else offset_of(k, nS)
            vv = [v * (1 + off) + (off if lo is None else 0) for v in vals]
            nm = pname if idx is None else f'{pname}@{tag_of(idx)}'
            st = new_vars(nm, torch.tensor(vv, dtype=torch.float64))
            for i in st._ids.tolist():
                V[d.args[i][0]] = i
                if lo is not None:
                    dom.append(d.lt(d.const(lo), i))
                if hi is not None:
                    dom.append(d.lt(i, d.const(hi)))
            return st

        shared = {p: symbols(p, None, None) for p in params if p not in batched}
        per_s = {p: {idx: symbols(p, k, idx) for k, idx in enumerate(idxs)} for p in batched}
        if opts.get('heights_order'):
            hs = [per_s['tree.heights'][idx] for idx in idxs] if 'tree.heights' in batched else [shared['tree.heights']]
            for h in hs:
                ids = h._ids.tolist()
                dom.append(d.lt(ids[0], ids[1]))
        # batched run
        A = build(specs)
        raised = None
        engine = False
        try:
            for p in params:
                if p in batched:
                    ids = torch.stack([per_s[p][idx]._ids for idx in idxs])
                    A[p].tensor = from_ids(ids.reshape(shape + (ids.shape[-1],)))
                else:
                    A[p].tensor = from_ids(shared[p]._ids.clone())
            val = evaluate(A[target], opts)
        except Exception as e:  # unsupported shape combination: allowed to fail loudly
            raised = f'{type(e).__name__}: {e}'
            engine = isinstance(e, UnsupportedOp)
        tr.witness_runs += 1
        tr.regions += 1
        if raised is not None and engine:
            # the ENGINE could not follow the code: that is not "the library fails with an error".  Decide on the real
            # code whether the configuration raises; if it returns a number the configuration is undecided.
            try:
                rep, detail = replay_case(cname, batched, {}, shape)
            except Exception as e:  # noqa
                rep, detail = None, f'{type(e).__name__}: {e}'
            if rep is False and detail.startswith('batched evaluation raises'):
                raised = detail
            elif opts.get('likelihood'):
                tr.inconc(f'{label}: symbolic engine limitation ({raised[:80]}) and the real code returns a value: undecided')
                return
            else:
                tr.bounds[f'NOT decided: {label}'] = f'symbolic engine limitation ({raised[:60]}); the real code returns a value; only the concrete witness replay was run'
                tr.notes.append(f'{label}: NOT DECIDED - the symbolic engine does not support an operation on this path ({raised[:60]}); '
                                f'concrete witness replay on the real code: {detail[:80]}')
                tr.sample({'case': label, 'outcome': 'not decided (engine limitation)', 'error': raised[:100]})
                if rep:
                    tr.violation(f'{cname}:batched={sorted(batched)}:mixes-samples',
                                 f'{label}: witness replay on the real code: {detail}', {'label': label, 'values': {}, 'shape': list(shape)})
                return
        if raised is not None:
            tr.notes.append(f'{label}: raises ({raised[:80]}) - accepted: fails with an error rather than returning a number')
            tr.sample({'case': label, 'outcome': 'raises', 'error': raised[:100]})
            tr.obligation(f'raises:{label}', nontrivial=False)
            return
        if t.concretized:
            tr.inconc(f'{label}: concretised {t.concretized[:2]}')
            return
        goals = []
        vb = val._ids
        if vb.dim() < len(shape) or tuple(vb.shape[:len(shape)]) != shape or vb.numel() % nS:
            goals.append((f'value has one entry per sample (shape {tuple(vb.shape)})', d.FALSE, [], f'{cname}:batched={sorted(batched)}:shape'))
        else:
            for idx in idxs:
                s = tag_of(idx)
                B = build(specs)
                for p in params:
                    src = per_s[p][idx] if p in batched else shared[p]
                    B[p].tensor = from_ids(src._ids.clone())
                vs = evaluate(B[target], opts)
                tr.witness_runs += 1
                a = vb[idx].reshape(-1).tolist()
                b = vs._ids.reshape(-1).tolist()
                if len(a) != len(b):
                    goals.append((f'sample {s}: slice value has the same number of entries', d.FALSE, [], f'{cname}:batched={sorted(batched)}:shape'))
                else:
                    g = d.and_(*[d.eq(x, y) for x, y in zip(a, b)])
                    goals.append((f'sample {s}: value[{s}] == value computed from slice {s} alone', g, ground_axioms(d, [g]),
                                  f'{cname}:batched={sorted(batched)}:mixes-samples'))
        # variables pinned at the (generic, per-sample distinct) witness point: used for `sat` questions only - a model
        # of the pinned query is a model of the unpinned one, and pinning turns the nonlinear search into evaluation
        from symtorch.explore import _to_float, prove

        hyps = dom + list(t.pcs)

        def pins_for(roots):
            """every input symbol, stub output symbol and uninterpreted application (exp/log/sqrt/pow/eigen) below `roots`
            fixed at its value in the explicit witness model: what is left for the solver is rational arithmetic"""
            from fractions import Fraction

            m = exact_model(d, list(roots) + list(V.values())) or {}
            out = []
            for n in sorted(set(d.topo(list(roots))) | set(V.values())):
                if d.ops[n] in ('var', 'uf') and math.isfinite(d.vals[n]):
                    out.append(d.eq(n, d.const(m.get(n, Fraction(d.vals[n])))))
            return out

        # vacuity guard (solver): two samples must be able to produce different values, otherwise mixing
        # could not be observed
        if nS >= 2 and vb.dim() >= len(shape) and tuple(vb.shape[:len(shape)]) == shape:
            a0, a1 = vb[idxs[0]].reshape(-1).tolist(), vb[idxs[1]].reshape(-1).tolist()
            cands = [(d.size([x, y]), d.eq(x, y)) for x, y in zip(a0, a1) if x != y]
            if not cands:
                tr.inconc(f'{label}: vacuity guard: the value does not depend on the batched parameters')
            else:
                guard = min(cands)[1]
                st, r, _ = prove(d, hyps + pins_for([guard]), guard, timeout=PIN_TIMEOUT, solvers=('z3',), tr=tr, label='vacuity guard (witness point)')
                if st != 'refuted' and model_separates(d, hyps, guard):
                    # the solver did not answer in time (machine load): the model is exhibited and checked in exact arithmetic
                    st = 'refuted'
                    tr.notes.append(f'{label}: vacuity guard settled by an explicit model (witness point, exact rational evaluation)')
                if st != 'refuted':
                    st, r, _ = prove(d, hyps, guard, timeout=30, tr=tr, label='vacuity guard', parallel=True)
                if st == 'proved':
                    tr.inconc(f'{label}: vacuity guard: both samples always give the same value')
                elif st != 'refuted' and opts.get('likelihood') and 'freqs' in params:
                    tr.inconc(f'{label}: vacuity guard undecided: no model found in which two samples differ')
        elif nS == 1:
            tr.notes.append(f'{label}: one sample - nothing to mix; decided: the value has shape {list(shape)}+[..] and equals the slice value')
        tr.ops_checked += t.nchecked
        tr.sample({'case': label, 'outcome': 'returns', 'shape': list(vb.shape), 'path_conditions': len(t.pcs)})

        def replay(vals):
            return replay_case(cname, batched, vals, shape)

        before = len(tr.violations)
        # goals that are not closed syntactically: first ask for a counterexample AT the witness point (cheap `sat`), replay it
        # on the real code; whatever is not refuted there goes to the full (unpinned) query
        rest = []
        for g in goals:
            if g[1] in (d.TRUE, d.FALSE) or tr.violations[before:]:
                rest.append(g)
                continue
            st, r, _ = prove(d, hyps + pins_for([g[1]]), g[1], timeout=PIN_TIMEOUT, solvers=('z3',), get_values=list(V.values()), tr=tr,
                             label=g[0] + ' (witness point)')
            vals = None
            if st == 'refuted':
                vals = {n: _to_float(r.values[i]) for n, i in V.items() if i in r.values}
            elif model_separates(d, hyps, g[1]) or witness_differs(d, g[1]):
                # no answer in time (machine load / many path conditions): explicit model at the witness point, checked in
                # exact arithmetic - or at least the float witness execution separates; the replay on the real code decides
                vals = {n: float(d.vals[i]) for n, i in V.items()}
            if vals is not None:
                ok, detail = replay(vals)
                if ok:
                    tr.violation(g[3], f'{label}: {g[0]} fails at {vals}: {detail}', {'label': label, 'values': vals})
                    continue
            rest.append(g)
        if tr.violations[before:]:
            # a replayed counterexample exists for this configuration: the remaining open equalities of the same configuration
            # are not pushed through the 40 s unpinned query
            skipped = [g for g in rest if g[1] not in (d.TRUE, d.FALSE)]
            rest = [g for g in rest if g[1] in (d.TRUE, d.FALSE)]
            if skipped:
                tr.notes.append(f'{label}: {len(skipped)} further sample equalities not queried after the replayed counterexample')
        # eigen contract rows as hypotheses are not needed: the stub is functional (same input -> same symbols)
        cm.discharge(tr, d, hyps, rest, label, replay=replay, varnodes=V, defined=False, timeout=40,
                     threads=2, parallel=True)
        for v in tr.violations[before:]:
            if isinstance(v.get('replay'), dict):
                v['replay'].update({'case': cname, 'batched': sorted(batched), 'shape': list(shape)})


def replay_case(cname, batched, vals, shape=(S,)):
    """plain tensors on the real code: batched evaluation against per-slice evaluations of freshly built copies"""
    specs, params, target, opts = CASES[cname]()
    shape = tuple(shape)
    idxs = sample_indices(shape)
    nS = len(idxs)

    def value(p, k, idx):
        base, lo, hi = params[p]
        names = cm.names_shaped(p if idx is None else f'{p}@{tag_of(idx)}', (len(base),))
        out = []
        for nm, b in zip(names, base):
            off = 0.0 if idx is None else offset_of(k, nS)
            v = vals.get(nm, b * (1 + off) + (off if (lo is None and idx is not None) else 0))
            if lo is not None and v <= lo:
                v = lo + abs(b)
            if hi is not None and v >= hi:
                v = hi - 0.05
            out.append(v)
        if p == 'tree.heights':
            out = sorted(out)
            if out[0] == out[1]:
                out[1] += 0.5
        return out

    A = build(specs)
    try:
        for p in params:
            if p in batched:
                A[p].tensor = torch.tensor([value(p, k, idx) for k, idx in enumerate(idxs)], dtype=torch.float64).reshape(shape + (-1,))
            else:
                A[p].tensor = torch.tensor(value(p, None, None), dtype=torch.float64)
        for k in ('freqs',):
            if k in A:
                A[k].tensor = A[k].tensor.to(torch.float64)
        val = evaluate(A[target], opts).to(torch.float64)
    except Exception as e:
        return False, f'batched evaluation raises ({type(e).__name__}): accepted'
    if val.dim() < len(shape) or tuple(val.shape[:len(shape)]) != shape:
        return True, f'value has shape {tuple(val.shape)}: not one entry per sample of sample shape {list(shape)}'
    for k, idx in enumerate(idxs):
        B = build(specs)
        for p in params:
            B[p].tensor = torch.tensor(value(p, k, idx) if p in batched else value(p, None, None), dtype=torch.float64)
        for kk in ('freqs',):
            if kk in B:
                B[kk].tensor = B[kk].tensor.to(torch.float64)
        vs = evaluate(B[target], opts).to(torch.float64)
        if vs.numel() != val[idx].numel() or not torch.allclose(val[idx].reshape(-1), vs.reshape(-1), rtol=1e-8, atol=1e-10):
            return True, f'sample {tag_of(idx)}: batched value {val[idx].tolist()} but slice alone gives {vs.tolist()}'
    return False, 'agree'


def subsets(names, tier):
    names = sorted(names)
    allp = frozenset(names)
    out = {allp}
    for n in names:
        out.add(frozenset([n]))
        out.add(allp - {n})
    if tier == 'thorough':
        for r in range(1, len(names) + 1):
            for c in itertools.combinations(names, r):
                out.add(frozenset(c))
    out.discard(frozenset())
    return sorted(out, key=lambda s: (len(s), sorted(s)))


BOUNDS_LIKE = ''  # set by body()


def like_subsets(params, tier):
    """subsets of a likelihood case that carry the sample dimension on the substitution model"""
    names = sorted(params)
    sub_params = [p for p in ('kappa', 'rates', 'freqs') if p in params]
    out = []
    for sub in subsets(names, 'thorough'):
        if not (sub & set(sub_params)):
            continue
        out.append(sub)
    if tier != 'thorough':
        # all, substitution model only, frequencies only, substitution model + each single other parameter,
        # everything but the frequencies / but the exchangeabilities
        sm = frozenset(sub_params)
        keep = {frozenset(names), sm, frozenset(['freqs']), frozenset(names) - {'freqs'}, frozenset(names) - (sm - {'freqs'})}
        for n in names:
            keep.add(sm | {n})
        out = [s for s in out if s in keep]
    return out


OLD_CASES = [c for c in CASES if not c.startswith('likelihood:')] + [
    'likelihood:unrooted/constant/JC69', 'likelihood:strict/weibull/JC69', 'likelihood:simple/invariant/JC69',
    'likelihood:unrooted/weibull/HKY', 'likelihood:strict/constant/HKY']

GRID1 = [(s,) for s in range(1, 6)]
GRID2 = [(s, k) for s in range(1, 6) for k in range(1, 6)]
# sample shapes per likelihood case; chosen so that a sample axis has the size of each structural axis in turn
# (rate categories K, states 4, branches 4, patterns 3), is 1, or differs from all of them
LIKE_SHAPES = {
    'quick': {
        'likelihood:unrooted/constant/HKY': [(1,), (3,), (4,), (2, 3)],  # K = 1
        'likelihood:unrooted/weibull/HKY': [(3,), (2, 2), (3, 2)],  # K = 2 ([2] is in the base set)
        'likelihood:unrooted/weibull3/HKY': [(2,), (3,), (2, 3), (3, 3)],  # K = 3
        'likelihood:unrooted/weibull4/HKY': [(4,), (1, 4), (4, 1)],  # K = 4
        'likelihood:unrooted/weibull5/HKY': [(5,)],  # K = 5
        'likelihood:unrooted/invariant/HKY': [(2,), (3,)],  # K = 2
        'likelihood:unrooted/constant+mu/HKY': [(2,)],
        'likelihood:strict/constant/HKY': [(4,)],
        'likelihood:simple/weibull3/HKY': [(3,), (4,)],
        'likelihood:unrooted/constant/GTR': [(2,), (3,)],
        'likelihood:unrooted/weibull/GTR': [(2,), (2, 2)],
        'likelihood:unrooted/weibull3/GTR': [(3,)],
        'likelihood:unrooted/constant/HKY/tip-states': [(2,), (3,)],
        'likelihood:unrooted/weibull/HKY/tip-states': [(2,), (3, 2)],
        'likelihood:unrooted/weibull3/HKY/tip-states': [(3,)],
        'likelihood:unrooted/weibull/JC69/tip-states': [(2,)],
        'likelihood:unrooted/constant/HKY/rescaled': [(3,)],
        'likelihood:unrooted/weibull/HKY/rescaled': [(2,), (2, 2)],
        'likelihood:unrooted/weibull3/HKY/rescaled': [(3,)],
        'likelihood:unrooted/weibull/HKY/tip-states/rescaled': [(2,)],
    },
    'thorough': {
        'likelihood:unrooted/constant/HKY': GRID1 + GRID2,
        'likelihood:unrooted/weibull/HKY': GRID1 + GRID2,
        'likelihood:unrooted/weibull3/HKY': GRID1 + GRID2,
        'likelihood:unrooted/weibull4/HKY': GRID1 + [(1, 4), (4, 1), (4, 4), (2, 4), (4, 2), (3, 4)],
        'likelihood:unrooted/weibull5/HKY': GRID1 + [(1, 5), (5, 1), (5, 5), (2, 5), (5, 2)],
        'likelihood:unrooted/invariant/HKY': GRID1 + [(2, 2), (3, 2), (2, 3)],
        'likelihood:unrooted/constant+mu/HKY': GRID1 + [(2, 2), (2, 3)],
        'likelihood:strict/constant/HKY': GRID1 + [(2, 2), (2, 4)],
        'likelihood:simple/weibull3/HKY': GRID1 + [(2, 3), (3, 3), (3, 4)],
        'likelihood:unrooted/constant/GTR': GRID1 + [(2, 2), (2, 3), (3, 4)],
        'likelihood:unrooted/weibull/GTR': GRID1 + [(2, 2), (3, 2), (2, 3)],
        'likelihood:unrooted/weibull3/GTR': GRID1 + [(2, 3), (3, 3)],
        'likelihood:unrooted/constant/HKY/tip-states': GRID1 + [(2, 2), (2, 3), (3, 4)],
        'likelihood:unrooted/weibull/HKY/tip-states': GRID1 + [(2, 2), (3, 2), (2, 3)],
        'likelihood:unrooted/weibull3/HKY/tip-states': GRID1 + [(2, 3), (3, 3)],
        'likelihood:unrooted/weibull/JC69/tip-states': GRID1 + [(2, 2), (3, 2)],
        'likelihood:unrooted/constant/HKY/rescaled': GRID1 + [(2, 3)],
        'likelihood:unrooted/weibull/HKY/rescaled': GRID1 + [(2, 2), (3, 2)],
        'likelihood:unrooted/weibull3/HKY/rescaled': GRID1 + [(2, 3), (3, 3)],
        'likelihood:unrooted/weibull/HKY/tip-states/rescaled': GRID1 + [(2, 2)],
    },
}
# thorough: every subset (that batches a substitution-model parameter) for sample shapes [S]; the selection of
# like_subsets(quick) for sample shapes [S,K]
# other (non-likelihood) cases, thorough tier only: further sample shapes with the quick subset selection
OTHER_SHAPES_THOROUGH = [(3,), (2, 2)]


def tasks_for(tier):
    ts = []
    for cname in OLD_CASES:
        _, params, _, _ = CASES[cname]()
        for sub in subsets(params.keys(), tier):
            ts.append((cname, sub, (S,)))
    for cname, shapes in LIKE_SHAPES['thorough' if tier == 'thorough' else 'quick'].items():
        _, params, _, _ = CASES[cname]()
        for shape in shapes:
            if any(p in params for p in ('kappa', 'rates', 'freqs')):
                subs = like_subsets(params, tier if len(shape) == 1 else 'quick')
            else:
                subs = subsets(params.keys(), tier if len(shape) == 1 else 'quick')
            for sub in subs:
                ts.append((cname, sub, tuple(shape)))
    if tier == 'thorough':
        for cname in OLD_CASES:
            if cname.startswith('likelihood:') and cname in LIKE_SHAPES['thorough']:
                continue
            _, params, _, _ = CASES[cname]()
            for shape in OTHER_SHAPES_THOROUGH:
                for sub in subsets(params.keys(), 'quick'):
                    ts.append((cname, sub, shape))
    seen = set()
    out = []
    for tsk in ts:
        if tsk not in seen:
            seen.add(tsk)
            out.append(tsk)
    # heavy (many samples) first: better packing over the worker pool
    out.sort(key=lambda x: -torch.Size(x[2]).numel())
    return out


def shapes_text(v):
    v = [tuple(s) for s in v]
    out = []
    if all(s in v for s in GRID1):
        out.append('[S] S=1..5')
        v = [s for s in v if s not in GRID1]
    if all(s in v for s in GRID2):
        out.append('[S,K] S,K=1..5')
        v = [s for s in v if s not in GRID2]
    return ' + '.join(out + [str(list(s)) for s in v])


def bounds_like(tier):
    sh = LIKE_SHAPES['thorough' if tier == 'thorough' else 'quick']
    sel = ('{all, substitution model only, frequencies only, all but frequencies, all but kappa/rates, substitution model + one '
           'other parameter}')
    return ('TreeLikelihoodModel with HKY / GTR, the frequencies among the batchable parameters; kernels: tip partials, tip states, and '
            '(cases "/rescaled") their rescaled variants; rate categories K in 1..5 (constant, constant+mu, invariant, Weibull 2..5); '
            'unrooted / strict-clock / per-branch-clock trees on 3 taxa; every sample shape listed is checked for EVERY sample index; '
            'sample shapes per case (chosen to collide with K, 4 states, 4 branches, 3 patterns, and 1): '
            + '; '.join(f"{c.split(':', 1)[1]}: {shapes_text(v)}" for c, v in sh.items())
            + (f'; subsets: every subset that batches kappa / rates / frequencies for shapes [S], the selection {sel} for [S,K]'
               if tier == 'thorough' else f'; subsets: {sel}')
            + '; the five base likelihood cases (JC69 x3, unrooted/weibull/HKY, strict/constant/HKY) run at [2] with the generic subset '
              'selection, frequencies included')


def body(chk):
    chk.explanation = ('two-run relational symbolic execution: the real model evaluated with a subset of parameters carrying a sample '
                       'shape ([2] everywhere; [S], [S,K] up to 5x5 for the tree likelihood; distinct symbols per sample) versus freshly '
                       'built copies evaluated on each slice; equality for EVERY sample index decided for all parameter values: closed by '
                       'hash-consing when both runs build the identical expression, otherwise by the solver (a mixing bug gives a value '
                       'that mentions symbols of another sample: counterexample first sought at the witness point, replayed on the real '
                       'code with plain tensors); per configuration a solver vacuity guard (two samples CAN give different values: sat, '
                       'with the model checked in exact arithmetic when the solver times out)')
    chk.total.assumptions |= {'eigh is a functional contract stub (same symbolic input -> same symbols), so batched and sliced runs see the same eigen symbols',
                              'a batched evaluation that raises is accepted by the property ("fails with an error"); such configurations are listed in the notes',
                              'site models and node-height transforms are covered batched in C05 / C06; BDSK in C09'}
    global BOUNDS_LIKE
    BOUNDS_LIKE = bounds_like(chk.tier)
    pmap(run_task, tasks_for(chk.tier), chk.total)


if __name__ == '__main__':
    if '--replay' in sys.argv:
        import json

        r = json.load(open(sys.argv[sys.argv.index('--replay') + 1]))
        print('replay:', r['what'])
        rp = r.get('replay') or {}
        if isinstance(rp, dict) and 'case' in rp:
            # re-run the recorded counterexample on the real code (plain tensors, per-slice oracle)
            torch.set_default_dtype(torch.float64)
            bad, detail = replay_case(rp['case'], frozenset(rp['batched']), rp.get('values') or {}, tuple(rp.get('shape', (S,))))
            print('reproduced:' if bad else 'NOT reproduced:', detail)
            sys.exit(1 if bad else 0)
        sys.exit(1)
    sys.exit(main_for(PID, body))
