"""C10 A sample dimension never mixes samples.

Relational: each callable model is evaluated once with a chosen subset of its
parameters carrying a leading sample shape (distinct symbols per sample) and once
per slice on a freshly built copy; equality is decided for every sample index.
A configuration that raises is accepted ("fails with an error rather than
returning a number"); one that returns must match.

Sample shape [2] for every case.  For the tree likelihood (expand / reshape of
rates, branch lengths, matrices, frequencies: TreeLikelihoodModel._call, p_t, the
calculate_treelikelihood_* kernels) EVERY parameter of the composite - including
the equilibrium frequencies and GTR rates - is batchable, and the sample shapes
[S] / [S,K] are chosen so that a sample axis has the size of each structural axis
of the kernel in turn (rate categories 1..5, 4 states, 4 branches, 3 patterns):
a broadcast of a sample axis against one of those axes needs equal sizes (or 1).

Birth-death models (keys 'bdsk:' / 'birthdeath:': BDSKModel with 1-3 epochs, BirthDeathModel) take data-dependent
decisions (searchsorted of event times into the epochs, tips exactly on an epoch boundary, rho = 0 or > 0, masked_select),
so they are decided PER PATH REGION (run_region_task): batched and per-slice executions share one trace per region, the
regions are enumerated with blocking clauses and the closure query is the coverage certificate where the budget allows
(one epoch: whole domain; more epochs: generic stratum / its complement, see bounds_bd).  Sample shapes [2], [3] ([2,2]
thorough) collide with the number of epochs, epoch times, taxa and internal nodes.

Round-5 widening: (1) 'extra:switch ...' cases run the SWITCHING evaluation of the tree likelihood (underflow oracle in place of
torch.isinf, calculate_treelikelihood_discrete_safe with the model's threshold, and the evaluation after it); (2) special values
inside a batch (task modifier {'pin': ...}): one sample's entry is 0 / 1 / equal to another symbol while the others stay
symbolic, so branches taken on any(param == c) over the whole batch are entered; (3) GeneralNonSymmetricSubstitutionModel
(matrix_exp stub) and GeneralSymmetricSubstitutionModel: q, p_t alone, and inside the likelihood with K = 1 and K = S categories.

Keys 'extra:' are further callable models (GMRFCovariate, ConstantCoalescentIntegratedModel, ScaleMixtureNormal,
BayesianBridge, DeterministicNormal, GMRFGammaIntegrated, Distribution over torchtree's OneOnX / LogNormal) in the
single-region scheme.  Not executable by the engine and therefore NOT covered: MultivariateNormal
(torch.linalg.solve_triangular has no handler, matrix-valued parameters); PiecewiseExponentialCoalescentGridModel raises
on every input (C08 known finding), so there is nothing to compare.
"""
from __future__ import annotations

import itertools
import math
import sys

import torch

import common as cm
from symtorch import SymTensor, cur, from_ids, new_vars, tracing
from symtorch.axioms import ground_axioms
from vlib.core import main_for, pmap

PID = 'C10'
PIN_TIMEOUT = 4  # s, z3 only; pinned (witness-point) queries answer in < 1 s on an idle machine
S = 2  # default sample shape [2]; tasks carry their own sample shape (see SHAPES_*)
SEQS = {'t0': 'ACRA', 't1': 'CG-C', 't2': 'GTNG'}
# rescaled kernels: no column in which two tips are both missing - such a cherry has partials identically 1, the scaler is an exact
# tie over all categories x states and the argmax decided on the float witness is not reproducible over the reals
SEQS_RESCALED = {'t0': 'ACRA', 't1': 'CGTC', 't2': 'GT-G'}


def register():
    import torchtree.distributions.bayesian_bridge  # noqa
    import torchtree.distributions.ctmc_scale  # noqa
    import torchtree.distributions.deterministic_normal  # noqa
    import torchtree.distributions.gmrf_integrated  # noqa
    import torchtree.distributions.scale_mixture  # noqa
    import torchtree.distributions.distributions  # noqa
    import torchtree.distributions.gmrf  # noqa
    import torchtree.distributions.joint_distribution  # noqa
    import torchtree.distributions.tree_prior  # noqa
    import torchtree.evolution.bdsk  # noqa
    import torchtree.evolution.birth_death  # noqa
    import torchtree.evolution.coalescent  # noqa
    import torchtree.evolution.tree_likelihood  # noqa


# ------------------------------------------------------------------ cases: (spec list, params {id: (values, domain)}, evaluator id)
def P(vals, lo=None, hi=None):
    return (vals, lo, hi)


def case_coalescent(kind):
    taxa = cm.taxa_json(3)
    tree = cm.time_tree_json(((0, 1), 2), 3)
    tree['taxa'] = taxa
    params = {'tree.heights': P([1.0, 2.5], 0.01, None)}
    if kind == 'constant':
        m = {'id': 'm', 'type': 'ConstantCoalescentModel', 'theta': {'id': 'theta', 'type': 'Parameter', 'tensor': [2.0]}, 'tree_model': tree}
        params['theta'] = P([2.0], 0.01, None)
    elif kind == 'exponential':
        m = {'id': 'm', 'type': 'ExponentialCoalescentModel', 'theta': {'id': 'theta', 'type': 'Parameter', 'tensor': [2.0]},
             'growth': {'id': 'growth', 'type': 'Parameter', 'tensor': [0.4]}, 'tree_model': tree}
        params['theta'] = P([2.0], 0.01, None)
        params['growth'] = P([0.4], 0.01, None)
    elif kind == 'skyride':
        m = {'id': 'm', 'type': 'PiecewiseConstantCoalescentModel', 'theta': {'id': 'theta', 'type': 'Parameter', 'tensor': [2.0, 3.0]},
             'tree_model': tree}
        params['theta'] = P([2.0, 3.0], 0.01, None)
    else:
        m = {'id': 'm', 'type': 'PiecewiseConstantCoalescentGridModel',
             'theta': {'id': 'theta', 'type': 'Parameter', 'tensor': [2.0, 3.0]}, 'grid': [1.7], 'tree_model': tree}
        params['theta'] = P([2.0, 3.0], 0.01, None)
    return [m], params, 'm', {'heights_order': True}


def case_plinear():
    taxa = cm.taxa_json(3)
    tree = cm.time_tree_json(((0, 1), 2), 3)
    tree['taxa'] = taxa
    m = {'id': 'm', 'type': 'PiecewiseLinearCoalescentGridModel', 'theta': {'id': 'theta', 'type': 'Parameter', 'tensor': [2.0, 3.0]},
         'grid': [1.7], 'tree_model': tree}
    return [m], {'theta': P([2.0, 3.0], 0.01, None), 'tree.heights': P([1.0, 2.5], 0.01, None)}, 'm', {'heights_order': True}


def case_subst(kind, branch_lengths=None):
    """p_t of a substitution model as the evaluated quantity (value shape [S, 1, 1, 4, 4] flattened per sample)"""
    if kind == 'GTR':
        sm = {'id': 'subst', 'type': 'GTR', 'rates': {'id': 'rates', 'type': 'Parameter', 'tensor': [0.8, 1.1, 1.4, 1.7, 2.0, 2.3]},
              'frequencies': {'id': 'freqs', 'type': 'Parameter', 'tensor': [0.1, 0.2, 0.3, 0.4]}}
        params = {'rates': P([0.8, 1.1, 1.4, 1.7, 2.0, 2.3], 0.01, None), 'freqs': P([0.1, 0.2, 0.3, 0.4], 0.01, None)}
    elif kind in ('GNS', 'GS'):
        sm, params = general_subst_json(kind)
    else:
        sm = {'id': 'subst', 'type': 'HKY', 'kappa': {'id': 'kappa', 'type': 'Parameter', 'tensor': [3.0]},
              'frequencies': {'id': 'freqs', 'type': 'Parameter', 'tensor': [0.1, 0.2, 0.3, 0.4]}}
        params = {'kappa': P([3.0], 0.01, None), 'freqs': P([0.1, 0.2, 0.3, 0.4], 0.01, None)}
    if branch_lengths is not None:
        # p_t alone: constant branch lengths [B, K] (expanded over the sample shape of the model), value [.., B, K, 4, 4]
        return [sm], params, 'subst', {'evaluate': 'p_t', 'bl': branch_lengths}
    return [sm], params, 'subst', {'evaluate': 'q'}


GNS_RATES = [0.8, 1.1, 1.4, 1.7, 2.0, 2.3, 0.6, 0.9, 1.2, 1.5, 1.8, 2.1]


def general_subst_json(kind):
    """GeneralNonSymmetricSubstitutionModel (12 rates, matrix_exp) / GeneralSymmetricSubstitutionModel (6 rates, eigh) on 4 states"""
    n = 12 if kind == 'GNS' else 6
    sm = {'id': 'subst', 'type': 'GeneralNonSymmetricSubstitutionModel' if kind == 'GNS' else 'GeneralSymmetricSubstitutionModel',
          'data_type': {'id': 'dt4', 'type': 'GeneralDataType', 'codes': ['A', 'C', 'G', 'T']},
          'rates': {'id': 'rates', 'type': 'Parameter', 'tensor': GNS_RATES[:n]},
          'frequencies': {'id': 'freqs', 'type': 'Parameter', 'tensor': [0.1, 0.2, 0.3, 0.4]}}
    return sm, {'rates': P(GNS_RATES[:n], 0.01, None), 'freqs': P([0.1, 0.2, 0.3, 0.4], 0.01, None)}


def case_gmrf():
    m = {'id': 'm', 'type': 'GMRF', 'x': {'id': 'field', 'type': 'Parameter', 'tensor': [0.1, 0.5, 0.2]},
         'precision': {'id': 'tau', 'type': 'Parameter', 'tensor': [1.5]}}
    return [m], {'field': P([0.1, 0.5, 0.2]), 'tau': P([1.5], 0.01, None)}, 'm', {}


def case_ctmc():
    taxa = cm.taxa_json(3)
    tree = cm.time_tree_json(((0, 1), 2), 3)
    tree['taxa'] = taxa
    m = {'id': 'm', 'type': 'CTMCScale', 'x': {'id': 'rate', 'type': 'Parameter', 'tensor': [0.02]}, 'tree_model': tree}
    return [m], {'rate': P([0.02], 0.001, None), 'tree.heights': P([1.0, 2.5], 0.01, None)}, 'm', {'heights_order': True}


def case_tree_prior():
    taxa = cm.taxa_json(4)
    tree = cm.unrooted_tree_json(cm.balanced(4), 4)
    tree['taxa'] = taxa
    m = {'id': 'm', 'type': 'CompoundGammaDirichletPrior', 'tree_model': tree,
         'alpha': {'id': 'alpha', 'type': 'Parameter', 'tensor': [1.3]}, 'c': {'id': 'c', 'type': 'Parameter', 'tensor': [0.7]},
         'shape': {'id': 'shape', 'type': 'Parameter', 'tensor': [1.1]}, 'rate': {'id': 'rate', 'type': 'Parameter', 'tensor': [0.9]}}
    return [m], {'tree.blens': P([0.1, 0.2, 0.15, 0.3, 0.25], 0.001, None), 'alpha': P([1.3], 0.01, None)}, 'm', {}


def case_distribution(kind):
    if kind == 'normal':
        m = {'id': 'm', 'type': 'Distribution', 'distribution': 'torch.distributions.Normal',
             'x': {'id': 'x', 'type': 'Parameter', 'tensor': [0.3, -0.2]},
             'parameters': {'loc': {'id': 'loc', 'type': 'Parameter', 'tensor': [0.1, 0.4]},
                            'scale': {'id': 'scale', 'type': 'Parameter', 'tensor': [0.5, 1.5]}}}
        params = {'x': P([0.3, -0.2]), 'loc': P([0.1, 0.4]), 'scale': P([0.5, 1.5], 0.01, None)}
    else:
        m = {'id': 'm', 'type': 'Distribution', 'distribution': 'torch.distributions.Gamma',
             'x': {'id': 'x', 'type': 'Parameter', 'tensor': [0.7]},
             'parameters': {'concentration': {'id': 'conc', 'type': 'Parameter', 'tensor': [2.0]},
                            'rate': {'id': 'grate', 'type': 'Parameter', 'tensor': [1.5]}}}
        params = {'x': P([0.7], 0.01, None), 'conc': P([2.0], 0.01, None), 'grate': P([1.5], 0.01, None)}
    return [m], params, 'm', {}


def case_joint():
    specs = [
        {'id': 'd1', 'type': 'Distribution', 'distribution': 'torch.distributions.Normal',
         'x': {'id': 'x', 'type': 'Parameter', 'tensor': [0.3, -0.2]},
         'parameters': {'loc': {'id': 'loc', 'type': 'Parameter', 'tensor': [0.1]},
                        'scale': {'id': 'scale', 'type': 'Parameter', 'tensor': [0.5]}}},
        {'id': 'd2', 'type': 'Distribution', 'distribution': 'torch.distributions.Exponential',
         'x': 'scale', 'parameters': {'rate': {'id': 'erate', 'type': 'Parameter', 'tensor': [2.0]}}},
        {'id': 'g', 'type': 'GMRF', 'x': 'x', 'precision': {'id': 'tau', 'type': 'Parameter', 'tensor': [1.5]}},
        {'id': 'm', 'type': 'JointDistributionModel', 'distributions': ['d1', 'd2', 'g']},
    ]
    return specs, {'x': P([0.3, -0.2]), 'scale': P([0.5], 0.01, None), 'tau': P([1.5], 0.01, None), 'loc': P([0.1])}, 'm', {}


def case_joint_mixed():
    """a batched scalar component next to a component over an UN-batched vector whose length equals the sample count"""
    specs = [
        {'id': 'da', 'type': 'Distribution', 'distribution': 'torch.distributions.Normal',
         'x': {'id': 'a', 'type': 'Parameter', 'tensor': [0.3]},
         'parameters': {'loc': {'id': 'a_loc', 'type': 'Parameter', 'tensor': [0.0]},
                        'scale': {'id': 'a_scale', 'type': 'Parameter', 'tensor': [1.0]}}},
        {'id': 'dy', 'type': 'Distribution', 'distribution': 'torch.distributions.Normal',
         'x': {'id': 'y', 'type': 'Parameter', 'tensor': [-1.0, 0.8]},
         'parameters': {'loc': {'id': 'y_loc', 'type': 'Parameter', 'tensor': [0.5]},
                        'scale': {'id': 'y_scale', 'type': 'Parameter', 'tensor': [2.0]}}},
        {'id': 'm', 'type': 'JointDistributionModel', 'distributions': ['da', 'dy']},
    ]
    return specs, {'a': P([0.3]), 'y': P([-1.0, 0.8]), 'a_scale': P([1.0], 0.01, None)}, 'm', {}


def case_likelihood(tree_kind, site_kind, subst, categories=2, tip_states=False, mu=False, rescale=False, switch=None):
    """TreeLikelihoodModel on 3 taxa / 3 site patterns.  Structural axes of the kernel: branches 4, rate categories K
    (1 constant, 2 invariant, `categories` Weibull), states 4, patterns 3 - the sample shapes of SHAPES_LIKE are chosen
    to collide with each of them.  Every parameter of the composite is in `params` (= may carry the sample dimension):
    branch lengths / heights, clock rates, site-model shape / pinv / mu, kappa or GTR rates, AND the frequencies."""
    taxa = cm.taxa_json(3)
    params = {}
    if tree_kind == 'unrooted':
        tree = cm.unrooted_tree_json(((0, 1), 2), 3)
        params['tree.blens'] = P([0.1, 0.2, 0.15], 0.001, None)
    else:
        tree = cm.time_tree_json(((0, 1), 2), 3)
        params['tree.heights'] = P([1.0, 2.5], 0.01, None)
    tree['taxa'] = taxa
    site = {'id': 'site', 'type': 'ConstantSiteModel'}
    if site_kind == 'weibull':
        site = {'id': 'site', 'type': 'WeibullSiteModel', 'categories': categories,
                'shape': {'id': 'shape', 'type': 'Parameter', 'tensor': [0.7]}}
        params['shape'] = P([0.7], 0.05, None)
    elif site_kind == 'invariant':
        site = {'id': 'site', 'type': 'InvariantSiteModel', 'invariant': {'id': 'pinv', 'type': 'Parameter', 'tensor': [0.2]}}
        params['pinv'] = P([0.2], 0.01, 0.9)
    if mu:
        site['mu'] = {'id': 'mu', 'type': 'Parameter', 'tensor': [1.3]}
        params['mu'] = P([1.3], 0.01, None)
    if subst == 'JC69':
        sm = {'id': 'subst', 'type': 'JC69'}
    elif subst in ('GNS', 'GS'):
        sm, sp = general_subst_json(subst)
        params.update(sp)
    elif subst == 'GTR':
        sm = {'id': 'subst', 'type': 'GTR', 'rates': {'id': 'rates', 'type': 'Parameter', 'tensor': [0.8, 1.1, 1.4, 1.7, 2.0, 2.3]},
              'frequencies': {'id': 'freqs', 'type': 'Parameter', 'tensor': [0.1, 0.2, 0.3, 0.4]}}
        params['rates'] = P([0.8, 1.1, 1.4, 1.7, 2.0, 2.3], 0.01, None)
        params['freqs'] = P([0.1, 0.2, 0.3, 0.4], 0.01, None)
    else:
        sm = {'id': 'subst', 'type': 'HKY', 'kappa': {'id': 'kappa', 'type': 'Parameter', 'tensor': [3.0]},
              'frequencies': {'id': 'freqs', 'type': 'Parameter', 'tensor': [0.1, 0.2, 0.3, 0.4]}}
        params['kappa'] = P([3.0], 0.1, None)
        params['freqs'] = P([0.1, 0.2, 0.3, 0.4], 0.01, None)
    like = {'id': 'm', 'type': 'TreeLikelihoodModel', 'tree_model': tree, 'site_model': site, 'substitution_model': sm,
            'site_pattern': {'id': 'sp', 'type': 'SitePattern', 'alignment': cm.alignment_json(SEQS_RESCALED if (rescale or switch) else SEQS, taxa='taxa')}}
    if tip_states:
        like['use_tip_states'] = True
    if tree_kind == 'strict':
        like['branch_model'] = {'id': 'clock', 'type': 'StrictClockModel', 'tree_model': 'tree',
                                'rate': {'id': 'rate', 'type': 'Parameter', 'tensor': [0.01]}}
        params['rate'] = P([0.01], 0.0001, None)
    elif tree_kind == 'simple':
        like['branch_model'] = {'id': 'clock', 'type': 'SimpleClockModel', 'tree_model': 'tree',
                                'rate': {'id': 'rate', 'type': 'Parameter', 'tensor': [0.01, 0.02, 0.015, 0.03]}}
        params['rate'] = P([0.01, 0.02, 0.015, 0.03], 0.0001, None)
    opts = {'heights_order': tree_kind != 'unrooted', 'likelihood': True, 'rescale': rescale}
    if subst in ('GNS', 'GS'):
        opts['tilt'] = True  # rates of two samples must not be proportional: the normalised Q would be the same
    if switch is not None:
        opts['switch'] = dict(switch)
    return [like], params, 'm', opts



# ====================================================================== birth-death models: cases decided per path region
# Parameter entries of these cases are 4-tuples (values, lo, hi, extra): extra = {'lo_closed', 'hi_closed', 'fixed': {index: constant}}
BD_DATES = [0.5, 0.0, 0.2]  # t0 and t2 sampled serially (heights 0.5, 0.2), t1 sampled at the present: serial + contemporaneous tips
REGION_PREFIXES = ('bdsk:', 'birthdeath:')
# PiecewiseConstantBirthDeath.log_prob adds masked_select(N, mask) * masked_select(rho, mask).log() to log_p: one entry per rho-sampling
# event with sampled tips over ALL samples; the case is recognised by counting those events per sample at the failing point
SIG_RHO0 = 'bdsk:number of rho-sampling events with sampled tips differs between the samples:mixes-samples'
SIG_RHO_BCAST = 'bdsk:rho [1] not batched, R or delta batched, more than one epoch:rho applied at every epoch end'


def PX(vals, lo=None, hi=None, lo_closed=False, hi_closed=False, fixed=None):
    return (vals, lo, hi, {'lo_closed': lo_closed, 'hi_closed': hi_closed, 'fixed': dict(fixed or {})})


def bd_tree():
    tree = cm.time_tree_json(((0, 1), 2), 3)
    tree['taxa'] = cm.taxa_json(3, BD_DATES)
    return tree


def case_bdsk(m=1, origin='given', times='none', rho='short', survival=True, removal=False):
    """BDSKModel on 3 taxa ((t0,t1),t2) with tip heights 0.5, 0, 0.2.  m epochs; origin: 'given' (a parameter), 'root_edge'
    (the parameter is the length of the root edge), 'none' (the process starts at the root); times: 'none' (m equal epochs),
    'abs' (a parameter [0, t1, ..] of times since the origin), 'rel' (the same as fractions of the origin); rho: 'none'
    (default zeros), 'short' (one value: sampling at the present), 'full' (one value per epoch end); removal: removal
    probability r per epoch.  Structural axes next to the sample axes: m epochs, m+1 epoch times, 3 tips, 2 internal nodes."""
    js = {'id': 'm', 'type': 'BDSKModel', 'tree_model': bd_tree(), 'survival': survival,
          'R': {'id': 'R', 'type': 'Parameter', 'tensor': [1.5, 1.7, 1.3][:m]},
          'delta': {'id': 'delta', 'type': 'Parameter', 'tensor': [1.2, 1.1, 1.4][:m]},
          's': {'id': 's', 'type': 'Parameter', 'tensor': [0.3, 0.4, 0.35][:m]}}
    params = {'R': PX([1.5, 1.7, 1.3][:m], 0.0), 'delta': PX([1.2, 1.1, 1.4][:m], 0.0), 's': PX([0.3, 0.4, 0.35][:m], 0.0, 1.0),
              'tree.heights': PX([1.0, 2.5])}
    if rho != 'none':
        v = [0.2] if rho == 'short' else [0.15, 0.25, 0.2][-m:]
        js['rho'] = {'id': 'rho', 'type': 'Parameter', 'tensor': v}
        params['rho'] = PX(v, 0.0, 1.0, lo_closed=True, hi_closed=True)
    if origin == 'given':
        js['origin'] = {'id': 'origin', 'type': 'Parameter', 'tensor': [4.0]}
        params['origin'] = PX([4.0])
    elif origin == 'root_edge':
        js['origin'] = {'id': 'origin', 'type': 'Parameter', 'tensor': [0.9]}
        js['origin_is_root_edge'] = True
        params['origin'] = PX([0.9], 0.0, None, lo_closed=True)
    else:
        assert times == 'none'
    if times != 'none':
        v = ([0.0, 2.2] if m <= 2 else [0.0, 1.2, 2.7])[:m] if times == 'abs' else ([0.0, 0.55] if m <= 2 else [0.0, 0.3, 0.675])[:m]
        if origin == 'root_edge' and times == 'abs':
            v = ([0.0, 2.2] if m <= 2 else [0.0, 0.6, 2.1])[:m]
        js['times'] = {'id': 'times', 'type': 'Parameter', 'tensor': v}
        js['relative_times'] = times == 'rel'
        params['times'] = PX(v, fixed={0: 0.0})
    if removal:
        js['removal_probability'] = {'id': 'r', 'type': 'Parameter', 'tensor': [0.7, 0.6, 0.5][:m]}
        params['r'] = PX([0.7, 0.6, 0.5][:m], 0.0, 1.0)

    def domain(d, view):
        """constraints on ONE sample's view of the parameters (view: parameter -> list of nodes)"""
        h0, h1 = view['tree.heights']
        cs = [d.lt(d.const(max(BD_DATES[0], BD_DATES[1])), h0), d.lt(h0, h1)]  # parents above their children (tips are fixed)
        if origin == 'given':
            o = view['origin'][0]
            cs.append(d.le(h1, o))
        elif origin == 'root_edge':
            o = d.add(view['origin'][0], h1)
        else:
            o = h1
        if times != 'none':
            ts = view['times']
            for a, b in zip(ts, ts[1:]):
                cs.append(d.lt(a, b))
            cs.append(d.lt(ts[-1], o if times == 'abs' else d.const(1.0)))
        if 'rho' in view:
            for x in view['rho'][:-1]:
                cs.append(d.lt(x, d.const(1.0)))  # log(1 - rho_i) of an inner rho-sampling event
        return cs

    def generic(d, view):
        """the GENERIC stratum of one sample: every rho positive, no tip and no internal node exactly on an inner epoch boundary"""
        from fractions import Fraction

        h0, h1 = view['tree.heights']
        o = view['origin'][0] if origin == 'given' else (d.add(view['origin'][0], h1) if origin == 'root_edge' else h1)
        cs = [d.lt(d.const(0.0), x) for x in view.get('rho', [])]
        for i in range(1, m):
            if times == 'none':
                tb = d.mul(d.const(Fraction(i, m)), o)
            elif times == 'abs':
                tb = view['times'][i]
            else:
                tb = d.mul(view['times'][i], o)
            B = d.sub(o, tb)  # height of the boundary between epochs i-1 and i
            cs += [d.not_(d.eq(B, x)) for x in (d.const(BD_DATES[2]), d.const(BD_DATES[0]), h0, h1)]
        return cs

    def rho_events(vals):
        """number of epoch ends of ONE sample (vals: parameter -> floats) at which rho > 0 and at least one tip is sampled"""
        if 'rho' not in vals:
            return 0
        h1 = vals['tree.heights'][1]
        o = vals['origin'][0] if origin == 'given' else (vals['origin'][0] + h1 if origin == 'root_edge' else h1)
        if times == 'none':
            ts = [o * i / m for i in range(m)] + [o]
        elif times == 'abs':
            ts = list(vals['times']) + [o]
        else:
            ts = [t * o for t in vals['times']] + [o]
        rr = [0.0] * (m - len(vals['rho'])) + list(vals['rho'])
        n = 0
        for i in range(1, m + 1):
            B = 0.0 if i == m else o - ts[i]
            if rr[i - 1] > 0 and any(abs(B - y) <= 1e-12 for y in BD_DATES):
                n += 1
        return n

    return [js], params, 'm', {'region': True, 'domain': domain, 'generic': generic, 'rho_events': rho_events, 'epochs': m, 'rho_kind': rho}


def case_birthdeath(survival=True):
    """BirthDeathModel (constant rates) on the same tree; every parameter has one entry"""
    js = {'id': 'm', 'type': 'BirthDeathModel', 'tree_model': bd_tree(), 'survival': survival,
          'lambda': {'id': 'lambda', 'type': 'Parameter', 'tensor': [1.8]}, 'mu': {'id': 'mu', 'type': 'Parameter', 'tensor': [0.9]},
          'psi': {'id': 'psi', 'type': 'Parameter', 'tensor': [0.4]}, 'rho': {'id': 'rho', 'type': 'Parameter', 'tensor': [0.2]},
          'origin': {'id': 'origin', 'type': 'Parameter', 'tensor': [4.0]}}
    params = {'lambda': PX([1.8], 0.0), 'mu': PX([0.9], 0.0), 'psi': PX([0.4], 0.0), 'rho': PX([0.2], 0.0, 1.0, lo_closed=True, hi_closed=True),
              'origin': PX([4.0]), 'tree.heights': PX([1.0, 2.5])}

    def domain(d, view):
        h0, h1 = view['tree.heights']
        return [d.lt(d.const(max(BD_DATES[0], BD_DATES[1])), h0), d.lt(h0, h1), d.le(h1, view['origin'][0])]

    return [js], params, 'm', {'region': True, 'domain': domain}


# ====================================================================== further callable models (one path region: no data-dependent control
# beyond the order of the two internal heights, which the domain fixes)
def _pm(id_, v):
    return {'id': id_, 'type': 'Parameter', 'tensor': v}


def _tree0():
    tree = cm.time_tree_json(((0, 1), 2), 3)
    tree['taxa'] = cm.taxa_json(3)
    return tree


def case_extra(kind):
    opts = {}
    if kind == 'GMRFCovariate':
        m = {'id': 'm', 'type': 'GMRFCovariate', 'field': _pm('field', [0.1, 0.5, 0.2]), 'precision': _pm('tau', [1.5]),
             'covariates': [[1.0, 0.5], [0.3, -0.2], [0.7, 0.9]], 'beta': _pm('beta', [0.4, -0.3])}
        params = {'field': P([0.1, 0.5, 0.2]), 'tau': P([1.5], 0.01, None), 'beta': P([0.4, -0.3])}
    elif kind == 'ConstantCoalescentIntegrated':
        m = {'id': 'm', 'type': 'ConstantCoalescentIntegratedModel', 'tree_model': _tree0(), 'alpha': 2.0, 'beta': 1.5}
        params = {'tree.heights': P([1.0, 2.5], 0.01, None)}
        opts = {'heights_order': True}
    elif kind == 'ScaleMixtureNormal':
        m = {'id': 'm', 'type': 'ScaleMixtureNormal', 'x': _pm('x', [0.3, -0.2]), 'loc': 0.1, 'global_scale': _pm('gscale', [0.8]),
             'local_scale': _pm('lscale', [0.5, 1.5])}
        params = {'x': P([0.3, -0.2]), 'gscale': P([0.8], 0.01, None), 'lscale': P([0.5, 1.5], 0.01, None)}
    elif kind == 'ScaleMixtureNormal/slab':
        m = {'id': 'm', 'type': 'ScaleMixtureNormal', 'x': _pm('x', [0.3, -0.2]), 'loc': 0.1, 'global_scale': _pm('gscale', [0.8]),
             'local_scale': _pm('lscale', [0.5, 1.5]), 'slab': _pm('slab', [2.0])}
        params = {'x': P([0.3, -0.2]), 'gscale': P([0.8], 0.01, None), 'lscale': P([0.5, 1.5], 0.01, None), 'slab': P([2.0], 0.01, None)}
    elif kind == 'BayesianBridge':
        m = {'id': 'm', 'type': 'BayesianBridge', 'x': _pm('x', [0.3, -0.2]), 'scale': _pm('gscale', [0.8]), 'alpha': _pm('alpha', [0.5])}
        params = {'x': P([0.3, -0.2]), 'gscale': P([0.8], 0.01, None), 'alpha': P([0.5], 0.01, None)}
    elif kind == 'BayesianBridge/local scale + slab':
        m = {'id': 'm', 'type': 'BayesianBridge', 'x': _pm('x', [0.3, -0.2]), 'scale': _pm('gscale', [0.8]),
             'local_scale': _pm('lscale', [0.5, 1.5]), 'slab': _pm('slab', [2.0])}
        params = {'x': P([0.3, -0.2]), 'gscale': P([0.8], 0.01, None), 'lscale': P([0.5, 1.5], 0.01, None), 'slab': P([2.0], 0.01, None)}
    elif kind == 'DeterministicNormal':
        m = {'id': 'm', 'type': 'DeterministicNormal', 'x': _pm('x', [0.3, -0.2]), 'loc': _pm('loc', [0.1, 0.4]), 'scale': _pm('scale', [0.5, 1.5]),
             'shape': []}
        params = {'x': P([0.3, -0.2]), 'loc': P([0.1, 0.4]), 'scale': P([0.5, 1.5], 0.01, None)}
    elif kind == 'GMRFGammaIntegrated':
        m = {'id': 'm', 'type': 'GMRFGammaIntegrated', 'x': _pm('field', [0.1, 0.5, 0.2]), 'shape': 2.0, 'rate': 1.5}
        params = {'field': P([0.1, 0.5, 0.2])}
    elif kind == 'GMRFGammaIntegrated/time-aware':
        m = {'id': 'm', 'type': 'GMRFGammaIntegrated', 'x': _pm('field', [0.1, 0.5]), 'shape': 2.0, 'rate': 1.5, 'tree_model': _tree0()}
        params = {'field': P([0.1, 0.5]), 'tree.heights': P([1.0, 2.5], 0.01, None)}
        opts = {'heights_order': True}
    elif kind == 'Distribution/OneOnX':
        m = {'id': 'm', 'type': 'Distribution', 'distribution': 'torchtree.distributions.one_on_x.OneOnX', 'x': _pm('x', [0.3, 0.7])}
        params = {'x': P([0.3, 0.7], 0.01, None)}
    elif kind == 'Distribution/LogNormal':
        m = {'id': 'm', 'type': 'Distribution', 'distribution': 'torchtree.distributions.log_normal.LogNormal', 'x': _pm('x', [0.3, 0.7]),
             'parameters': {'mean': _pm('mean', [0.1]), 'scale': _pm('scale', [0.5])}}
        params = {'x': P([0.3, 0.7], 0.01, None), 'mean': P([0.1], 0.01, None), 'scale': P([0.5], 0.01, None)}
    else:
        raise KeyError(kind)
    return [m], params, 'm', opts


EXTRA_KINDS = ['GMRFCovariate', 'ConstantCoalescentIntegrated', 'ScaleMixtureNormal', 'ScaleMixtureNormal/slab', 'BayesianBridge',
               'BayesianBridge/local scale + slab', 'DeterministicNormal', 'GMRFGammaIntegrated', 'GMRFGammaIntegrated/time-aware',
               'Distribution/OneOnX', 'Distribution/LogNormal']


CASES = {
    'coalescent:constant': lambda: case_coalescent('constant'),
    'coalescent:exponential': lambda: case_coalescent('exponential'),
    'coalescent:skyride': lambda: case_coalescent('skyride'),
    'coalescent:skygrid': lambda: case_coalescent('skygrid'),
    'coalescent:piecewise-linear': case_plinear,
    'substitution:GTR.q': lambda: case_subst('GTR'),
    'substitution:HKY.q': lambda: case_subst('HKY'),
    'gmrf': case_gmrf,
    'ctmc_scale': case_ctmc,
    'tree_prior': case_tree_prior,
    'distribution:normal': lambda: case_distribution('normal'),
    'distribution:gamma': lambda: case_distribution('gamma'),
    'joint': case_joint,
    'joint:batched scalar + unbatched vector of length S': case_joint_mixed,
    'likelihood:unrooted/constant/JC69': lambda: case_likelihood('unrooted', 'constant', 'JC69'),
    'likelihood:strict/weibull/JC69': lambda: case_likelihood('strict', 'weibull', 'JC69'),
    'likelihood:simple/invariant/JC69': lambda: case_likelihood('simple', 'invariant', 'JC69'),
    'likelihood:unrooted/weibull/HKY': lambda: case_likelihood('unrooted', 'weibull', 'HKY'),
    'likelihood:strict/constant/HKY': lambda: case_likelihood('strict', 'constant', 'HKY'),
    # --- substitution-model parameters (incl. frequencies) batched against every structural axis of the kernel
    'likelihood:unrooted/constant/HKY': lambda: case_likelihood('unrooted', 'constant', 'HKY'),
    'likelihood:unrooted/weibull3/HKY': lambda: case_likelihood('unrooted', 'weibull', 'HKY', categories=3),
    'likelihood:unrooted/weibull4/HKY': lambda: case_likelihood('unrooted', 'weibull', 'HKY', categories=4),
    'likelihood:unrooted/weibull5/HKY': lambda: case_likelihood('unrooted', 'weibull', 'HKY', categories=5),
    'likelihood:unrooted/invariant/HKY': lambda: case_likelihood('unrooted', 'invariant', 'HKY'),
    'likelihood:unrooted/constant+mu/HKY': lambda: case_likelihood('unrooted', 'constant', 'HKY', mu=True),
    'likelihood:simple/weibull3/HKY': lambda: case_likelihood('simple', 'weibull', 'HKY', categories=3),
    'likelihood:unrooted/constant/GTR': lambda: case_likelihood('unrooted', 'constant', 'GTR'),
    'likelihood:unrooted/weibull/GTR': lambda: case_likelihood('unrooted', 'weibull', 'GTR'),
    'likelihood:unrooted/weibull3/GTR': lambda: case_likelihood('unrooted', 'weibull', 'GTR', categories=3),
    'likelihood:unrooted/constant/HKY/tip-states': lambda: case_likelihood('unrooted', 'constant', 'HKY', tip_states=True),
    'likelihood:unrooted/weibull/HKY/tip-states': lambda: case_likelihood('unrooted', 'weibull', 'HKY', tip_states=True),
    'likelihood:unrooted/weibull3/HKY/tip-states': lambda: case_likelihood('unrooted', 'weibull', 'HKY', categories=3, tip_states=True),
    'likelihood:unrooted/weibull/JC69/tip-states': lambda: case_likelihood('unrooted', 'weibull', 'JC69', tip_states=True),
    'likelihood:unrooted/constant/HKY/rescaled': lambda: case_likelihood('unrooted', 'constant', 'HKY', rescale=True),
    'likelihood:unrooted/weibull/HKY/rescaled': lambda: case_likelihood('unrooted', 'weibull', 'HKY', rescale=True),
    'likelihood:unrooted/weibull3/HKY/rescaled': lambda: case_likelihood('unrooted', 'weibull', 'HKY', categories=3, rescale=True),
    'likelihood:unrooted/weibull/HKY/tip-states/rescaled': lambda: case_likelihood('unrooted', 'weibull', 'HKY', tip_states=True, rescale=True),
}

for _k in EXTRA_KINDS:
    CASES['extra:' + _k] = (lambda k: (lambda: case_extra(k)))(_k)
# non-symmetric (matrix_exp) and general symmetric (eigh) substitution models: p_t alone and inside the likelihood composite with K = 1
# and K = S rate categories (sample axis vs rate-category axis vs branch axis of Q * t).  Keys under prefixes that C12 leaves out.
# the SWITCHING evaluation (plain pass reports an underflow, calculate_treelikelihood_discrete_safe runs) and the one after it
SWITCH_COMPOSITES = {
    'unrooted/weibull/HKY': dict(tree_kind='unrooted', site_kind='weibull', subst='HKY'),
    'strict/weibull/JC69': dict(tree_kind='strict', site_kind='weibull', subst='JC69'),
    'simple/invariant/JC69': dict(tree_kind='simple', site_kind='invariant', subst='JC69'),
    'unrooted/constant+mu/HKY': dict(tree_kind='unrooted', site_kind='constant', subst='HKY', mu=True),
    'unrooted/weibull3/GTR': dict(tree_kind='unrooted', site_kind='weibull', subst='GTR', categories=3),
}
SWITCH_VARIANTS = {
    # name: (which nodes are below the threshold at the witness, which samples the oracle reports as underflowing, evaluate once more)
    'all nodes rescaled, then the next evaluation': dict(nodes='all', verdict='all', second=True),
    'root only rescaled': dict(nodes='root', verdict='all', second=False),
    'only the first sample underflows': dict(nodes='all', verdict='first', second=False),
}
for _v, _sw in SWITCH_VARIANTS.items():
    for _c, _kw in SWITCH_COMPOSITES.items():
        CASES[f'extra:switch {_v}:{_c}'] = (lambda kw, sw: (lambda: case_likelihood(switch=sw, **kw)))(_kw, _sw)
PT_BL1 = [[0.1], [0.3]]  # B = 2, K = 1
PT_BL2 = [[0.1, 0.2], [0.3, 0.4], [0.25, 0.15]]  # B = 3, K = 2
for _m in ('GNS', 'GS'):
    CASES[f'substitution:{_m}.q'] = (lambda m: (lambda: case_subst(m)))(_m)
    CASES[f'substitution:{_m}.p_t K=1'] = (lambda m: (lambda: case_subst(m, PT_BL1)))(_m)
    CASES[f'substitution:{_m}.p_t B=3 K=2'] = (lambda m: (lambda: case_subst(m, PT_BL2)))(_m)
    for _site, _cat in (('constant', 2), ('weibull', 2), ('weibull3', 3)):
        CASES[f'extra:likelihood unrooted/{_site}/{_m}'] = (lambda m, st, c: (lambda: case_likelihood('unrooted', st.rstrip('3'), m, categories=c)))(_m, _site, _cat)
    CASES[f'extra:likelihood strict/constant/{_m}'] = (lambda m: (lambda: case_likelihood('strict', 'constant', m)))(_m)
# birth-death models (decided per path region, see run_region_task); 'thorough': only in the thorough tier
BD_VARIANTS = {
    'bdsk:1 epoch/origin/rho/survival': (dict(m=1), 'quick'),
    'bdsk:1 epoch/origin/times abs/rho/no survival': (dict(m=1, times='abs', survival=False), 'quick'),
    'bdsk:1 epoch/root edge/rho/removal/survival': (dict(m=1, origin='root_edge', removal=True), 'quick'),
    'bdsk:2 epochs/origin/rho/survival': (dict(m=2), 'quick'),
    'bdsk:2 epochs/origin/times abs/rho/no survival': (dict(m=2, times='abs', survival=False), 'quick'),
    'bdsk:2 epochs/origin/times rel/rho per epoch/survival': (dict(m=2, times='rel', rho='full'), 'quick'),
    'bdsk:2 epochs/no origin/no rho/survival': (dict(m=2, origin='none', rho='none'), 'quick'),
    'bdsk:2 epochs/root edge/times rel/rho/no survival': (dict(m=2, origin='root_edge', times='rel', survival=False), 'thorough'),
    'bdsk:1 epoch/no origin/rho/no survival': (dict(m=1, origin='none', survival=False), 'thorough'),
    'bdsk:1 epoch/origin/times rel/no rho/removal/no survival': (dict(m=1, times='rel', rho='none', removal=True, survival=False), 'thorough'),
    'bdsk:2 epochs/origin/times abs/rho per epoch/survival': (dict(m=2, times='abs', rho='full'), 'thorough'),
    'bdsk:2 epochs/root edge/times abs/rho/survival': (dict(m=2, origin='root_edge', times='abs'), 'thorough'),
    'bdsk:2 epochs/no origin/rho/no survival': (dict(m=2, origin='none', survival=False), 'thorough'),
    'bdsk:3 epochs/origin/rho/survival': (dict(m=3), 'thorough'),
    'bdsk:3 epochs/origin/times abs/rho per epoch/removal/no survival': (dict(m=3, times='abs', rho='full', removal=True, survival=False), 'thorough'),
    'bdsk:3 epochs/origin/times rel/rho/survival': (dict(m=3, times='rel'), 'thorough'),
    'bdsk:3 epochs/no origin/no rho/survival': (dict(m=3, origin='none', rho='none'), 'thorough'),
    'bdsk:3 epochs/root edge/rho/no survival': (dict(m=3, origin='root_edge', survival=False), 'thorough'),
}
for _k, (_kw, _tier) in BD_VARIANTS.items():
    CASES[_k] = (lambda kw: (lambda: case_bdsk(**kw)))(_kw)
CASES['birthdeath:survival'] = lambda: case_birthdeath(True)
CASES['birthdeath:no survival'] = lambda: case_birthdeath(False)
BD_VARIANTS['birthdeath:survival'] = ({}, 'quick')
BD_VARIANTS['birthdeath:no survival'] = ({}, 'quick')

# number of rate categories of a likelihood case (the structural axis next to the sample axes in mats / partials / props)
CATS = {'constant': 1, 'constant+mu': 1, 'invariant': 2, 'weibull': 2, 'weibull3': 3, 'weibull4': 4, 'weibull5': 5}


def categories_of(cname):
    return CATS[cname.split('/')[1]]


def build(specs):
    from torchtree.core.utils import process_objects

    register()
    dic = {}
    for sp in specs:
        process_objects(sp, dic)
    return dic


import contextlib


@contextlib.contextmanager
def special_values(on):
    """while a distinguished constant sits in the batch: division by the literal 0 (torch: nan / inf for that sample) yields a fresh
    UNDEFINED symbol with that witness instead of an engine error.  A value of another sample that mentions the symbol differs
    syntactically from its slice value, the solver is free to choose it, and the replay on the real code decides."""
    if not on:
        yield
        return
    from symtorch import HANDLERS, cur
    from symtorch.tensor import _arith

    def undef(d, a, b):
        va = d.vals[a]
        return cur().fresh('undefined', math.nan if (va == 0 or math.isnan(va)) else math.copysign(math.inf, va))

    def div(d, a, b):
        return undef(d, a, b) if (d.ops[b] == 'const' and d.cval(b) == 0) else d.div(a, b)

    import symtorch.tensor as st_

    strict_check = st_.check_vals

    def relaxed_check(res_v, ids, what):
        """entries that real torch reports as nan / inf (they belong to the sample with the distinguished value) are not
        cross-checked: over the reals the engine simplifies 0 * x to 0 where IEEE gives 0 * inf = nan.  Finite entries - every
        other sample - are checked as always."""
        fin = torch.isfinite(res_v.to(torch.float64)) if res_v.dtype != torch.bool else None
        if fin is None or bool(fin.all()):
            return strict_check(res_v, ids, what)
        if tuple(res_v.shape) != tuple(ids.shape):
            return strict_check(res_v, ids, what)
        if bool(fin.any()):
            return strict_check(res_v[fin], ids[fin], what)

    st_.check_vals = relaxed_check
    names = ['div', 'div_', 'true_divide', 'true_divide_', '__truediv__', '__itruediv__', 'divide']
    saved = {n: HANDLERS[n] for n in names + ['__rtruediv__', '__rdiv__']}
    h = _arith('div', div, 2)
    hr = _arith('rdiv', lambda d, a, b: div(d, b, a), 2)
    for n in names:
        HANDLERS[n] = h
    HANDLERS['__rtruediv__'] = HANDLERS['__rdiv__'] = hr
    try:
        yield
    finally:
        HANDLERS.update(saved)
        st_.check_vals = strict_check


def evaluate_switching(obj, opts, who):
    """The evaluation on which TreeLikelihoodModel detects an underflow: the plain pass runs, `torch.isinf(log_p)` is an underflow
    ORACLE (over the reals a log-likelihood is never -inf; in floating point it is for large trees) that answers `underflow` on the
    first evaluation - for every sample, or for the first sample of the batch only - so that calculate_treelikelihood_discrete_safe
    runs with the model's threshold (public attribute) set so that at the witness all / only the root internal node(s) are below
    it.  who: None for the batched model, else the flat index of the sample whose slice is evaluated (the oracle is a function of
    the sample: slice k gets the verdict of sample k).  opts['switch']['second']: the value is the pair (switching evaluation,
    next evaluation after a change notification of every parameter), so the state left behind by the switch is covered too."""
    from symtorch import HANDLERS

    sw = opts['switch']
    obj.threshold = sw['thr']
    calls = []

    def bits(shape_x):
        first = not calls
        calls.append(1)
        n = int(torch.Size(shape_x).numel())
        if not first:
            return torch.zeros(shape_x, dtype=torch.bool)
        if who is None:
            b = [True] * n if sw['verdict'] == 'all' else [True] + [False] * (n - 1)
            return torch.tensor(b, dtype=torch.bool).reshape(shape_x)
        return torch.full(shape_x, sw['verdict'] == 'all' or who == 0, dtype=torch.bool)

    def run():
        v1 = obj()
        if not sw.get('second'):
            return v1
        ps = obj.parameters()
        for q in ps:
            q.tensor = q.tensor  # public setter: change notification, the likelihood is recomputed
        if not ps:
            obj.lp_needs_update = True
        return torch.stack([v1, obj()], -1)

    # the same oracle for the symbolic run (handler table) and for plain tensors (concrete replay, also when it runs inside a trace)
    saved, real = HANDLERS['isinf'], torch.isinf
    HANDLERS['isinf'] = lambda f, a, k: bits(tuple(a[0].shape))
    torch.isinf = lambda x: bits(tuple(x.shape))
    try:
        return run()
    finally:
        HANDLERS['isinf'], torch.isinf = saved, real


def evaluate(obj, opts, who=None):
    if opts.get('switch'):
        return evaluate_switching(obj, opts, who)
    if opts.get('evaluate') == 'q':
        return obj.q()
    if opts.get('evaluate') == 'p_t':
        bl = torch.tensor(opts['bl'], dtype=torch.float64)
        return obj.p_t(bl.expand(tuple(obj.sample_shape) + tuple(bl.shape)))
    if opts.get('rescale'):
        obj.rescale = True  # the state TreeLikelihoodModel keeps after the first underflow: rescaled kernels from then on
    return obj()


def sample_indices(shape):
    return list(itertools.product(*[range(n) for n in shape]))


def tag_of(idx):
    """name suffix of the per-sample symbols: 'p@1' for sample shape [S], 'p@1.0' for [S,K]"""
    return '.'.join(str(i) for i in idx)


def offset_of(k, n):
    """generic per-sample witness offset (k = flat sample index, n = number of samples): distinct values per sample"""
    return (0.11 if n <= 5 else 0.04) * (k + 1)


def exact_model(d, roots):
    """Explicit model at the witness point, evaluated in exact rational arithmetic: input symbols and stub output symbols
    take their witness values, every uninterpreted application (exp, log, sqrt, pow, lgamma, ...) takes the value it had in the
    witness execution (applications whose exact arguments coincide share one value, so the interpretation is a function).
    Returns {node: value} for the cone of `roots`, or None when no such model could be built (division by zero,
    non-finite value, unknown operator)."""
    from fractions import Fraction

    out = {}
    table = {}
    try:
        for n in d.topo(list(roots)):
            op = d.ops[n]
            a = d.args[n]
            if op == 'const':
                v = a[0]
            elif op == 'bconst':
                v = a[0]
            elif op == 'var':
                v = Fraction(d.vals[n])
            elif op == 'uf':
                if not math.isfinite(d.vals[n]):
                    return None
                # one value per (function, exact arguments): the witness value of the first application met
                key = (a[0],) + tuple(out[c] for c in a[1:])
                v = table.setdefault(key, Fraction(d.vals[n]))
            elif op == 'add':
                v = out[a[0]] + out[a[1]]
            elif op == 'mul':
                v = out[a[0]] * out[a[1]]
            elif op == 'div':
                if out[a[1]] == 0:
                    return None
                v = out[a[0]] / out[a[1]]
            elif op == 'ipow':
                if a[1] < 0 and out[a[0]] == 0:
                    return None
                v = out[a[0]] ** a[1]
            elif op == 'stop':
                v = out[a[0]]
            elif op == 'ite':
                v = out[a[1]] if out[a[0]] else out[a[2]]
            elif op == 'le':
                v = out[a[0]] <= out[a[1]]
            elif op == 'lt':
                v = out[a[0]] < out[a[1]]
            elif op == 'eq':
                v = out[a[0]] == out[a[1]]
            elif op == 'and':
                v = all(out[c] for c in a)
            elif op == 'or':
                v = any(out[c] for c in a)
            elif op == 'not':
                v = not out[a[0]]
            else:
                return None
            out[n] = v
    except (ValueError, OverflowError, ZeroDivisionError, TypeError):
        return None
    return out


def model_separates(d, hyps, eq_node):
    """True when the explicit witness model satisfies every hypothesis and falsifies eq_node (a constructive `sat`)"""
    m = exact_model(d, list(hyps) + [eq_node])
    return m is not None and all(m[h] is True for h in hyps) and m[eq_node] is False


def witness_differs(d, eq_node):
    """float witness values of the two sides of a conjunction of equalities differ visibly (candidate for a replay only)"""
    eqs = [eq_node] if d.ops[eq_node] == 'eq' else [c for c in d.args[eq_node] if d.ops[c] == 'eq'] if d.ops[eq_node] == 'and' else []
    for e in eqs:
        x, y = (d.vals[c] for c in d.args[e])
        if not (abs(x - y) <= 1e-9 * max(1.0, abs(x), abs(y))):
            return True
    return False


def witness_value(b, i, off, lo, batched_sample, opts):
    """initial witness of entry i of a parameter: per-sample offset; opts['tilt']: the offset also varies with the entry, so that two
    samples are not a uniform rescaling of each other (a normalised rate matrix would then be the same in every sample)"""
    f = off * (1 + 0.6 * ((3 * i) % 4) / 4) if opts.get('tilt') else off
    return b * (1 + f) + (off if (lo is None and batched_sample) else 0)


PIN_SAMPLE = 0  # flat index of the sample that carries the distinguished value


def pin_text(pin):
    to = pin['to']
    what = (f'= {to}' if not isinstance(to, (tuple, list)) else (f'= its entry {to[1]}' if to[0] == 'entry' else f'= {to[1]}[{to[2]}]'))
    return f"{pin['param']}[{pin['entry']}] of sample {PIN_SAMPLE} {what}"


def pins_of(params, thorough=False):
    """aliasing configurations: ONE sample's entry of a batched parameter is a distinguished constant (0, 1) or equal to another
    symbol of the same sample (its neighbouring entry / the first entry of the next parameter), the other samples stay symbolic"""
    names = [p for p in sorted(params) if p != 'tree.heights']
    out = []
    for k, p in enumerate(names):
        n = len(params[p][0])
        out.append({'param': p, 'entry': 0, 'to': 0.0})
        out.append({'param': p, 'entry': 0, 'to': 1.0})
        if n > 1:
            out.append({'param': p, 'entry': 1, 'to': ('entry', 0)})
            if thorough:
                out.append({'param': p, 'entry': n - 1, 'to': 0.0})
        if len(names) > 1:
            q = names[(k + 1) % len(names)]
            out.append({'param': p, 'entry': 0, 'to': ('param', q, 0)})
    return out


def log_split(d, tr, eq_node, what):
    """a == b for two sums of integer multiples of logs whose terms group site by site: plain side c * log(P), rescaled side
    c * log(X) + c * log(s1) + c * log(s2) with P == X * s1 * s2.  The grouping is read off the witness, every group identity is
    PROVED by the solver (sub-terms shared by both sides generalised to fresh variables: a proof of the generalisation is a proof of
    the instance), and a == b then follows from log(xy) = log x + log y for positive arguments (stated assumption).  True when
    every group was proved and every term is used."""
    import itertools

    from symtorch.axioms import _addends
    from symtorch.explore import prove

    if d.ops[eq_node] != 'eq':
        return False
    a, b = d.args[eq_node]
    A, B = list(_addends(d, a)), list(_addends(d, b))
    if len(A) > len(B):
        A, B = B, A

    def is_log(t_):
        return t_ is not None and d.ops[t_] == 'uf' and d.args[t_][0] == 'log'

    if not A or not all(is_log(t_) for _, t_ in A + B):
        return False
    used = set()
    for c, t_ in A:
        P = d.args[t_][1]
        cands = [i for i, (c2, _) in enumerate(B) if c2 == c and i not in used]
        found = None
        for r in range(1, min(4, len(cands)) + 1):
            for comb in itertools.combinations(cands, r):
                prod = 1.0
                for i in comb:
                    prod *= d.vals[d.args[B[i][1]][1]]
                if abs(prod - d.vals[P]) > 1e-9 * abs(d.vals[P]):
                    continue
                # numerically a candidate group (a scaler that is 1 at the witness makes two groups candidates): the proof decides
                rhs = 1
                for i in comb:
                    rhs = d.mul(rhs, d.args[B[i][1]][1])
                g = d.eq(P, rhs)
                if g != d.TRUE:
                    ca, cb = set(d.topo([P])), set(d.topo([rhs]))
                    shared = {n for n in (ca & cb) if d.ops[n] not in ('const', 'bconst')}
                    below = {ch for n in shared for ch in d.children(n)}
                    g_abs = cm.abstracted(d, [n for n in shared if n not in below], [g])[0]
                    st, _, _ = prove(d, [], g_abs, timeout=20, tr=tr, parallel=True,
                                     label=f'{what}: one site: plain site likelihood == rescaled site likelihood * scalers')
                    if st != 'proved':
                        continue
                found = comb
                break
            if found:
                break
        if not found:
            return False
        used |= set(found)
    return len(used) == len(B)



def label_of(cname, batched, shape):
    label = f'{cname} batched={sorted(batched)}'
    if tuple(shape) != (S,):
        label += f' sample_shape={list(shape)}'
    return label


def run_task(task, tr):
    from symtorch.expr import EngineError
    from symtorch.tensor import UnsupportedOp
    from torchtree.core import model as coremodel
    from torchtree.distributions.joint_distribution import JointDistributionModel
    from torchtree.evolution import tree_likelihood as tl
    from torchtree.evolution.substitution_model.abstract import SymmetricSubstitutionModel
    from torchtree.evolution.tree_likelihood import TreeLikelihoodModel

    cname, batched = task[0], task[1]
    shape = tuple(task[2]) if len(task) > 2 else (S,)
    idxs = sample_indices(shape)
    nS = len(idxs)
    label = label_of(cname, batched, shape)
    if cname.startswith(REGION_PREFIXES):
        return run_region_task(task, tr)
    mods = task[3] if len(task) > 3 and isinstance(task[3], dict) else {}
    pin = mods.get('pin')
    if pin:
        label += f' [{pin_text(pin)}]'
        tr.bounds['special values'] = BOUNDS_PIN
    tr.fn(coremodel.CallableModel.__call__, JointDistributionModel.log_prob, TreeLikelihoodModel._call)
    tr.bounds['shapes'] = ('sample shape [2] for every case; quick: all-batched, each-one-unbatched, each-one-batched; '
                           'thorough: every subset at [2], and the quick selection at [3] and [2,2]; likelihood cases: see "likelihood"; '
                           'birth-death cases: see "birth-death"; extra: cases: [2] and [3] (quick), every subset and [2,2] (thorough)')
    specs, params, target, opts = CASES[cname]()
    if opts.get('switch'):
        tr.fn(tl.calculate_treelikelihood_discrete_safe, TreeLikelihoodModel.calculate_with_tip_partials)
        tr.bounds['likelihood, switching evaluation'] = BOUNDS_SWITCH
        tr.stubs.add('switching cases: torch.isinf(log_p) is an underflow oracle (true on the first evaluation, for every sample or for the first '
                     'sample of the batch only; slice k gets the verdict of sample k); the concrete replay patches torch.isinf the same way')
        if not resolve_switch(cname, batched, shape, opts, mods):
            tr.notes.append(f'{label}: no threshold puts the root below and the cherry above it in every sample at the witness: configuration skipped')
            return
    if opts.get('likelihood'):
        tr.fn(tl.calculate_treelikelihood_discrete, tl.calculate_treelikelihood_tip_states_discrete,
              SymmetricSubstitutionModel.p_t, TreeLikelihoodModel._sample_shape)
        tr.bounds['likelihood'] = BOUNDS_LIKE
        tr.stubs.add('torch.linalg.eigh / inverse of the eigenvector matrix (HKY, GTR p_t): functional contract stub, batch-capable - '
                     'the same symbolic matrix gives the same eigen symbols in the batched and in the per-slice run')
        tr.assumptions.add('likelihood cases: 3 taxa, topology ((t0,t1),t2), alignment ACRA/CG-C/GTNG (3 patterns, weights 2,1,1, '
                           'one ambiguity code, one gap, one N; ACRA/CGTC/GT-G for the rescaled kernels: no column with two missing tips, '
                           'whose scaler would be an exact tie); parameter values are symbolic, topology and data are fixed')
        tr.assumptions.add('likelihood cases: over the reals every log-likelihood is finite, so the isinf test of _call takes the '
                           'non-rescaled kernel; the rescaled kernels are entered through the state rescale=True that the model keeps after '
                           'a first underflow ("/rescaled" cases) or through the underflow oracle of the "extra:switch" cases, which run '
                           'calculate_treelikelihood_discrete_safe (the one call in which the underflow is detected) and the evaluation after it')
        if opts.get('rescale'):
            tr.fn(tl.calculate_treelikelihood_discrete_rescaled, tl.calculate_treelikelihood_tip_states_discrete_rescaled)
            tr.bounds['likelihood, rescaled kernels'] = ('decided on the path region of the witness only: the position of the per-site '
                                                         'maximum (scaler) of every internal node is fixed by path conditions, identical in the '
                                                         'batched and the per-slice run; no coverage certificate over the other argmax patterns')
    with tracing() as t:
        d = t.dag
        dom = []
        V = {}

        def symbols(pname, k, idx):
            vals, lo, hi = params[pname]
            off = 0.0 if idx is None else offset_of(k, nS)
            vv = [witness_value(v, i, off, lo, idx is not None, opts) for i, v in enumerate(vals)]
            nm = pname if idx is None else f'{pname}@{tag_of(idx)}'
            st = new_vars(nm, torch.tensor(vv, dtype=torch.float64))
            for i in st._ids.tolist():
                V[d.args[i][0]] = i
                if lo is not None:
                    dom.append(d.lt(d.const(lo), i))
                if hi is not None:
                    dom.append(d.lt(i, d.const(hi)))
            return st

        shared = {p: symbols(p, None, None) for p in params if p not in batched}
        per_s = {p: {idx: symbols(p, k, idx) for k, idx in enumerate(idxs)} for p in batched}
        if opts.get('heights_order'):
            hs = [per_s['tree.heights'][idx] for idx in idxs] if 'tree.heights' in batched else [shared['tree.heights']]
            for h in hs:
                ids = h._ids.tolist()
                dom.append(d.lt(ids[0], ids[1]))
        pinned_idx = None
        if pin:
            # the pinned entry of ONE sample is a constant / another symbol of the same sample (its own symbol is no longer used)
            pinned_idx = idxs[PIN_SAMPLE]
            st = per_s[pin['param']][pinned_idx]
            to = pin['to']
            if isinstance(to, (tuple, list)):
                src = st if to[0] == 'entry' else (per_s[to[1]][pinned_idx] if to[1] in batched else shared[to[1]])
                nid = int(src._ids[to[1] if to[0] == 'entry' else to[2]])
            else:
                nid = d.const(float(to))
            old_id = int(st._ids[pin['entry']])
            st._ids[pin['entry']] = nid
            st._v[pin['entry']] = d.vals[nid]
            V = {n: i for n, i in V.items() if i != old_id}
            dom = [c for c in dom if old_id not in d.topo([c])]
            if not all(d.vals[c] for c in dom):
                tr.notes.append(f'{label}: the distinguished value contradicts the stated domain at the witness: configuration skipped')
                return
        # batched run
        A = build(specs)
        raised = None
        engine = False
        try:
            for p in params:
                if p in batched:
                    ids = torch.stack([per_s[p][idx]._ids for idx in idxs])
                    A[p].tensor = from_ids(ids.reshape(shape + (ids.shape[-1],)))
                else:
                    A[p].tensor = from_ids(shared[p]._ids.clone())
            with special_values(bool(pin)):
                val = evaluate(A[target], opts)
        except Exception as e:  # unsupported shape combination: allowed to fail loudly
            raised = f'{type(e).__name__}: {e}'
            # with a distinguished constant in the batch an arithmetic limitation of the ENGINE (e.g. log of the literal 0) must not
            # pass for "the library fails with an error"
            engine = isinstance(e, UnsupportedOp) or (bool(pin) and isinstance(e, EngineError))
        tr.witness_runs += 1
        tr.regions += 1
        if raised is not None and engine:
            # the ENGINE could not follow the code: that is not "the library fails with an error".  Decide on the real
            # code whether the configuration raises; if it returns a number the configuration is undecided.
            try:
                rep, detail = replay_case(cname, batched, {}, shape, mods)
            except Exception as e:  # noqa
                rep, detail = None, f'{type(e).__name__}: {e}'
            if rep is False and detail.startswith('batched evaluation raises'):
                raised = detail
            elif opts.get('likelihood') and not pin:
                tr.inconc(f'{label}: symbolic engine limitation ({raised[:80]}) and the real code returns a value: undecided')
                return
            else:
                tr.bounds[f'NOT decided: {label}'] = f'symbolic engine limitation ({raised[:60]}); the real code returns a value; only the concrete witness replay was run'
                tr.notes.append(f'{label}: NOT DECIDED - the symbolic engine does not support an operation on this path ({raised[:60]}); '
                                f'concrete witness replay on the real code: {detail[:80]}')
                tr.sample({'case': label, 'outcome': 'not decided (engine limitation)', 'error': raised[:100]})
                if rep:
                    tr.violation(f'{cname}:batched={sorted(batched)}:' + ('shape' if detail.startswith('shape') else 'mixes-samples'),
                                 f'{label}: witness replay on the real code: {detail}',
                                 {'label': label, 'values': {}, 'shape': list(shape), 'case': cname, 'batched': sorted(batched), 'mods': mods})
                return
        if raised is not None:
            tr.notes.append(f'{label}: raises ({raised[:80]}) - accepted: fails with an error rather than returning a number')
            tr.sample({'case': label, 'outcome': 'raises', 'error': raised[:100]})
            tr.obligation(f'raises:{label}', nontrivial=False)
            return
        if t.concretized and pin:
            # e.g. the likelihood of the sample with the distinguished value is -inf and the real isinf test fires: the engine cannot
            # follow a decision taken on a non-finite witness
            rep, detail = replay_case(cname, batched, {}, shape, mods)
            tr.bounds[f'NOT decided: {label}'] = f'a decision was taken on a non-finite value of the pinned sample ({t.concretized[0][:40]}); only the concrete witness replay was run'
            tr.notes.append(f'{label}: NOT DECIDED ({t.concretized[0][:40]}); concrete witness replay on the real code: {detail[:80]}')
            if rep:
                tr.violation(f'{cname}:batched={sorted(batched)}:' + ('shape' if detail.startswith('shape') else 'mixes-samples'),
                             f'{label}: witness replay on the real code: {detail}',
                             {'label': label, 'values': {}, 'shape': list(shape), 'case': cname, 'batched': sorted(batched), 'mods': mods})
            return
        if t.concretized:
            tr.inconc(f'{label}: concretised {t.concretized[:2]}')
            return
        goals = []
        vb = val._ids
        if vb.dim() < len(shape) or tuple(vb.shape[:len(shape)]) != shape or vb.numel() % nS:
            goals.append((f'value has one entry per sample (shape {tuple(vb.shape)})', d.FALSE, [], f'{cname}:batched={sorted(batched)}:shape'))
        else:
            for k, idx in enumerate(idxs):
                s = tag_of(idx)
                B = build(specs)
                for p in params:
                    src = per_s[p][idx] if p in batched else shared[p]
                    B[p].tensor = from_ids(src._ids.clone())
                if idx == pinned_idx:
                    # the sample that carries the distinguished value may be undefined (NaN) or raise in both runs: consistency only
                    try:
                        with special_values(True):
                            vs = evaluate(B[target], opts, k)
                    except Exception as e:
                        tr.notes.append(f'{label}: the slice of the pinned sample alone raises ({type(e).__name__}: {str(e)[:50]}): no reference value for it')
                        continue
                    tr.witness_runs += 1
                    fa = [d.vals[i] for i in vb[idx].reshape(-1).tolist()]
                    fb = [d.vals[i] for i in vs._ids.reshape(-1).tolist()]
                    if len(fa) == len(fb) and not all(math.isfinite(x) for x in fa) and not all(math.isfinite(x) for x in fb):
                        tr.notes.append(f'{label}: the pinned sample is undefined (nan / inf) both in the batch and alone: consistent')
                        continue
                else:
                    vs = evaluate(B[target], opts, k)
                    tr.witness_runs += 1
                a = vb[idx].reshape(-1).tolist()
                b = vs._ids.reshape(-1).tolist()
                if len(a) != len(b):
                    goals.append((f'sample {s}: slice value has the same number of entries', d.FALSE, [], f'{cname}:batched={sorted(batched)}:shape'))
                else:
                    g = d.and_(*[d.eq(x, y) for x, y in zip(a, b)])
                    goals.append((f'sample {s}: value[{s}] == value computed from slice {s} alone', g, ground_axioms(d, [g]),
                                  f'{cname}:batched={sorted(batched)}:mixes-samples'))
        # variables pinned at the (generic, per-sample distinct) witness point: used for `sat` questions only - a model
        # of the pinned query is a model of the unpinned one, and pinning turns the nonlinear search into evaluation
        from symtorch.explore import _to_float, prove

        hyps = dom + list(t.pcs)

        def pins_for(roots):
            """every input symbol, stub output symbol and uninterpreted application (exp/log/sqrt/pow/eigen) below `roots`
            fixed at its value in the explicit witness model: what is left for the solver is rational arithmetic"""
            from fractions import Fraction

            m = exact_model(d, list(roots) + list(V.values())) or {}
            out = []
            for n in sorted(set(d.topo(list(roots))) | set(V.values())):
                if d.ops[n] in ('var', 'uf') and math.isfinite(d.vals[n]):
                    out.append(d.eq(n, d.const(m.get(n, Fraction(d.vals[n])))))
            return out

        # vacuity guard (solver): two samples must be able to produce different values, otherwise mixing
        # could not be observed
        shape_failed = any(g[1] == d.FALSE for g in goals)  # the value is not one entry per sample: a violation candidate, no guard needed
        if pin:
            pass  # the same configuration without the distinguished value carries the guard
        elif nS >= 2 and vb.dim() >= len(shape) and tuple(vb.shape[:len(shape)]) == shape and not shape_failed:
            a0, a1 = vb[idxs[0]].reshape(-1).tolist(), vb[idxs[1]].reshape(-1).tolist()
            cands = [(d.size([x, y]), d.eq(x, y)) for x, y in zip(a0, a1) if x != y]
            if not cands:
                tr.inconc(f'{label}: vacuity guard: the value does not depend on the batched parameters')
            else:
                guard = min(cands)[1]
                st, r, _ = prove(d, hyps + pins_for([guard]), guard, timeout=PIN_TIMEOUT, solvers=('z3',), tr=tr, label='vacuity guard (witness point)')
                if st != 'refuted' and model_separates(d, hyps, guard):
                    # the solver did not answer in time (machine load): the model is exhibited and checked in exact arithmetic
                    st = 'refuted'
                    tr.notes.append(f'{label}: vacuity guard settled by an explicit model (witness point, exact rational evaluation)')
                if st != 'refuted':
                    st, r, _ = prove(d, hyps, guard, timeout=30, tr=tr, label='vacuity guard', parallel=True)
                if st == 'proved':
                    tr.inconc(f'{label}: vacuity guard: both samples always give the same value')
                elif st != 'refuted' and opts.get('likelihood') and 'freqs' in params:
                    tr.inconc(f'{label}: vacuity guard undecided: no model found in which two samples differ')
        elif nS == 1:
            tr.notes.append(f'{label}: one sample - nothing to mix; decided: the value has shape {list(shape)}+[..] and equals the slice value')
        tr.ops_checked += t.nchecked
        tr.sample({'case': label, 'outcome': 'returns', 'shape': list(vb.shape), 'path_conditions': len(t.pcs)})

        def replay(vals):
            return replay_case(cname, batched, vals, shape, mods)

        before = len(tr.violations)
        # goals that are not closed syntactically: first ask for a counterexample AT the witness point (cheap `sat`), replay it
        # on the real code; whatever is not refuted there goes to the full (unpinned) query
        rest = []
        for g in goals:
            if g[1] in (d.TRUE, d.FALSE) or tr.violations[before:]:
                rest.append(g)
                continue
            st, r, _ = prove(d, hyps + pins_for([g[1]]), g[1], timeout=PIN_TIMEOUT, solvers=('z3',), get_values=list(V.values()), tr=tr,
                             label=g[0] + ' (witness point)')
            vals = None
            if st == 'refuted':
                vals = {n: _to_float(r.values[i]) for n, i in V.items() if i in r.values}
            elif model_separates(d, hyps, g[1]) or witness_differs(d, g[1]):
                # no answer in time (machine load / many path conditions): explicit model at the witness point, checked in
                # exact arithmetic - or at least the float witness execution separates; the replay on the real code decides
                vals = {n: float(d.vals[i]) for n, i in V.items()}
            if vals is not None:
                ok, detail = replay(vals)
                if ok:
                    tr.violation(g[3], f'{label}: {g[0]} fails at {vals}: {detail}', {'label': label, 'values': vals})
                    continue
            rest.append(g)
        if tr.violations[before:]:
            # a replayed counterexample exists for this configuration: the remaining open equalities of the same configuration
            # are not pushed through the 40 s unpinned query
            skipped = [g for g in rest if g[1] not in (d.TRUE, d.FALSE)]
            rest = [g for g in rest if g[1] in (d.TRUE, d.FALSE)]
            if skipped:
                tr.notes.append(f'{label}: {len(skipped)} further sample equalities not queried after the replayed counterexample')
        if opts.get('switch') and opts['switch']['verdict'] != 'all' and not tr.violations[before:]:
            # a sample whose own plain pass does not underflow: its slice value is the plain formula, its value in the batch went
            # through the rescaling kernel - equal up to log(x / s) + log(s) = log(x), decided site by site
            rest2 = []
            for g in rest:
                if g[1] not in (d.TRUE, d.FALSE):
                    eqs = [g[1]] if d.ops[g[1]] == 'eq' else (list(d.args[g[1]]) if d.ops[g[1]] == 'and' else [])
                    if eqs and all(log_split(d, tr, e, g[0]) for e in eqs):
                        tr.assumptions.add('switching cases with a sample that does not underflow: every site likelihood and every scaler is positive '
                                           '(log(xy) = log x + log y is applied to them); the per-site identities themselves are solver-proved')
                        g = (g[0] + ' (site by site, log law)', d.TRUE) + tuple(g[2:])
                rest2.append(g)
            rest = rest2
        # eigen contract rows as hypotheses are not needed: the stub is functional (same input -> same symbols)
        cm.discharge(tr, d, hyps, rest, label, replay=replay, varnodes=V, defined=False, timeout=40,
                     threads=2, parallel=True)
        for v in tr.violations[before:]:
            if isinstance(v.get('replay'), dict):
                v['replay'].update({'case': cname, 'batched': sorted(batched), 'shape': list(shape), 'mods': mods})
                if opts.get('switch'):
                    v['replay']['stubs'] = ['torch.isinf(log_p) replaced by the underflow oracle of evaluate_switching (verdict '
                                            f"{opts['switch']['verdict']}), model.threshold = {opts['switch']['thr']!r}"]


# ====================================================================== region-enumerating tasks (birth-death models)
class EngineLimit(Exception):
    pass


def px(params, p):
    e = params[p]
    return e if len(e) == 4 else (e[0], e[1], e[2], {'lo_closed': False, 'hi_closed': False, 'fixed': {}})


def sym_names(p, idx, n):
    return cm.names_shaped(p if idx is None else f'{p}@{tag_of(idx)}', (n,))


def region_inputs(params, batched, idxs):
    """name -> initial witness value of every symbol: shared parameters once, batched ones per sample (distinct values)"""
    nS = len(idxs)
    W = {}
    for p in params:
        vals, lo, hi, ex = px(params, p)
        for k, idx in (list(enumerate(idxs)) if p in batched else [(0, None)]):
            off = 0.0 if idx is None else offset_of(k, nS)
            for i, (nm, v) in enumerate(zip(sym_names(p, idx, len(vals)), vals)):
                if i not in ex['fixed']:
                    W[nm] = v + (hi - v) * off / (1 + off) if hi is not None else v * (1 + off)
    return W


def region_nodes(d, V, params, p, idx):
    vals, lo, hi, ex = px(params, p)
    return [d.const(ex['fixed'][i]) if i in ex['fixed'] else V[nm] for i, nm in enumerate(sym_names(p, idx, len(vals)))]


def region_domain(params, batched, idxs, case_domain, case_generic=None, stratum='all', on_float_tie=None):
    def domain(d, V):
        cs = []
        gen = []
        for p in params:
            vals, lo, hi, ex = px(params, p)
            for idx in (idxs if p in batched else [None]):
                for i, nm in enumerate(sym_names(p, idx, len(vals))):
                    if i in ex['fixed']:
                        continue
                    if lo is not None:
                        cs.append((d.le if ex['lo_closed'] else d.lt)(d.const(lo), V[nm]))
                    if hi is not None:
                        cs.append((d.le if ex['hi_closed'] else d.lt)(V[nm], d.const(hi)))
        if case_domain is not None:
            for idx in idxs:
                view = {p: region_nodes(d, V, params, p, idx if p in batched else None) for p in params}
                cs += case_domain(d, view)
                if case_generic is not None:
                    gen += case_generic(d, view)
        if stratum == 'generic':
            cs += gen
        elif stratum == 'boundary':
            # the complement of the generic stratum inside the domain (a closed, lower-dimensional set)
            c = d.or_(*[d.not_(g) for g in gen]) if gen else d.FALSE
            if c not in (d.TRUE, d.FALSE) and not d.vals[c] and on_float_tie is not None:
                # the solver's point satisfies a tie `origin - t == height` over the reals, but not after rounding to float64: the
                # witness execution (real torch) leaves the stratum.  The region it reaches is explored all the same; for this one
                # iteration the stratum constraint is dropped (the closure query then asks about the whole domain: more, not less)
                on_float_tie()
            else:
                cs.append(c)
        out = []
        for c in cs:
            if c != d.TRUE and c not in out:
                out.append(c)
        return out

    return domain


def pins_at_witness(d, V, roots):
    """every input symbol and uninterpreted application below `roots` fixed at its value in the explicit witness model"""
    from fractions import Fraction

    m = exact_model(d, list(roots) + list(V.values())) or {}
    out = []
    for n in sorted(set(d.topo(list(roots))) | set(V.values())):
        if d.ops[n] in ('var', 'uf') and math.isfinite(d.vals[n]):
            out.append(d.eq(n, d.const(m.get(n, Fraction(d.vals[n])))))
    return out


def vacuity_guard(tr, d, hyps, V, vb, idxs, label, W=None):
    """solver question `can two samples give different values` (sat expected): otherwise mixing could not be observed"""
    from symtorch.explore import prove

    a0, a1 = vb[idxs[0]].reshape(-1).tolist(), vb[idxs[1]].reshape(-1).tolist()
    cands = [(d.size([x, y]), d.eq(x, y)) for x, y in zip(a0, a1) if x != y]
    if not cands:
        tr.inconc(f'{label}: vacuity guard: the value does not depend on the batched parameters')
        return
    guard = min(cands)[1]
    st, r, _ = prove(d, hyps + pins_at_witness(d, V, [guard]), guard, timeout=PIN_TIMEOUT, solvers=('z3',), tr=tr,
                     label='vacuity guard (witness point)')
    if st != 'refuted' and model_separates(d, hyps, guard):
        st = 'refuted'
        tr.notes.append(f'{label}: vacuity guard settled by an explicit model (witness point, exact rational evaluation)')
    if st != 'refuted' and W is not None:
        # the region witness came from the solver and gives both samples the same values: a generic point of the same region
        P = generic_point(d, hyps, V, W)
        if P and differs_at(d, [tuple(d.args[guard])], P):
            st = 'refuted'
            tr.notes.append(f'{label}: vacuity guard settled by evaluating both samples at a generic point of the region')
    if st != 'refuted':
        st, r, _ = prove(d, hyps, guard, timeout=30, tr=tr, label='vacuity guard', parallel=True)
    if st == 'proved':
        tr.inconc(f'{label}: vacuity guard: both samples always give the same value')
    elif st != 'refuted':
        tr.inconc(f'{label}: vacuity guard undecided: no model found in which two samples differ')


def generic_point(d, hyps, V, W):
    """A point of the SAME region (domain and path conditions re-evaluated in floats) in which as many input symbols as the region
    allows are moved off the solver's model: the closure query returns degenerate points (every sample with the same values), at
    which a value that mentions the wrong sample's symbols cannot be told from the right one."""
    import random

    rnd = random.Random(20260927)
    hy = [h for h in hyps if h != d.TRUE]

    def ok(env):
        try:
            ev = d.evaluate(hy, env)
        except Exception:  # noqa
            return False
        return all(bool(ev[h]) for h in hy)

    env = {n: float(W[n]) for n in V}
    if not ok(env):
        return None
    moved = 0
    for nm in sorted(V):
        if env[nm] == 0:
            continue
        for scale in (0.23, 0.11, 0.04, 0.01):
            e2 = dict(env)
            e2[nm] = env[nm] * (1 + scale * rnd.uniform(0.4, 1.0) * rnd.choice((-1, 1)))
            if ok(e2):
                env = e2
                moved += 1
                break
    return env if moved else None


def differs_at(d, pairs, env):
    """the two sides of some equality differ visibly at the point env (float evaluation of the recorded expressions)"""
    try:
        ev = d.evaluate([n for pr in pairs for n in pr], env)
    except Exception:  # noqa
        return False
    for x, y in pairs:
        a, b = ev[x], ev[y]
        if math.isfinite(a) and math.isfinite(b) and abs(a - b) > 1e-8 * max(1.0, abs(a), abs(b)):
            return True
    return False


def point_of(domain, W0, epochs=1):
    """a point of the (stratum of the) domain to start the enumeration from: the solver's model, with every symbol that can keep its
    generic initial value put back to it.  Returns (point or None, status)."""
    from symtorch.explore import _to_float, prove

    with tracing() as t:
        d = t.dag
        V = {n: d.var(n, float(v)) for n, v in W0.items()}
        dom = domain(d, V)
        if all(d.vals[c] for c in dom):
            return dict(W0), 'initial'
        # first with every symbol but those of the LAST sample view of heights / origin / times / rho pinned at its initial value
        # (a small linear problem), then unpinned
        free = [n for n in V if n.split('[')[0].split('@')[0] in ('tree.heights', 'origin', 'times', 'rho')]
        last = sorted({n.split('[')[0].split('@')[1] for n in free if '@' in n})[-1:]
        free = [n for n in free if '@' not in n or n.split('[')[0].split('@')[1] in last]
        pins = [d.eq(V[n], d.const(float(W0[n]))) for n in V if n not in free]
        # a tie `origin - origin * i / m == height` has to hold in float64 as well (the witness execution is real torch): the total
        # height of the process is first tried at small multiples of the number of epochs, where the epoch boundaries are exact
        top = [n for n in free if n.startswith('origin') or (n.startswith('tree.heights') and n.endswith('[1]'))]

        def ok(env):
            ev = d.evaluate(dom, env)
            return all(bool(ev[c]) for c in dom)

        M = None
        status = 'unknown'
        for extra, to, par in [([d.eq(V[n], d.const(float(nice))) for n in top[-1:]], 20, False) for nice in (epochs, 2 * epochs, 4 * epochs)] \
                + [([], 20, False), (None, 90, True)]:
            st, r, _ = prove(d, dom + (pins + extra if extra is not None else []), d.FALSE, timeout=to, get_values=list(V.values()), parallel=par)
            if st == 'proved' and extra is None:
                return None, 'empty'
            if st == 'refuted':
                cand = {n: _to_float(r.values[V[n]]) for n in V}
                if ok(cand):
                    M = cand
                    break
                status = 'the points the solver returned do not satisfy the tie conditions in float64'
        if M is None:
            return None, status
        for n in sorted(V):
            e2 = dict(M)
            e2[n] = float(W0[n])
            if ok(e2):
                M = e2
        return M, 'solver'


def tie_substitution(tr, d, hyps, V):
    """{symbol: representative or the constant 0} for the input symbols that the region forces to be equal (candidates: equal witness values;
    each equality is PROVED from the domain and the path conditions before it is used).  On a lower-dimensional region
    (e.g. two samples with exactly the same root height) the two executions build different expressions for the same value;
    after this substitution they are compared syntactically again."""
    from symtorch.explore import prove

    # candidates: the SAME entry of the same parameter in two samples with equal witness values (R@0[1] ~ R@1[1]); the solver's
    # degenerate models give many unrelated symbols the same value, and every candidate costs a query
    by_val = {}
    for name, n in sorted(V.items(), key=lambda kv: kv[1]):
        key = (name.split('@')[0].split('[')[0], name[name.index('['):] if '[' in name else '')
        by_val.setdefault((0.0,) if d.vals[n] == 0 else (d.vals[n],) + key, []).append(n)
    mapping = {}
    for n in by_val.pop((0.0,), []):
        # a symbol that the region pins to the boundary value 0 of its domain (rho = 0)
        st, _, _ = prove(d, hyps, d.eq(n, 0), timeout=15, tr=tr, label='tie lemma: an input symbol is zero on this region', parallel=True)
        if st == 'proved':
            mapping[n] = 0
    for group in by_val.values():
        reps = []
        for n in group:
            for r0 in reps:
                # symbols of the same parameter first (R@0[1] ~ R@1[1]); a tie between unrelated parameters is possible but rare
                st, _, _ = prove(d, hyps, d.eq(n, r0), timeout=15, tr=tr, label='tie lemma: two input symbols are equal on this region', parallel=True)
                if st == 'proved':
                    mapping[n] = r0
                    break
            else:
                reps.append(n)
    return mapping




def run_region_task(task, tr):
    """Birth-death models: the density takes data-dependent decisions (searchsorted of event times into the epochs, tips exactly
    on an epoch boundary, rho = 0 or > 0), so one symbolic execution covers one path region.  Batched run and per-slice runs are
    executed in ONE trace per region (their decisions together are the region), the per-sample equalities are decided on the
    region, the region is blocked and the solver is asked for a point of the domain outside all explored regions."""
    import time

    from symtorch.explore import Explorer, Goal, triage
    from symtorch.expr import EngineError
    from symtorch.tensor import UnsupportedOp
    from torchtree.core import model as coremodel
    from torchtree.evolution.bdsk import BDSKModel, PiecewiseConstantBirthDeath, epidemiology_to_birth_death
    from torchtree.evolution.birth_death import BirthDeath, BirthDeathModel

    cname, batched = task[0], frozenset(task[1])
    shape = tuple(task[2])
    stratum = task[3] if len(task) > 3 else 'all'
    region_cap, seconds = task[4] if len(task) > 4 else (12, 40.0)
    idxs = sample_indices(shape)
    label = label_of(cname, batched, shape) + (f' [{stratum} stratum]' if stratum != 'all' else '')
    specs, params, target, opts = CASES[cname]()
    if cname.startswith('bdsk:'):
        tr.fn(coremodel.CallableModel.__call__, BDSKModel._call, epidemiology_to_birth_death, PiecewiseConstantBirthDeath.log_prob,
              PiecewiseConstantBirthDeath.log_p, PiecewiseConstantBirthDeath.log_q, PiecewiseConstantBirthDeath.p0)
    else:
        tr.fn(coremodel.CallableModel.__call__, BirthDeathModel._call, BirthDeath.log_prob, BirthDeath.log_p, BirthDeath.log_q)
    tr.bounds['birth-death'] = BOUNDS_BD
    tr.assumptions.add('birth-death cases: 3 taxa, topology ((t0,t1),t2), tip heights 0.5 / 0 / 0.2 fixed (taxon dates are data); domain: '
                       'R, delta, lambda, mu, psi > 0, 0 < s < 1, 0 < r < 1, 0 <= rho <= 1 (inner rho < 1), internal heights above their children, '
                       'origin >= root height (root edge >= 0), epoch times 0 < t1 < .. < origin (fractions: < 1); the first epoch time is the constant 0')
    state = {'raised': [], 'returned': 0, 'slice_raises': 0, 'guard': False, 'stop': False, 'float_ties': 0}
    def float_tie():
        state['float_ties'] += 1

    domain = region_domain(params, batched, idxs, opts.get('domain'), opts.get('generic') if stratum != 'all' else None, stratum, float_tie)

    def tensors(d, V, obj, idx):
        """idx None: the batched assignment; otherwise the slice of sample idx"""
        for p in params:
            if p in batched and idx is None:
                ids = torch.tensor([region_nodes(d, V, params, p, i) for i in idxs], dtype=torch.int64)
                obj[p].tensor = from_ids(ids.reshape(shape + (ids.shape[-1],)))
            else:
                obj[p].tensor = from_ids(torch.tensor(region_nodes(d, V, params, p, idx if p in batched else None), dtype=torch.int64))

    def signature(W):
        ev = opts.get('rho_events')
        if ev is not None:
            def vals(idx):
                out = {}
                for p in params:
                    base, _, _, ex_ = px(params, p)
                    out[p] = [ex_['fixed'][i] if i in ex_['fixed'] else W[nm]
                              for i, nm in enumerate(sym_names(p, idx if p in batched else None, len(base)))]
                return out

            if len({ev(vals(idx)) for idx in idxs}) > 1:
                return SIG_RHO0
        return f'{cname}:batched={sorted(batched)}:mixes-samples'

    def float_tie_abort(e):
        """a tie of the solver's point holds over the reals but real torch (float64) and the recorded expression disagree by an ulp on
        which side of it the witness lies: this point cannot be executed consistently.  The enumeration of this configuration stops
        here WITHOUT a coverage certificate (the regions explored so far keep their verdicts)."""
        if 'path condition does not hold at witness' not in str(e) and 'path condition is constant false' not in str(e):
            return False
        state['float_abort'] = str(e)[:100]
        ex.max_regions = 0
        ex.require_closure = False
        return True

    def body(t, V, W):
        d = t.dag
        A = build(specs)
        try:
            tensors(d, V, A, None)
            val = evaluate(A[target], opts)
        except UnsupportedOp as e:
            raise EngineLimit(f'{type(e).__name__}: {e}')
        except EngineError as e:
            if float_tie_abort(e):
                return []
            raise
        except Exception as e:  # unsupported shape combination: allowed to fail loudly
            state['raised'].append(f'{type(e).__name__}: {e}')
            tr.obligation(f'raises:{label}', nontrivial=False)
            return []
        state['returned'] += 1
        sig = signature(W)
        if not isinstance(val, SymTensor):
            return [Goal(f'{label}: the value is a constant (does not depend on any parameter)', d.FALSE, signature=sig)]
        vb = val._ids
        if vb.dim() < len(shape) or tuple(vb.shape[:len(shape)]) != shape or vb.numel() % len(idxs):
            state['stop'] = True
            return [Goal(f'value has one entry per sample (shape {tuple(vb.shape)})', d.FALSE, signature=f'{cname}:batched={sorted(batched)}:shape')]
        goals = []
        ties = generic = None
        for idx in idxs:
            s = tag_of(idx)
            B = build(specs)
            try:
                tensors(d, V, B, idx)
                vs = evaluate(B[target], opts)
            except UnsupportedOp as e:
                raise EngineLimit(f'{type(e).__name__}: {e}')
            except EngineError as e:
                if float_tie_abort(e):
                    return []
                raise
            except Exception as e:  # no reference value for this sample on this region
                state['slice_raises'] += 1
                if state['slice_raises'] == 1:
                    tr.notes.append(f'{label}: the evaluation of slice {s} alone raises on a region ({type(e).__name__}: {str(e)[:60]}): no reference '
                                    f'value for that sample there (further regions of this kind are counted in "birth-death: coverage of this run")')
                continue
            tr.witness_runs += 1
            a = vb[idx].reshape(-1).tolist()
            b = vs._ids.reshape(-1).tolist()
            what = f'sample {s}: value[{s}] == value computed from slice {s} alone'
            if len(a) != len(b):
                goals.append(Goal(f'sample {s}: slice value has the same number of entries', d.FALSE, signature=f'{cname}:batched={sorted(batched)}:shape'))
                continue
            g = d.and_(*[d.eq(x, y) for x, y in zip(a, b)])
            if g not in (d.TRUE, d.FALSE) and witness_differs(d, g):
                # the two executions already differ at this region's witness: nothing to prove, the point goes to the replay
                x, y = [d.vals[i] for i in a], [d.vals[i] for i in b]
                goals.append(Goal(f'{what} (at the region witness: batched {x}, slice alone {y})', d.FALSE, signature=sig))
                continue
            if g not in (d.TRUE, d.FALSE):
                if generic is None:
                    generic = generic_point(d, domain(d, V) + list(t.pcs), V, W) or {}
                if generic and differs_at(d, list(zip(a, b)), generic):
                    goals.append(Goal(f'{what} (differs at a generic point of the region)', d.FALSE, signature=sig, info=generic))
                    continue
                if ties is None:
                    ties = tie_substitution(tr, d, domain(d, V) + list(t.pcs), V)
                if ties:
                    g = d.substitute([g], ties)[0]
                    what += ' (input symbols that the region forces to be equal identified, each equality proved first)'
            goals.append(Goal(what, g, hyps=[] if g in (d.TRUE, d.FALSE) else ground_axioms(d, [g]), signature=sig))
        if any(g.node != d.TRUE and g.signature != SIG_RHO0 for g in goals):
            state['stop'] = True
        if not state['guard'] and len(idxs) >= 2:
            state['guard'] = True
            vacuity_guard(tr, d, domain(d, V) + list(t.pcs), V, vb, idxs, label, W)
        if state['stop']:
            # a candidate counterexample exists: it is replayed on the real code; no further regions for this configuration
            ex.max_regions = 0
            ex.require_closure = False
        return goals

    nviol = len(tr.violations)
    strict = region_domain(params, batched, idxs, opts.get('domain'), opts.get('generic') if stratum != 'all' else None, stratum)
    start, how = point_of(strict, region_inputs(params, batched, idxs), opts.get('epochs', 1))
    if start is None:
        if how == 'empty':
            tr.notes.append(f'{label}: this stratum of the domain is empty (solver: unsat)')
        else:
            tr.inconc(f'{label}: no starting point of the stratum found (solver: {how})')
        return
    ex = Explorer(start, domain, body, tr, max_regions=region_cap, timeout=40.0, closure_timeout=30.0,
                  label=label, check_defined=False, deadline=time.time() + seconds, require_closure=False, parallel=True)
    try:
        out = ex.run()
    except EngineLimit as e:
        try:
            rep, detail = replay_region_case(cname, batched, {}, shape)
        except Exception as e2:  # noqa
            rep, detail = None, f'{type(e2).__name__}: {e2}'
        if rep is False and detail.startswith('batched evaluation raises'):
            tr.notes.append(f'{label}: raises ({detail[:80]}) - accepted (decided on the real code; the engine stopped at: {str(e)[:60]})')
            tr.obligation(f'raises:{label}', nontrivial=False)
        elif rep:
            tr.violation(f'{cname}:batched={sorted(batched)}:mixes-samples', f'{label}: witness replay on the real code: {detail}',
                         {'label': label, 'values': {}, 'case': cname, 'batched': sorted(batched), 'shape': list(shape)})
        else:
            tr.inconc(f'{label}: symbolic engine limitation ({str(e)[:80]}) and the real code returns a value: undecided')
        return
    if state.get('float_abort'):
        if out.closed:
            out.closed = False
            tr.closures -= 1
        out.regions = max(0, out.regions - 1)  # the last point was not executed
        tr.notes.append(f'{label}: enumeration stopped at a point whose tie holds over the reals but not consistently in float64 '
                        f'({state["float_abort"][:60]}): explored regions only')
    for smp in out.region_samples[:1]:
        smp['case'] = label
        tr.sample(smp)
    # a candidate found at a generic point of a region is replayed at that point (the solver's own model of the region may be degenerate)
    out.failed = [(g, (g.info if isinstance(g.info, dict) else model), k, w) for g, model, k, w in out.failed]
    triage(out, lambda vals: replay_region_case(cname, batched, vals, shape), tr, label,
           {'label': label, 'case': cname, 'batched': sorted(batched), 'shape': list(shape)})
    if opts.get('rho_kind') == 'short' and opts.get('epochs', 1) > 1 and 'rho' not in batched and batched & {'R', 'delta'}:
        # diagnosis of a reproduced discrepancy: is it the one-value rho being broadcast over the epochs (sampling at EVERY epoch end)
        # instead of being padded with zeros as in the un-batched evaluation?  Only then the case gets that signature.
        for v in tr.violations[nviol:]:
            if v['signature'] == f'{cname}:batched={sorted(batched)}:mixes-samples':
                ok, detail = replay_region_case(cname, batched, (v.get('replay') or {}).get('values') or {}, shape,
                                                slice_override={'rho': lambda x: list(x) * opts['epochs']})
                if ok is False and detail == 'agree':
                    v['signature'] = SIG_RHO_BCAST
                    v['what'] += ' [diagnosis: every sample equals the slice value computed with rho applied at the end of every epoch]'
    if state['float_ties']:
        tr.notes.append(f'{label}: {state["float_ties"]} point(s) of the stratum returned by the solver satisfy their tie condition over the reals only '
                        f'(not in float64): the witness execution left the stratum there')
    nraised = len(state['raised'])
    if nraised and not state['returned']:
        tr.notes.append(f'{label}: raises ({state["raised"][0][:80]}) - accepted: fails with an error rather than returning a number')
        kind = 'raises'
    elif nraised:
        tr.notes.append(f'{label}: raises on {nraised} of {out.regions} regions ({state["raised"][0][:60]}), returns on the others')
        kind = 'returns/raises'
    else:
        kind = 'returns'
    tr.notes.append(f'BD-COVERAGE|{cname}|{list(shape)}|{kind}|{"certificate" if out.closed else "explored regions only"}|{out.regions}|{stratum}|{state["slice_raises"]}')


def replay_region_case(cname, batched, vals, shape, slice_override=None):
    """plain tensors on the real code: batched evaluation against per-slice evaluations of freshly built copies.  Values that the
    counterexample does not name take the initial witness; no value is altered.  slice_override {parameter: list -> list} rewrites a
    parameter of the per-slice evaluations only (used to DIAGNOSE a reproduced discrepancy, never to decide one)."""
    specs, params, target, opts = CASES[cname]()
    shape = tuple(shape)
    idxs = sample_indices(shape)
    W = region_inputs(params, batched, idxs)
    W.update({k: float(v) for k, v in vals.items() if k in W})

    def value(p, idx):
        base, lo, hi, ex = px(params, p)
        return [ex['fixed'][i] if i in ex['fixed'] else W[nm] for i, nm in enumerate(sym_names(p, idx, len(base)))]

    A = build(specs)
    try:
        for p in params:
            if p in batched:
                A[p].tensor = torch.tensor([value(p, idx) for idx in idxs], dtype=torch.float64).reshape(shape + (-1,))
            else:
                A[p].tensor = torch.tensor(value(p, None), dtype=torch.float64)
        val = evaluate(A[target], opts).to(torch.float64)
    except Exception as e:
        return False, f'batched evaluation raises ({type(e).__name__}): accepted'
    if val.dim() < len(shape) or tuple(val.shape[:len(shape)]) != shape:
        return True, f'value has shape {tuple(val.shape)}: not one entry per sample of sample shape {list(shape)}'
    noref = []
    for idx in idxs:
        B = build(specs)
        for p in params:
            v = value(p, idx if p in batched else None)
            B[p].tensor = torch.tensor((slice_override or {}).get(p, lambda x: x)(v), dtype=torch.float64)
        try:
            vs = evaluate(B[target], opts).to(torch.float64)
        except Exception as e:  # no reference value for THIS sample (as in the symbolic run); the other samples are still compared
            noref.append(f'slice {tag_of(idx)} alone raises ({type(e).__name__})')
            continue
        if not bool(torch.isfinite(vs).all()):
            noref.append(f'slice {tag_of(idx)} alone gives {vs.tolist()}')
            continue
        if vs.numel() != val[idx].numel() or not torch.allclose(val[idx].reshape(-1), vs.reshape(-1), rtol=1e-8, atol=1e-10):
            return True, f'sample {tag_of(idx)}: batched value {val[idx].tolist()} but slice alone gives {vs.tolist()}'
    if noref:
        return False, 'agree where a reference value exists (' + '; '.join(noref) + ')'
    return False, 'agree'


def concrete_values(params, batched, vals, idxs, opts, mods):
    """plain parameter values of one configuration: value(p, k, idx) for a batched sample, value(p, None, None) for a shared parameter.
    Values the counterexample does not name take the initial witness; the distinguished value of `mods['pin']` is applied last."""
    nS = len(idxs)
    pin = (mods or {}).get('pin')

    def raw(p, k, idx):
        base, lo, hi = params[p]
        names = cm.names_shaped(p if idx is None else f'{p}@{tag_of(idx)}', (len(base),))
        out = []
        for i, (nm, b) in enumerate(zip(names, base)):
            off = 0.0 if idx is None else offset_of(k, nS)
            v = vals.get(nm, witness_value(b, i, off, lo, idx is not None, opts))
            if lo is not None and v <= lo:
                v = lo + abs(b)
            if hi is not None and v >= hi:
                v = hi - 0.05
            out.append(v)
        if p == 'tree.heights':
            out = sorted(out)
            if out[0] == out[1]:
                out[1] += 0.5
        return out

    def value(p, k, idx):
        out = raw(p, k, idx)
        if pin and p == pin['param'] and idx is not None and k == PIN_SAMPLE:
            to = pin['to']
            if isinstance(to, (tuple, list)):
                out[pin['entry']] = out[to[1]] if to[0] == 'entry' else (raw(to[1], k, idx) if to[1] in batched else raw(to[1], None, None))[to[2]]
            else:
                out[pin['entry']] = float(to)
        return out

    return value


def replay_case(cname, batched, vals, shape=(S,), mods=None):
    """plain tensors on the real code: batched evaluation against per-slice evaluations of freshly built copies.  With a pinned
    (distinguished-value) sample: that sample may be undefined or raise alone - it is compared for consistency only (nan == nan)."""
    specs, params, target, opts = CASES[cname]()
    shape = tuple(shape)
    idxs = sample_indices(shape)
    pin = (mods or {}).get('pin')
    if opts.get('switch') and not resolve_switch(cname, batched, shape, opts, mods):
        return False, 'no threshold for this configuration'
    value = concrete_values(params, batched, vals, idxs, opts, mods)

    A = build(specs)
    try:
        for p in params:
            if p in batched:
                A[p].tensor = torch.tensor([value(p, k, idx) for k, idx in enumerate(idxs)], dtype=torch.float64).reshape(shape + (-1,))
            else:
                A[p].tensor = torch.tensor(value(p, None, None), dtype=torch.float64)
        for k in ('freqs',):
            if k in A:
                A[k].tensor = A[k].tensor.to(torch.float64)
        val = evaluate(A[target], opts).to(torch.float64)
    except Exception as e:
        return False, f'batched evaluation raises ({type(e).__name__}): accepted'
    if val.dim() < len(shape) or tuple(val.shape[:len(shape)]) != shape:
        return True, f'shape: value has shape {tuple(val.shape)}: not one entry per sample of sample shape {list(shape)}'
    for k, idx in enumerate(idxs):
        B = build(specs)
        for p in params:
            B[p].tensor = torch.tensor(value(p, k, idx) if p in batched else value(p, None, None), dtype=torch.float64)
        for kk in ('freqs',):
            if kk in B:
                B[kk].tensor = B[kk].tensor.to(torch.float64)
        pinned = bool(pin) and k == PIN_SAMPLE
        try:
            vs = evaluate(B[target], opts, k).to(torch.float64)
        except Exception:
            if pinned:
                continue  # no reference value for the pinned sample
            raise
        if vs.numel() != val[idx].numel() or not torch.allclose(val[idx].reshape(-1), vs.reshape(-1), rtol=1e-8, atol=1e-10, equal_nan=pinned):
            if pinned and vs.numel() == val[idx].numel() and not bool(torch.isfinite(val[idx]).all()) and not bool(torch.isfinite(vs).all()):
                continue  # undefined in both runs
            if vs.numel() != val[idx].numel():
                return True, f'shape: sample {tag_of(idx)}: the batched value has {val[idx].numel()} entries per sample {val[idx].tolist()}, the slice alone gives {vs.tolist()}'
            return True, f'sample {tag_of(idx)}: batched value {val[idx].tolist()} but slice alone gives {vs.tolist()}'
    return False, 'agree'


_SWITCH_THR = {}


def resolve_switch(cname, batched, shape, opts, mods=None):
    """model.threshold of a switching case, fixed from the plain partials at the initial witness (real code, plain tensors):
    'all': above every per-site maximum of every internal node (every node is recomputed and rescaled);
    'root': between the maxima of the root (below it in every sample) and of the cherry (not below it in any sample), so that only the
    root is recomputed - in the batched run and in every slice.  False when no such threshold exists."""
    sw = opts['switch']
    key = (cname, frozenset(batched), tuple(shape))
    if key not in _SWITCH_THR:
        specs, params, target, popts = CASES[cname]()
        popts = {k: v for k, v in popts.items() if k != 'switch'}
        idxs = sample_indices(tuple(shape))
        value = concrete_values(params, batched, {}, idxs, popts, None)
        thr = None
        try:
            A = build(specs)
            for p in params:
                if p in batched:
                    A[p].tensor = torch.tensor([value(p, k, idx) for k, idx in enumerate(idxs)], dtype=torch.float64).reshape(tuple(shape) + (-1,))
                else:
                    A[p].tensor = torch.tensor(value(p, None, None), dtype=torch.float64)
            m = A[target]
            m()
            post = m.tree_model.postorder
            mx = {}
            for node in (int(post[0][0]), int(post[-1][0])):
                t_ = m.partials[node].max(-2)[0]  # [..., K, N]
                mx[node] = t_.reshape((len(idxs), -1)) if tuple(t_.shape[:len(shape)]) == tuple(shape) else t_.reshape((1, -1))
            cherry, root = mx[int(post[0][0])], mx[int(post[-1][0])]
            if sw['nodes'] == 'all':
                thr = 1.5 * float(max(cherry.max(), root.max()))
            else:
                lo_, hi_ = float(root.min(-1)[0].max()), float(cherry.min())
                thr = math.sqrt(lo_ * hi_) if 0 < lo_ < hi_ else None
        except Exception:  # the batched evaluation raises: the configuration is decided as `raises` whatever the threshold
            thr = 1.5
        _SWITCH_THR[key] = thr
    sw['thr'] = _SWITCH_THR[key]
    return sw['thr'] is not None


def subsets(names, tier):
    names = sorted(names)
    allp = frozenset(names)
    out = {allp}
    for n in names:
        out.add(frozenset([n]))
        out.add(allp - {n})
    if tier == 'thorough':
        for r in range(1, len(names) + 1):
            for c in itertools.combinations(names, r):
                out.add(frozenset(c))
    out.discard(frozenset())
    return sorted(out, key=lambda s: (len(s), sorted(s)))


BOUNDS_LIKE = ''  # set by body()
BOUNDS_BD = ''  # set by body()
BOUNDS_PIN = ''  # set by body()
BOUNDS_SWITCH = ''  # set by body()


def like_subsets(params, tier):
    """subsets of a likelihood case that carry the sample dimension on the substitution model"""
    names = sorted(params)
    sub_params = [p for p in ('kappa', 'rates', 'freqs') if p in params]
    out = []
    for sub in subsets(names, 'thorough'):
        if not (sub & set(sub_params)):
            continue
        out.append(sub)
    if tier != 'thorough':
        # all, substitution model only, frequencies only, substitution model + each single other parameter,
        # everything but the frequencies / but the exchangeabilities
        sm = frozenset(sub_params)
        keep = {frozenset(names), sm, frozenset(['freqs']), frozenset(names) - {'freqs'}, frozenset(names) - (sm - {'freqs'})}
        for n in names:
            keep.add(sm | {n})
        out = [s for s in out if s in keep]
    return out


OLD_CASES = [c for c in CASES if not c.startswith(('likelihood:', 'extra:') + REGION_PREFIXES)] + [
    'likelihood:unrooted/constant/JC69', 'likelihood:strict/weibull/JC69', 'likelihood:simple/invariant/JC69',
    'likelihood:unrooted/weibull/HKY', 'likelihood:strict/constant/HKY']

GRID1 = [(s,) for s in range(1, 6)]
GRID2 = [(s, k) for s in range(1, 6) for k in range(1, 6)]
# sample shapes per likelihood case; chosen so that a sample axis has the size of each structural axis in turn
# (rate categories K, states 4, branches 4, patterns 3), is 1, or differs from all of them
LIKE_SHAPES = {
    'quick': {
        'likelihood:unrooted/constant/HKY': [(1,), (3,), (4,), (2, 3)],  # K = 1
        'likelihood:unrooted/weibull/HKY': [(3,), (2, 2), (3, 2)],  # K = 2 ([2] is in the base set)
        'likelihood:unrooted/weibull3/HKY': [(2,), (3,), (2, 3), (3, 3)],  # K = 3
        'likelihood:unrooted/weibull4/HKY': [(4,), (1, 4), (4, 1)],  # K = 4
        'likelihood:unrooted/weibull5/HKY': [(5,)],  # K = 5
        'likelihood:unrooted/invariant/HKY': [(2,), (3,)],  # K = 2
        'likelihood:unrooted/constant+mu/HKY': [(2,)],
        'likelihood:strict/constant/HKY': [(4,)],
        'likelihood:simple/weibull3/HKY': [(3,), (4,)],
        'likelihood:unrooted/constant/GTR': [(2,), (3,)],
        'likelihood:unrooted/weibull/GTR': [(2,), (2, 2)],
        'likelihood:unrooted/weibull3/GTR': [(3,)],
        'likelihood:unrooted/constant/HKY/tip-states': [(2,), (3,)],
        'likelihood:unrooted/weibull/HKY/tip-states': [(2,), (3, 2)],
        'likelihood:unrooted/weibull3/HKY/tip-states': [(3,)],
        'likelihood:unrooted/weibull/JC69/tip-states': [(2,)],
        'likelihood:unrooted/constant/HKY/rescaled': [(3,)],
        'likelihood:unrooted/weibull/HKY/rescaled': [(2,), (2, 2)],
        'likelihood:unrooted/weibull3/HKY/rescaled': [(3,)],
        'likelihood:unrooted/weibull/HKY/tip-states/rescaled': [(2,)],
    },
    'thorough': {
        'likelihood:unrooted/constant/HKY': GRID1 + GRID2,
        'likelihood:unrooted/weibull/HKY': GRID1 + GRID2,
        'likelihood:unrooted/weibull3/HKY': GRID1 + GRID2,
        'likelihood:unrooted/weibull4/HKY': GRID1 + [(1, 4), (4, 1), (4, 4), (2, 4), (4, 2), (3, 4)],
        'likelihood:unrooted/weibull5/HKY': GRID1 + [(1, 5), (5, 1), (5, 5), (2, 5), (5, 2)],
        'likelihood:unrooted/invariant/HKY': GRID1 + [(2, 2), (3, 2), (2, 3)],
        'likelihood:unrooted/constant+mu/HKY': GRID1 + [(2, 2), (2, 3)],
        'likelihood:strict/constant/HKY': GRID1 + [(2, 2), (2, 4)],
        'likelihood:simple/weibull3/HKY': GRID1 + [(2, 3), (3, 3), (3, 4)],
        'likelihood:unrooted/constant/GTR': GRID1 + [(2, 2), (2, 3), (3, 4)],
        'likelihood:unrooted/weibull/GTR': GRID1 + [(2, 2), (3, 2), (2, 3)],
        'likelihood:unrooted/weibull3/GTR': GRID1 + [(2, 3), (3, 3)],
        'likelihood:unrooted/constant/HKY/tip-states': GRID1 + [(2, 2), (2, 3), (3, 4)],
        'likelihood:unrooted/weibull/HKY/tip-states': GRID1 + [(2, 2), (3, 2), (2, 3)],
        'likelihood:unrooted/weibull3/HKY/tip-states': GRID1 + [(2, 3), (3, 3)],
        'likelihood:unrooted/weibull/JC69/tip-states': GRID1 + [(2, 2), (3, 2)],
        'likelihood:unrooted/constant/HKY/rescaled': GRID1 + [(2, 3)],
        'likelihood:unrooted/weibull/HKY/rescaled': GRID1 + [(2, 2), (3, 2)],
        'likelihood:unrooted/weibull3/HKY/rescaled': GRID1 + [(2, 3), (3, 3)],
        'likelihood:unrooted/weibull/HKY/tip-states/rescaled': GRID1 + [(2, 2)],
    },
}
# thorough: every subset (that batches a substitution-model parameter) for sample shapes [S]; the selection of
# like_subsets(quick) for sample shapes [S,K]
# other (non-likelihood) cases, thorough tier only: further sample shapes with the quick subset selection
OTHER_SHAPES_THOROUGH = [(3,), (2, 2)]
# birth-death cases: [2] collides with 2 epochs and 2 internal nodes, [3] with 3 taxa, 3 epochs and the 3 epoch times of a 2-epoch model
BD_SHAPES = {'quick': [(2,), (3,)], 'thorough': [(2,), (3,), (2, 2)]}


def bd_tasks(tier):
    """(case, batched subset, sample shape, stratum, (region budget, seconds)).  One epoch / constant rates: the whole domain in one
    task (few regions, coverage certificate).  More epochs: the generic stratum (every rho > 0, no event exactly on an inner epoch
    boundary) and its complement (`boundary`) are separate tasks; the budget says how far the enumeration goes."""
    thorough = tier == 'thorough'
    ts = []
    for cname, (kw, ctier) in BD_VARIANTS.items():
        if ctier == 'thorough' and not thorough:
            continue
        _, params, _, _ = CASES[cname]()
        m = kw.get('m', 1)
        allp = frozenset(params)
        for shape in BD_SHAPES['thorough' if thorough else 'quick']:
            every = thorough and shape == (2,) and m == 1
            for sub in subsets(params.keys(), 'thorough' if every else 'quick'):
                full = sub == allp
                if m == 1:
                    ts.append((cname, sub, shape, 'all', (80, 120.0) if thorough else (20, 40.0)))
                elif not thorough:
                    # [2]: 16 / 25 regions cover the generic stratum (certificate); [3] needs 64 / 125: thorough tier
                    ts.append((cname, sub, shape, 'generic', (40, 40.0) if shape == (2,) else (10, 25.0)))
                    ts.append((cname, sub, shape, 'boundary', (6, 20.0)))
                elif m == 2:
                    gen = {(2,): (60, 120.0), (3,): (150, 300.0) if full else (24, 60.0), (2, 2): (60, 150.0) if full else (12, 45.0)}[shape]
                    bnd = (140, 360.0) if (shape == (2,) and full) else (12, 45.0)
                    ts.append((cname, sub, shape, 'generic', gen))
                    ts.append((cname, sub, shape, 'boundary', bnd))
                else:
                    gen = (260, 480.0) if (shape == (2,) and full) else ((24, 60.0) if shape != (2, 2) else (12, 45.0))
                    ts.append((cname, sub, shape, 'generic', gen))
                    ts.append((cname, sub, shape, 'boundary', (12, 45.0)))
    return ts


def switch_tasks(tier):
    """the switching evaluation of the tree likelihood: sample shapes [2] (= number of internal nodes) and [3] (= number of site patterns)"""
    thorough = tier == 'thorough'
    ts = []
    for vname in SWITCH_VARIANTS:
        for comp in SWITCH_COMPOSITES:
            cname = f'extra:switch {vname}:{comp}'
            _, params, _, _ = CASES[cname]()
            if not thorough and vname == 'root only rescaled' and comp not in ('unrooted/weibull/HKY', 'strict/weibull/JC69'):
                continue
            for shape in [(2,), (3,)] + ([(2, 2)] if thorough else []):
                subs = subsets(params.keys(), 'thorough' if (thorough and shape == (2,)) else 'quick')
                if not thorough and vname == 'only the first sample underflows':
                    if shape != (2,):
                        continue
                    subs = [x for x in subs if len(x) == 1 or len(x) == len(params)]
                for sub in subs:
                    ts.append((cname, sub, shape))
    return ts


# likelihood composites that carry the distinguished-value configurations in the quick tier (thorough: every likelihood case)
PIN_LIKELIHOOD_QUICK = ['likelihood:unrooted/constant/JC69', 'likelihood:strict/weibull/JC69', 'likelihood:simple/invariant/JC69',
                        'likelihood:unrooted/weibull/HKY', 'likelihood:unrooted/invariant/HKY', 'likelihood:unrooted/constant/GTR']


def pin_tasks(tier):
    """special values inside a batch: for every batched parameter p (all parameters batched / p alone batched) one sample's entry is
    0, 1, equal to its neighbouring entry or equal to the first entry of another parameter; see pins_of"""
    thorough = tier == 'thorough'
    ts = []
    for cname in CASES:
        if cname.startswith(REGION_PREFIXES) or cname.startswith('extra:switch '):
            continue
        if cname.startswith('likelihood:') and not thorough and cname not in PIN_LIKELIHOOD_QUICK:
            continue
        if cname.startswith('extra:likelihood') and not thorough:
            continue
        _, params, _, _ = CASES[cname]()
        allp = frozenset(params)
        like = cname.startswith(('likelihood:', 'extra:likelihood'))
        minor = like and cname not in PIN_LIKELIHOOD_QUICK  # thorough only: all parameters batched, [2]
        for pin in pins_of(params, thorough and not minor):
            if like and (not thorough or minor) and isinstance(pin['to'], tuple) and pin['to'][0] == 'param':
                continue
            for sub in ([allp, frozenset([pin['param']])] if (len(allp) > 1 and not minor) else [allp]):
                for shape in ([(2,), (3,)] if (thorough and not minor) else [(2,)]):
                    ts.append((cname, sub, shape, {'pin': pin}))
    return ts


def tasks_for(tier):
    ts = []
    for cname in OLD_CASES:
        _, params, _, _ = CASES[cname]()
        for sub in subsets(params.keys(), tier):
            ts.append((cname, sub, (S,)))
    for cname, shapes in LIKE_SHAPES['thorough' if tier == 'thorough' else 'quick'].items():
        _, params, _, _ = CASES[cname]()
        for shape in shapes:
            if any(p in params for p in ('kappa', 'rates', 'freqs')):
                subs = like_subsets(params, tier if len(shape) == 1 else 'quick')
            else:
                subs = subsets(params.keys(), tier if len(shape) == 1 else 'quick')
            for sub in subs:
                ts.append((cname, sub, tuple(shape)))
    if tier == 'thorough':
        for cname in OLD_CASES:
            if cname.startswith('likelihood:') and cname in LIKE_SHAPES['thorough']:
                continue
            _, params, _, _ = CASES[cname]()
            for shape in OTHER_SHAPES_THOROUGH:
                for sub in subsets(params.keys(), 'quick'):
                    ts.append((cname, sub, shape))
    ts += switch_tasks(tier) + pin_tasks(tier)
    for cname in CASES:
        if (cname.startswith('extra:') and not cname.startswith('extra:switch ')) or '.p_t' in cname:
            if tier != 'thorough' and cname in ('extra:likelihood strict/constant/GS', 'extra:likelihood unrooted/weibull3/GS'):
                continue  # the symmetric general model shares p_t with GTR (eigh): two of its four composites are thorough-only
            _, params, _, _ = CASES[cname]()
            for shape in ([(2,), (3,), (2, 2)] if tier == 'thorough' else [(2,), (3,)]):
                for sub in subsets(params.keys(), tier if len(shape) == 1 else 'quick'):
                    ts.append((cname, sub, tuple(shape)))
    ts += bd_tasks(tier)
    seen = set()
    out = []
    for tsk in ts:
        key = repr(tsk)
        if key not in seen:
            seen.add(key)
            out.append(tsk)
    # heavy (many samples) first: better packing over the worker pool
    out.sort(key=lambda x: -(1000 + x[4][0]) if x[0].startswith(REGION_PREFIXES) else -torch.Size(x[2]).numel())
    return out


def shapes_text(v):
    v = [tuple(s) for s in v]
    out = []
    if all(s in v for s in GRID1):
        out.append('[S] S=1..5')
        v = [s for s in v if s not in GRID1]
    if all(s in v for s in GRID2):
        out.append('[S,K] S,K=1..5')
        v = [s for s in v if s not in GRID2]
    return ' + '.join(out + [str(list(s)) for s in v])


def bounds_like(tier):
    sh = LIKE_SHAPES['thorough' if tier == 'thorough' else 'quick']
    sel = ('{all, substitution model only, frequencies only, all but frequencies, all but kappa/rates, substitution model + one '
           'other parameter}')
    return ('TreeLikelihoodModel with HKY / GTR, the frequencies among the batchable parameters; kernels: tip partials, tip states, and '
            '(cases "/rescaled") their rescaled variants; rate categories K in 1..5 (constant, constant+mu, invariant, Weibull 2..5); '
            'unrooted / strict-clock / per-branch-clock trees on 3 taxa; every sample shape listed is checked for EVERY sample index; '
            'sample shapes per case (chosen to collide with K, 4 states, 4 branches, 3 patterns, and 1): '
            + '; '.join(f"{c.split(':', 1)[1]}: {shapes_text(v)}" for c, v in sh.items())
            + (f'; subsets: every subset that batches kappa / rates / frequencies for shapes [S], the selection {sel} for [S,K]'
               if tier == 'thorough' else f'; subsets: {sel}')
            + '; the five base likelihood cases (JC69 x3, unrooted/weibull/HKY, strict/constant/HKY) run at [2] with the generic subset '
              'selection, frequencies included')


def bounds_bd(tier):
    thorough = tier == 'thorough'
    names = [c for c, (_, ct) in BD_VARIANTS.items() if thorough or ct != 'thorough']
    return ('BDSKModel (PiecewiseConstantBirthDeath.log_prob through epidemiology_to_birth_death) and BirthDeathModel (BirthDeath.log_prob) on 3 taxa '
            '((t0,t1),t2) with tip heights 0.5 / 0 / 0.2 (serial + contemporaneous tips); batchable parameters: R, delta, s (= lambda, mu, psi), rho, '
            'origin / root edge, epoch times, removal probability r, internal node heights; variants: ' + '; '.join(names)
            + '; sample shapes ' + ', '.join(str(list(x)) for x in BD_SHAPES['thorough' if thorough else 'quick'])
            + ' ([2] = number of epochs of a 2-epoch model = number of internal nodes, [3] = number of taxa = number of epoch times of a 2-epoch '
              'model = epochs of a 3-epoch model); subsets: '
            + ('every non-empty subset at [2] for 1 epoch / constant rates, otherwise ' if thorough else '') + 'all, each single one, all but one; '
            'every sample index is decided on every explored path region (searchsorted cells of events among epoch times, tips exactly on an '
            'epoch boundary, rho = 0 or > 0; batched and per-slice executions share one trace per region). One epoch / constant rates: the whole '
            'domain in one enumeration. More epochs: the generic stratum (every rho > 0, no tip or internal node exactly on an inner epoch '
            'boundary, in every sample) and its complement inside the domain are enumerated separately with a region budget '
            + ('(generic / complement, all parameters batched: 2 epochs [2] 60 / 140, [3] 150 / 12, [2,2] 60 / 12; 3 epochs [2] 260 / 12; other '
               'subsets: 2 epochs [2] 60 / 12; otherwise 12-24 / 12)' if thorough else '(generic: 40 regions at [2], 10 at [3]; complement: 6)')
            + '. A coverage certificate (closure query unsat: the explored regions cover the stratum) is claimed only for the configurations counted under '
              '"certificate" in "birth-death: coverage of this run"; for the others the claim is restricted to the explored regions '
              '(require_closure=False). A region on which the batched evaluation raises is accepted; a region on which a slice alone raises has '
              'no reference value for that sample (counted in "birth-death: coverage of this run"). A point of the complement stratum whose tie '
              'condition holds over the reals but not in float64 is executed off the stratum (noted).')


def summarize_bd(total):
    """fold the per-configuration coverage records into one bounds entry"""
    from collections import Counter

    recs = [n.split('|') for n in total.notes if n.startswith('BD-COVERAGE|')]
    total.notes[:] = [n for n in total.notes if not n.startswith('BD-COVERAGE|')]
    if not recs:
        return
    c = Counter()
    regions = Counter()
    open_cases = Counter()
    noref = 0
    for _, cname, shape, kind, cert, nreg, stratum, nsr in recs:
        noref += int(nsr)
        c[(stratum, kind, cert)] += 1
        regions[(stratum, cert)] += int(nreg)
        if cert != 'certificate':
            open_cases[f'{cname} {shape} {stratum}'] += 1
    txt = '; '.join(f'{st} stratum / {kind} / {cert}: {n} configurations' for (st, kind, cert), n in sorted(c.items()))
    txt += ' | path regions: ' + ', '.join(f'{st} / {cert}: {n}' for (st, cert), n in sorted(regions.items()))
    if open_cases:
        txt += ' | explored regions only (number of batched subsets): ' + '; '.join(f'{k}: {n}' for k, n in sorted(open_cases.items()))
    txt += f' | per-sample comparisons without a reference value (the slice alone raises on that region; tips exactly on an inner epoch boundary with rho > 0 there): {noref}'
    total.bounds['birth-death: coverage of this run'] = txt


def body(chk):
    chk.explanation = ('two-run relational symbolic execution: the real model evaluated with a subset of parameters carrying a sample '
                       'shape ([2] everywhere; [S], [S,K] up to 5x5 for the tree likelihood; distinct symbols per sample) versus freshly '
                       'built copies evaluated on each slice; equality for EVERY sample index decided for all parameter values: closed by '
                       'hash-consing when both runs build the identical expression, otherwise by the solver (a mixing bug gives a value '
                       'that mentions symbols of another sample: counterexample first sought at the witness point, replayed on the real '
                       'code with plain tensors); per configuration a solver vacuity guard (two samples CAN give different values: sat, '
                       'with the model checked in exact arithmetic when the solver times out); birth-death models (BDSKModel 1-3 epochs, '
                       'BirthDeathModel): the same relational obligation decided on every explored PATH REGION (searchsorted cells, ties with epoch '
                       'boundaries, rho = 0 / > 0), regions enumerated with blocking clauses, closure query = coverage certificate where the '
                       'region budget allows (bounds: birth-death), candidates sought at the region witness and at a generic point of the region')
    chk.total.assumptions |= {'eigh is a functional contract stub (same symbolic input -> same symbols), so batched and sliced runs see the same eigen symbols',
                              'a batched evaluation that raises is accepted by the property ("fails with an error"); such configurations are listed in the notes',
                              'site models and node-height transforms are covered batched in C05 / C06'}
    global BOUNDS_LIKE, BOUNDS_BD, BOUNDS_PIN, BOUNDS_SWITCH
    BOUNDS_LIKE = bounds_like(chk.tier)
    BOUNDS_BD = bounds_bd(chk.tier)
    thorough = chk.tier == 'thorough'
    BOUNDS_PIN = ('special values inside a batch: for every case of the single-region scheme ('
                  + 'likelihood cases: ' + ', '.join(c.split(':', 1)[1] for c in PIN_LIKELIHOOD_QUICK)
                  + (' - every other likelihood case with all parameters batched at [2]' if thorough else '')
                  + '; all coalescents, substitution q / p_t, GMRF, CTMC scale, tree prior, distributions, joints, extra: cases) and every parameter p '
                  'except the node heights, with all parameters batched and with p alone batched, sample shape [2]' + (' and [3]' if thorough else '')
                  + f': entry 0 of sample {PIN_SAMPLE} is the constant 0 / the constant 1 / (entry 1) the same symbol as entry 0 / the same symbol as '
                  'the first entry of the next parameter' + ('' if thorough else ' (the last one not for the likelihood cases)')
                  + ', every other entry of every sample stays symbolic. Every OTHER sample must equal its slice value (solver-decided as usual); '
                  'the sample with the distinguished value is compared for consistency only (undefined in both runs, or equal; a slice that raises '
                  'gives no reference). Division by the literal 0 yields a fresh undefined symbol; entries that real torch reports as nan / inf are '
                  'not cross-checked against the engine value. Configurations in which the engine cannot follow a decision taken on a non-finite '
                  'value are listed as "NOT decided" (concrete witness replay only). Birth-death cases: rho = 0 in one sample is a region of their '
                  'closed domain (region enumeration), not a pinned configuration.')
    BOUNDS_SWITCH = ('the evaluation that switches rescaling on (TreeLikelihoodModel.calculate_with_tip_partials: plain pass, underflow verdict, '
                     'calculate_treelikelihood_discrete_safe with model.threshold) batched vs per slice, composites '
                     + ', '.join(SWITCH_COMPOSITES) + ' (every parameter of each batchable), sample shapes [2] (= internal nodes) and [3] (= site patterns)'
                     + (', [2,2]' if thorough else '') + '; variants: ' + '; '.join(SWITCH_VARIANTS)
                     + ('' if thorough else ' (quick: "root only" on two composites; "only the first sample" at [2] for the all-batched and the single-parameter subsets)')
                     + '. The underflow verdict is an oracle in place of torch.isinf (a stub: over the reals no log-likelihood is -inf); the threshold is '
                     'fixed from the plain partials at the initial witness so that all internal nodes / only the root are below it in every sample; '
                     'decided on the path region of the witness (which nodes are below the threshold, position of every per-site maximum): no '
                     'coverage certificate over the other regions. A sample whose own verdict is "no underflow" is compared with the plain formula '
                     'site by site through log(xy) = log x + log y (site likelihoods and scalers assumed positive), each site identity solver-proved.')
    pmap(run_task, tasks_for(chk.tier), chk.total)
    summarize_bd(chk.total)


if __name__ == '__main__':
    if '--replay' in sys.argv:
        import json

        r = json.load(open(sys.argv[sys.argv.index('--replay') + 1]))
        print('replay:', r['what'])
        rp = r.get('replay') or {}
        if isinstance(rp, dict) and 'case' in rp:
            # re-run the recorded counterexample on the real code (plain tensors, per-slice oracle)
            torch.set_default_dtype(torch.float64)
            if rp['case'].startswith(REGION_PREFIXES):
                bad, detail = replay_region_case(rp['case'], frozenset(rp['batched']), rp.get('values') or {}, tuple(rp.get('shape', (S,))))
            else:
                bad, detail = replay_case(rp['case'], frozenset(rp['batched']), rp.get('values') or {}, tuple(rp.get('shape', (S,))))
            print('reproduced:' if bad else 'NOT reproduced:', detail)
            sys.exit(1 if bad else 0)
        sys.exit(1)
    sys.exit(main_for(PID, body))
